"""Fail-closed translator for C04: reads the guard prefix of fit() and predict() of DailyModel, BillingModel and
HourlyModel from /repo's source (Python ast) and writes coq/Generated/GateGen.v:

    Definition predict_guards (f : family) : list pguard := ...   (in source order)
    Definition fit_guards     (f : family) : list fguard := ...

Properties/C04.v proves that the hand-written decision functions of Model/Gate.v are the interpretation of these
lists (C04_predict_is_the_source_guard_sequence, C04_fit_is_the_source_guard_sequence): reordering, removing or
re-targeting a guard in the source changes the generated lists and breaks those obligations.  Anything the
translator does not recognise raises TranslatorError (fail closed)."""
import ast
import os
import sys

HERE = os.path.dirname(os.path.abspath(__file__))
sys.path.insert(0, HERE)
import vlib  # noqa: E402

OUT = "Generated/GateGen.v"


class TranslatorError(Exception):
    pass


FAMS = {
    "Daily": ("opendsm/eemeter/models/daily/model.py", "DailyModel", ("DailyBaselineData", "DailyReportingData")),
    "Billing": ("opendsm/eemeter/models/billing/model.py", "BillingModel", ("BillingBaselineData", "BillingReportingData")),
    "Hourly": ("opendsm/eemeter/models/hourly/model.py", "HourlyModel", ("HourlyBaselineData", "HourlyReportingData")),
}


def _src(rel):
    return open(os.path.join(vlib.repo_root(), rel)).read()


def _cls(tree, name, rel):
    for n in tree.body:
        if isinstance(n, ast.ClassDef) and n.name == name:
            return n
    raise TranslatorError("class %s not found in %s" % (name, rel))


def _method(cls, name):
    for n in cls.body:
        if isinstance(n, ast.FunctionDef) and n.name == name:
            return n
    return None


def _class_attr(cls, name):
    for n in cls.body:
        if isinstance(n, ast.Assign) and len(n.targets) == 1 and isinstance(n.targets[0], ast.Name) and n.targets[0].id == name:
            if isinstance(n.value, ast.Name):
                return n.value.id
    return None


def u(node):
    return ast.unparse(node)


def _raised(body):
    """name of the exception class raised as the LAST statement of an if-body (docstring expressions allowed before)"""
    stmts = [s for s in body if not (isinstance(s, ast.Expr) and isinstance(s.value, ast.Constant) and isinstance(s.value.value, str))]
    if len(stmts) == 1 and isinstance(stmts[0], ast.Raise) and stmts[0].exc is not None:
        e = stmts[0].exc
        f = e.func if isinstance(e, ast.Call) else e
        if isinstance(f, ast.Name):
            return f.id
    return None


def _has(node, kinds):
    return any(isinstance(n, kinds) for n in ast.walk(node))


def _resolve_types(test_arg, cls_chain):
    """names of the classes in the second argument of isinstance"""
    elts = test_arg.elts if isinstance(test_arg, ast.Tuple) else [test_arg]
    out = []
    for e in elts:
        if isinstance(e, ast.Name):
            out.append(e.id)
        elif isinstance(e, ast.Attribute) and isinstance(e.value, ast.Name) and e.value.id == "self":
            val = None
            for c in cls_chain:
                val = _class_attr(c, e.attr)
                if val:
                    break
            if not val:
                raise TranslatorError("cannot resolve self.%s" % e.attr)
            out.append(val)
        else:
            raise TranslatorError("isinstance against %s" % u(e))
    return tuple(out)


def predict_guards(fam, fn, cls_chain, data_classes, arg="reporting_data"):
    guards = []
    body = list(fn.body)
    if body and isinstance(body[0], ast.Expr) and isinstance(body[0].value, ast.Constant):
        body = body[1:]
    for st in body:
        if not isinstance(st, ast.If):
            break                                   # the guard prefix ends at the first non-if statement
        if st.orelse:
            if _raised(st.body) is None and not _has(st, ast.Raise):
                break                               # e.g. the aggregation if/elif chain of BillingModel.predict
            raise TranslatorError("%s.predict: guard with an else branch: %s" % (fam, u(st.test)))
        exc = _raised(st.body)
        t = u(st.test)
        if exc is None:
            if _has(st, (ast.Raise, ast.Return)):
                raise TranslatorError("%s.predict: unrecognised guard body under `%s`" % (fam, t))
            for n in ast.walk(st):
                if isinstance(n, (ast.Assign, ast.AugAssign, ast.AnnAssign)):
                    for tg in (n.targets if isinstance(n, ast.Assign) else [n.target]):
                        if u(tg).startswith("self."):
                            raise TranslatorError("%s.predict: the guard prefix writes %s" % (fam, u(tg)))
            if (arg + ".") in t:
                guards.append("PTouch")            # reads an attribute of the data object, raises nothing itself
            continue
        if exc == "RuntimeError" and t == "not self.is_fitted":
            guards.append("PUnfitted")
        elif exc == "DisqualifiedModelError" and t == "self.disqualification and (not ignore_disqualification)":
            guards.append("PDisq")
        elif exc == "ValueError" and t == "str(self.baseline_timezone) != str(%s.tz)" % arg:
            guards.append("PTz")
        elif exc == "TypeError" and isinstance(st.test, ast.UnaryOp) and isinstance(st.test.op, ast.Not) \
                and isinstance(st.test.operand, ast.Call) and u(st.test.operand.func) == "isinstance" \
                and u(st.test.operand.args[0]) == arg:
            types = _resolve_types(st.test.operand.args[1], cls_chain)
            if tuple(sorted(types)) != tuple(sorted(data_classes)):
                raise TranslatorError("%s.predict: type guard accepts %s, the family's data classes are %s" % (fam, types, data_classes))
            guards.append("PType")
        elif exc == "ValueError" and t == "(missing_features := (set(self._ts_features) - set(%s.df.columns)))" % arg:
            guards.append("PFeature")
        elif exc == "ValueError" and "supplemental_categorical_columns" in t and ("%s.df.columns" % arg) in t:
            guards.append("PTouch")                 # supplemental categorical columns are outside the C04 data sets
        else:
            raise TranslatorError("%s.predict: unrecognised guard `if %s: raise %s`" % (fam, t, exc))
    return guards


def fit_guards(fam, fn, cls_chain, baseline_class, arg="baseline_data"):
    guards = []
    body = list(fn.body)
    if body and isinstance(body[0], ast.Expr) and isinstance(body[0].value, ast.Constant):
        body = body[1:]
    for st in body:
        if isinstance(st, ast.Expr) and isinstance(st.value, ast.Call) and u(st.value) == "%s.log_warnings()" % arg:
            continue
        if not isinstance(st, ast.If):
            break
        exc = _raised(st.body)
        t = u(st.test)
        if exc is None or st.orelse:
            break                                   # past the guard prefix (warning blocks, fit-path selection)
        if exc == "TypeError" and isinstance(st.test, ast.UnaryOp) and isinstance(st.test.op, ast.Not) \
                and isinstance(st.test.operand, ast.Call) and u(st.test.operand.func) == "isinstance" \
                and u(st.test.operand.args[0]) == arg:
            types = _resolve_types(st.test.operand.args[1], cls_chain)
            if types != (baseline_class,):
                raise TranslatorError("%s.fit: type guard accepts %s, expected %s" % (fam, types, baseline_class))
            guards.append("FType")
        elif exc == "DataSufficiencyError" and t == "%s.disqualification and (not ignore_disqualification)" % arg:
            guards.append("FDisq")
        elif exc == "ValueError" and t == "'ghi' in self._ts_features and (not 'ghi' in %s.df.columns)" % arg:
            guards.append("FFeature")
        else:
            raise TranslatorError("%s.fit: unrecognised guard `if %s: raise %s`" % (fam, t, exc))
    return guards


def extract():
    trees = {}
    for fam, (rel, cname, _) in FAMS.items():
        trees[fam] = _cls(ast.parse(_src(rel)), cname, rel)
    out = {"predict": {}, "fit": {}}
    for fam, (rel, cname, dcls) in FAMS.items():
        chain = [trees[fam]] + ([trees["Daily"]] if fam == "Billing" else [])
        pf = None
        for c in chain:
            pf = _method(c, "predict")
            if pf is not None:
                break
        if pf is None:
            raise TranslatorError("%s: no predict method" % fam)
        out["predict"][fam] = predict_guards(fam, pf, chain, dcls)
        ff = _method(chain[0], "fit")
        # BillingModel.fit only forwards to DailyModel.fit
        if fam == "Billing":
            if ff is not None:
                inner = [s for s in ff.body if not (isinstance(s, ast.Expr) and isinstance(s.value, ast.Constant))]
                if not (len(inner) == 1 and isinstance(inner[0], ast.Return)
                        and u(inner[0].value) == "super().fit(baseline_data, ignore_disqualification=ignore_disqualification)"):
                    raise TranslatorError("BillingModel.fit is not a plain forward to DailyModel.fit")
            ff = _method(trees["Daily"], "fit")
        if ff is None:
            raise TranslatorError("%s: no fit method" % fam)
        out["fit"][fam] = fit_guards(fam, ff, chain, dcls[0])
    return out


def render(ex):
    def lst(xs):
        return "[" + "; ".join(xs) + "]"
    lines = ["(* GENERATED by harness/translate_gate.py from the source of /repo on every run - do not edit. *)",
             "From Coq Require Import List.", "From V Require Import Model.Gate.", "Import ListNotations.", "",
             "Definition predict_guards (f : family) : list pguard :=", "  match f with"]
    for fam in ("Daily", "Billing", "Hourly"):
        lines.append("  | %s => %s" % (fam, lst(ex["predict"][fam])))
    lines += ["  end.", "", "Definition fit_guards (f : family) : list fguard :=", "  match f with"]
    for fam in ("Daily", "Billing", "Hourly"):
        lines.append("  | %s => %s" % (fam, lst(ex["fit"][fam])))
    lines += ["  end.", ""]
    return "\n".join(lines)


def generate(run):
    text = render(extract())
    if run is not None:
        run.write_generated(OUT, text)
    else:
        p = os.path.join(vlib.COQ, OUT)
        os.makedirs(os.path.dirname(p), exist_ok=True)
        if not os.path.exists(p) or open(p).read() != text:
            open(p, "w").write(text)
    return text


if __name__ == "__main__":
    print(generate(None))
