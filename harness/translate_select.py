"""Translator for C13 (selection): writes coq/Generated/SelectGen.v from the SOURCE TEXT (Python `ast`) of
  opendsm/eemeter/models/daily/model.py                          DailyModel._best_combination (the selection loop),
                                                                 _combination_selection_criteria (loss, num_coeffs, call),
                                                                 _get_error_metrics (wRMSE)
  opendsm/eemeter/models/daily/utilities/selection_criteria.py   neg_log_likelihood, selection_criteria (df_penalized,
                                                                 one expression per criterion, the normalisation rule)
under vlib.repo_root().  Expressions become terms of the `expr` datatype of coq/Model/SelectShape.v (local variables
are inlined); theorems in Properties/C13.v state that they evaluate to what Model/SelCrit.v computes and that the loop
has the shape Model/Splits.v (`best`) models.  Fail-closed: anything the translator does not recognise raises
TranslateError (the check reports a broken tie); recognised-but-different content is emitted and breaks a theorem."""
import ast
import os

import vlib


class TranslateError(Exception):
    pass


def _need(cond, msg):
    if not cond:
        raise TranslateError(msg)


def _func(tree, name):
    found = [n for n in ast.walk(tree) if isinstance(n, ast.FunctionDef) and n.name == name]
    _need(len(found) == 1, "expected exactly one def %s, found %d" % (name, len(found)))
    return found[0]


def _strip_doc(body):
    if body and isinstance(body[0], ast.Expr) and isinstance(getattr(body[0], "value", None), ast.Constant) \
            and isinstance(body[0].value.value, str):
        return body[1:]
    return body


CMP = {ast.Lt: "CmpLt", ast.LtE: "CmpLe", ast.Gt: "CmpGt", ast.GtE: "CmpGe", ast.Eq: "CmpEq", ast.NotEq: "CmpNe"}
BIN = {ast.Add: "EAdd", ast.Sub: "ESub", ast.Mult: "EMul", ast.Div: "EDiv", ast.Pow: "EPow"}


def S(x):
    return vlib.coq_string(x)


def is_np(node, attr):
    return isinstance(node, ast.Attribute) and isinstance(node.value, ast.Name) and node.value.id == "np" and node.attr == attr


def expr(node, env, calls=()):
    """Python expression -> Coq `expr` text.  env: local name -> already translated text (inlined) ; names not in env
    are variables.  calls: names of functions whose call is an opaque variable (ECall)"""
    if isinstance(node, ast.Name):
        return env[node.id] if node.id in env else "(EVar %s)" % S(node.id)
    if isinstance(node, ast.Attribute) and isinstance(node.value, ast.Name) and node.value.id == "self":
        return "(EVar %s)" % S("self." + node.attr)
    if isinstance(node, ast.Constant):
        v = node.value
        if isinstance(v, bool) or not isinstance(v, (int, float)):
            raise TranslateError("constant %r in an arithmetic expression" % (v,))
        if isinstance(v, int):
            return "(EConst %s)" % vlib.zlit(v)
        if v == 1e-6:
            return "ETiny"
        raise TranslateError("float constant %r is not one the model knows" % (v,))
    if isinstance(node, ast.UnaryOp) and isinstance(node.op, ast.USub):
        return "(ENeg %s)" % expr(node.operand, env, calls)
    if isinstance(node, ast.BinOp):
        if isinstance(node.op, ast.Mult) and isinstance(node.left, ast.Constant) and node.left.value == 2 and is_np(node.right, "pi"):
            return "ETwoPi"
        _need(type(node.op) in BIN, "operator %s" % type(node.op).__name__)
        return "(%s %s %s)" % (BIN[type(node.op)], expr(node.left, env, calls), expr(node.right, env, calls))
    if isinstance(node, ast.Call) and not node.keywords:
        if is_np(node.func, "log") and len(node.args) == 1:
            return "(ELog %s)" % expr(node.args[0], env, calls)
        if is_np(node.func, "sqrt") and len(node.args) == 1:
            return "(ESqrt %s)" % expr(node.args[0], env, calls)
        if is_np(node.func, "power") and len(node.args) == 2:
            return "(EPow %s %s)" % (expr(node.args[0], env, calls), expr(node.args[1], env, calls))
        if isinstance(node.func, ast.Name) and node.func.id == "len" and len(node.args) == 1 and isinstance(node.args[0], ast.Name):
            return "(ELen %s)" % S(node.args[0].id)
        if isinstance(node.func, ast.Name) and node.func.id in calls:
            return "(ECall %s %s)" % (S(node.func.id), vlib.coq_list([S(ast.unparse(a)) for a in node.args]))
    raise TranslateError("expression not understood: %s" % ast.unparse(node))


def guard(node):
    """`name <op> int` -> (name, cmp, int)"""
    _need(isinstance(node, ast.Compare) and len(node.ops) == 1 and isinstance(node.left, ast.Name)
          and isinstance(node.comparators[0], ast.Constant) and isinstance(node.comparators[0].value, int)
          and type(node.ops[0]) in CMP, "guard not understood: %s" % ast.unparse(node))
    return "(%s, %s, %s)" % (S(node.left.id), CMP[type(node.ops[0])], vlib.zlit(node.comparators[0].value))


def lower_call(node):
    return (isinstance(node, ast.Call) and isinstance(node.func, ast.Attribute) and node.func.attr == "lower"
            and isinstance(node.func.value, ast.Name) and node.func.value.id == "model_selection_criteria" and not node.args)


# ------------------------------------------------------------------ selection_criteria.py

def translate_criteria(src):
    tree = ast.parse(src)
    out = {}
    # neg_log_likelihood
    f = _func(tree, "neg_log_likelihood")
    _need([a.arg for a in f.args.args] == ["loss", "N"], "neg_log_likelihood arguments: %s" % [a.arg for a in f.args.args])
    body = _strip_doc(f.body)
    _need(len(body) == 3 and isinstance(body[0], ast.If) and isinstance(body[1], ast.Assign) and isinstance(body[2], ast.Return),
          "neg_log_likelihood: expected `if ...: return np.inf`, one assignment, `return`")
    g = body[0]
    _need(not g.orelse and len(g.body) == 1 and isinstance(g.body[0], ast.Return), "neg_log_likelihood guard body")
    _need(is_np(g.body[0].value, "inf"), "neg_log_likelihood guard returns %s" % ast.unparse(g.body[0].value))
    if isinstance(g.test, ast.BoolOp):
        _need(isinstance(g.test.op, ast.Or), "neg_log_likelihood guard is not a disjunction")
        out["nll_guards"] = [guard(v) for v in g.test.values]
    else:
        out["nll_guards"] = [guard(g.test)]
    _need(len(body[1].targets) == 1 and isinstance(body[1].targets[0], ast.Name) and isinstance(body[2].value, ast.Name)
          and body[2].value.id == body[1].targets[0].id, "neg_log_likelihood does not return its one local")
    out["nll_expr"] = expr(body[1].value, {})
    # selection_criteria
    f = _func(tree, "selection_criteria")
    out["args"] = [a.arg for a in f.args.args]
    body = _strip_doc(f.body)
    env = {}
    i = 0
    while i < len(body) and isinstance(body[i], ast.Assign):            # K = num_coeffs; c0 = ...; d0 = ...; df_penalized = ...
        a = body[i]
        _need(len(a.targets) == 1 and isinstance(a.targets[0], ast.Name), "assignment target")
        name = a.targets[0].id
        if name == "df_penalized":
            out["dfp_expr"] = expr(a.value, env)
        else:
            _need(isinstance(a.value, ast.Name), "alias %s = %s" % (name, ast.unparse(a.value)))
            env[name] = "(EVar %s)" % S(a.value.id)
        i += 1
    _need("dfp_expr" in out, "df_penalized is not assigned before the criteria")
    g = body[i]
    _need(isinstance(g, ast.If) and not g.orelse and len(g.body) == 1 and isinstance(g.body[0], ast.Assign)
          and isinstance(g.body[0].targets[0], ast.Name) and g.body[0].targets[0].id == "df_penalized",
          "expected `if df_penalized <= 0: df_penalized = 1e-6`")
    out["dfp_guard"] = guard(g.test)
    out["dfp_fallback"] = expr(g.body[0].value, env)
    i += 1
    chain = body[i]
    _need(isinstance(chain, ast.If), "expected the if/elif chain over the criteria")
    branches = []
    node = chain
    while True:
        t = node.test
        _need(isinstance(t, ast.Compare) and len(t.ops) == 1 and isinstance(t.ops[0], ast.Eq) and lower_call(t.left)
              and isinstance(t.comparators[0], ast.Constant) and isinstance(t.comparators[0].value, str),
              "criteria branch test not understood: %s" % ast.unparse(t))
        name = t.comparators[0].value
        local = dict(env)
        value = None
        raises = False
        for st in node.body:
            if isinstance(st, ast.Raise):
                raises = True
                continue
            _need(isinstance(st, ast.Assign) and len(st.targets) == 1 and isinstance(st.targets[0], ast.Name),
                  "statement in branch %s: %s" % (name, ast.unparse(st)))
            tx = expr(st.value, local, calls=("neg_log_likelihood",))
            if st.targets[0].id == "criteria":
                value = tx
            else:
                local[st.targets[0].id] = tx
        if not raises:
            _need(value is not None, "branch %s assigns no criteria" % name)
            branches.append((name, value))
        if len(node.orelse) == 1 and isinstance(node.orelse[0], ast.If):
            node = node.orelse[0]
        else:
            _need(not node.orelse, "the criteria chain ends in an else")
            break
    out["branches"] = branches
    i += 1
    norm = body[i]
    _need(isinstance(norm, ast.If) and not norm.orelse and isinstance(norm.test, ast.Compare) and len(norm.test.ops) == 1
          and isinstance(norm.test.ops[0], ast.NotIn) and lower_call(norm.test.left)
          and isinstance(norm.test.comparators[0], ast.List), "normalisation rule not understood")
    out["unnormalised"] = [e.value for e in norm.test.comparators[0].elts]
    _need(len(norm.body) == 1 and isinstance(norm.body[0], ast.AugAssign) and isinstance(norm.body[0].op, ast.Div)
          and isinstance(norm.body[0].target, ast.Name) and norm.body[0].target.id == "criteria"
          and isinstance(norm.body[0].value, ast.Name), "normalisation statement not understood")
    out["normalise_by"] = norm.body[0].value.id
    i += 1
    _need(i == len(body) - 1 and isinstance(body[i], ast.Return) and isinstance(body[i].value, ast.Name)
          and body[i].value.id == "criteria", "selection_criteria does not end in `return criteria`")
    return out


# ------------------------------------------------------------------ model.py

def translate_model(src):
    tree = ast.parse(src)
    out = {}
    # ---- _best_combination
    f = _func(tree, "_best_combination")
    body = _strip_doc(f.body)
    init, loop = body[0], body[1]
    _need(isinstance(init, ast.Assign) and isinstance(init.value, ast.Dict) and isinstance(init.targets[0], ast.Name),
          "_best_combination does not start with the incumbent dictionary")
    hof = init.targets[0].id
    keys = [k.value for k in init.value.keys]
    _need(len(keys) == 2, "incumbent keys %r" % keys)
    vals = dict(zip(keys, init.value.values))
    name_key = [k for k in keys if isinstance(vals[k], ast.Constant) and vals[k].value is None]
    _need(len(name_key) == 1, "incumbent has no None-initialised name field")
    name_key = name_key[0]
    crit_key = [k for k in keys if k != name_key][0]
    cv = vals[crit_key]
    out["init"] = "InitPosInf" if is_np(cv, "inf") else "InitNegInf" if (
        isinstance(cv, ast.UnaryOp) and isinstance(cv.op, ast.USub) and is_np(cv.operand, "inf")) else "InitOther"
    _need(isinstance(loop, ast.For) and isinstance(loop.target, ast.Name) and not loop.orelse, "_best_combination: no for loop")
    var = loop.target.id
    out["iter"] = ast.unparse(loop.iter)
    lb = loop.body
    _need(isinstance(lb[0], ast.Assign) and isinstance(lb[0].targets[0], ast.Name) and isinstance(lb[0].value, ast.Call)
          and len(lb[0].value.args) == 1 and isinstance(lb[0].value.args[0], ast.Name) and lb[0].value.args[0].id == var
          and not lb[0].value.keywords, "loop does not start with `c = f(combo)`")
    cname = lb[0].targets[0].id
    out["crit_call"] = ast.unparse(lb[0].value.func)
    sel = lb[1]
    _need(isinstance(sel, ast.If), "no selection test in the loop")
    conj = sel.test.values if (isinstance(sel.test, ast.BoolOp) and isinstance(sel.test.op, ast.And)) else [sel.test]
    if isinstance(sel.test, ast.BoolOp) and not isinstance(sel.test.op, ast.And):
        conj = [None, None]          # a disjunction: not the modelled shape; counts as an extra condition
    first = conj[0]

    def is_inc(n):
        return (isinstance(n, ast.Subscript) and isinstance(n.value, ast.Name) and n.value.id == hof
                and isinstance(n.slice, ast.Constant) and n.slice.value == crit_key)

    def is_new(n):
        return isinstance(n, ast.Name) and n.id == cname
    out["cmp"], out["new_on_left"] = "CmpOther", "false"
    if isinstance(first, ast.Compare) and len(first.ops) == 1 and type(first.ops[0]) in CMP:
        if is_new(first.left) and is_inc(first.comparators[0]):
            out["cmp"], out["new_on_left"] = CMP[type(first.ops[0])], "true"
        elif is_inc(first.left) and is_new(first.comparators[0]):
            out["cmp"], out["new_on_left"] = CMP[type(first.ops[0])], "false"
    out["extra_conditions"] = len(conj) - 1
    upd_name = upd_crit = False
    others = 0
    for st in sel.body:
        if (isinstance(st, ast.Assign) and len(st.targets) == 1 and isinstance(st.targets[0], ast.Subscript)
                and isinstance(st.targets[0].value, ast.Name) and st.targets[0].value.id == hof
                and isinstance(st.targets[0].slice, ast.Constant)):
            k = st.targets[0].slice.value
            if k == name_key and isinstance(st.value, ast.Name) and st.value.id == var:
                upd_name = True
                continue
            if k == crit_key and is_new(st.value):
                upd_crit = True
                continue
        others += 1
    out["updates_name"], out["updates_crit"] = upd_name, upd_crit
    out["other_statements"] = others + len(sel.orelse)
    # the rest of the loop body / function may only print
    for st in lb[2:] + body[2:-1]:
        ok = isinstance(st, ast.If) and isinstance(st.test, ast.Name) and all(
            isinstance(x, ast.Expr) and isinstance(x.value, ast.Call) and isinstance(x.value.func, ast.Name)
            and x.value.func.id == "print" for x in st.body) and not st.orelse
        _need(ok, "_best_combination contains a statement that is not understood: %s" % ast.unparse(st)[:80])
    ret = body[-1]
    _need(isinstance(ret, ast.Return), "_best_combination does not end in a return")
    r = ret.value
    out["returns_name"] = bool(isinstance(r, ast.Subscript) and isinstance(r.value, ast.Name) and r.value.id == hof
                               and isinstance(r.slice, ast.Constant) and r.slice.value == name_key)
    # ---- _combination_selection_criteria
    f = _func(tree, "_combination_selection_criteria")
    body = _strip_doc(f.body)
    assigns = {}
    call = None
    for st in ast.walk(f):
        if isinstance(st, ast.Assign) and len(st.targets) == 1 and isinstance(st.targets[0], ast.Name):
            assigns.setdefault(st.targets[0].id, []).append(st.value)
            if isinstance(st.value, ast.Call) and isinstance(st.value.func, ast.Name) and st.value.func.id == "selection_criteria":
                call = st.value
    _need(call is not None and not call.keywords, "_combination_selection_criteria does not call selection_criteria positionally")
    out["call_args"] = [ast.unparse(a) for a in call.args]
    _need("loss" in assigns and len(assigns["loss"]) == 1, "loss is not assigned exactly once")
    out["loss_expr"] = expr(assigns["loss"][0], {})
    _need("num_coeffs" in assigns and len(assigns["num_coeffs"]) == 1, "num_coeffs is not assigned exactly once")
    out["num_coeffs_expr"] = expr(assigns["num_coeffs"][0], {})
    _need("components" in assigns and len(assigns["components"]) == 1, "components is not assigned exactly once")
    out["components_src"] = ast.unparse(assigns["components"][0])
    # ---- _get_error_metrics: wRMSE
    f = _func(tree, "_get_error_metrics")
    w = [st.value for st in ast.walk(f) if isinstance(st, ast.Assign) and len(st.targets) == 1
         and isinstance(st.targets[0], ast.Name) and st.targets[0].id == "wRMSE"]
    _need(len(w) == 1, "wRMSE is not assigned exactly once in _get_error_metrics")
    out["wrmse_expr"] = expr(w[0], {})
    return out


def extract():
    root = os.path.realpath(vlib.repo_root())
    base = os.path.join(root, "opendsm", "eemeter", "models", "daily")
    crit = translate_criteria(open(os.path.join(base, "utilities", "selection_criteria.py")).read())
    model = translate_model(open(os.path.join(base, "model.py")).read())
    return {"criteria": crit, "model": model}


def coq_text(info):
    c, m = info["criteria"], info["model"]
    L = vlib.coq_list
    B = vlib.coq_bool
    out = ["(* GENERATED by harness/translate_select.py from the source text of opendsm/eemeter/models/daily — do not edit. *)",
           "From Coq Require Import ZArith List String.", "From V Require Import Model.SelectShape.", "Import ListNotations.",
           "Open Scope string_scope.", "",
           "(* DailyModel._best_combination *)",
           "Definition gen_best_loop : loop_shape :=",
           "  {| ls_init := %s; ls_iter := %s; ls_crit_call := %s; ls_cmp := %s; ls_new_on_left := %s;" % (
               m["init"], S(m["iter"]), S(m["crit_call"]), m["cmp"], m["new_on_left"]),
           "     ls_extra_conditions := %d%%nat; ls_updates_name := %s; ls_updates_crit := %s; ls_other_statements := %d%%nat;" % (
               m["extra_conditions"], B(m["updates_name"]), B(m["updates_crit"]), m["other_statements"]),
           "     ls_returns_name := %s |}." % B(m["returns_name"]), "",
           "(* DailyModel._combination_selection_criteria / _get_error_metrics *)",
           "Definition gen_components_src : string := %s." % S(m["components_src"]),
           "Definition gen_num_coeffs : expr := %s." % m["num_coeffs_expr"],
           "Definition gen_loss : expr := %s." % m["loss_expr"],
           "Definition gen_wrmse : expr := %s." % m["wrmse_expr"],
           "Definition gen_call_args : list string := %s." % L([S(a) for a in m["call_args"]]), "",
           "(* selection_criteria.py *)",
           "Definition gen_nll_guards : list (string * cmp_op * Z) := %s." % L(c["nll_guards"]),
           "Definition gen_nll : expr := %s." % c["nll_expr"],
           "Definition gen_crit_args : list string := %s." % L([S(a) for a in c["args"]]),
           "Definition gen_dfp : expr := %s." % c["dfp_expr"],
           "Definition gen_dfp_guard : string * cmp_op * Z := %s." % c["dfp_guard"],
           "Definition gen_dfp_fallback : expr := %s." % c["dfp_fallback"],
           "Definition gen_branches : list (string * expr) :=\n  %s." % L(["\n   (%s, %s)" % (S(n), e) for n, e in c["branches"]]),
           "Definition gen_unnormalised : list string := %s." % L([S(x) for x in c["unnormalised"]]),
           "Definition gen_normalise_by : string := %s." % S(c["normalise_by"]), "",
           "Definition gen_tables : sel_tables :=",
           "  {| t_loop := gen_best_loop; t_components_src := gen_components_src; t_num_coeffs := gen_num_coeffs; t_loss := gen_loss;",
           "     t_wrmse := gen_wrmse; t_call_args := gen_call_args; t_nll_guards := gen_nll_guards; t_nll := gen_nll;",
           "     t_crit_args := gen_crit_args; t_dfp := gen_dfp; t_dfp_guard := gen_dfp_guard; t_dfp_fallback := gen_dfp_fallback;",
           "     t_branches := gen_branches; t_unnormalised := gen_unnormalised; t_normalise_by := gen_normalise_by |}.", ""]
    return "\n".join(out)


def generate(run=None):
    info = extract()
    text = coq_text(info)
    if run is not None:
        run.write_generated("Generated/SelectGen.v", text)
    else:
        p = os.path.join(vlib.COQ, "Generated", "SelectGen.v")
        os.makedirs(os.path.dirname(p), exist_ok=True)
        with vlib.Lock(True):
            old = open(p).read() if os.path.exists(p) else None
            if old != text:
                tmp = p + ".tmp%d" % os.getpid()
                open(tmp, "w").write(text)
                os.replace(tmp, p)
    return info


if __name__ == "__main__":
    print(coq_text(extract()))
