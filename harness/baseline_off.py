#!/venv/bin/python
"""Run the repository's pinned baseline with the verification guard OFF and
compare with /root/.vp/BASELINE.json (every stable_pass test must still pass)."""
import json, os, subprocess, sys, tempfile
import xml.etree.ElementTree as ET

def main():
    base = json.load(open("/root/.vp/BASELINE.json"))
    env = dict(os.environ)
    env.pop("OPENDSM_EEMETER_VERIF", None)
    out = tempfile.mkdtemp(prefix="baseline_", dir="/var/tmp")
    xml = os.path.join(out, "junit.xml")
    cmd = base["cmd"].replace("<file>", xml)
    r = subprocess.run(cmd, shell=True, env=env, stdout=subprocess.PIPE, stderr=subprocess.STDOUT, text=True)
    open(os.path.join(out, "log.txt"), "w").write(r.stdout)
    passed = set()
    for tc in ET.parse(xml).getroot().iter("testcase"):
        ok = not any(ch.tag in ("failure", "error", "skipped") for ch in tc)
        if ok:
            passed.add(tc.get("classname") + "::" + tc.get("name"))
    missing = [t for t in base["stable_pass"] if t not in passed]
    print("stable_pass=%d passed_now=%d missing=%d" % (len(base["stable_pass"]), len(passed), len(missing)))
    for t in missing:
        print("NOT PASSING:", t)
    print("log:", out)
    sys.exit(1 if missing else 0)

if __name__ == "__main__":
    main()
