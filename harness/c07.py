"""C07 — observed and predicted usage are masked together so savings sums are unbiased.
Model: coq/Model/Rows.v; theorems: coq/Properties/C07.v; tie: correspondence (this file)."""
import contextlib
import io
import json
import math
import os
import warnings
from fractions import Fraction

import numpy as np
import pandas as pd

import synth_daily as sd
import vlib
from vlib import Run, zlit, qlit, coq_list, coq_bool

warnings.simplefilter("ignore")

IMPORTS = "From Coq Require Import QArith.\nFrom V Require Import Model.Rows Model.RowsRun."
AGGS = [None, "monthly", "bimonthly"]
POLICY_NAMES = {0: "MaskOff (masking statement has no effect: unchanged code)",
                1: "MaskMissingTemp (observed masked where temperature is NaN)",
                2: "MaskNonFiniteTemp (observed masked where temperature is NaN or +-inf)",
                3: "MaskDropped (observed masked on every row without prediction)"}


# ------------------------------------------------------------------ generator

def gen_values(rng, n, p_nan, p_inf, inf_sign, lo, hi, den, p_zero=0.0):
    out = []
    for _ in range(n):
        u = rng.random()
        if u < p_nan:
            out.append("nan")
        elif u < p_nan + p_inf:
            out.append("inf" if inf_sign > 0 else "-inf")
        elif u < p_nan + p_inf + p_zero:
            out.append([0, 1])
        else:
            fr = sd.dy(rng, lo, hi, den)
            out.append([fr.numerator, fr.denominator])
    return out


def gen_case(rng, k):
    kind = "daily" if rng.random() < 0.55 else "billing"
    stream = "class" if rng.random() < 0.4 else "injected"
    tz = rng.choice(sd.ZONES[:5])
    subs = sd.gen_submodels(rng)
    if stream == "class" and kind == "billing":
        n = rng.choice([70, 95, 130, 200, 400])
    else:
        n = rng.choice([1, 2, 3, 7, 20, 45, 90, 150, 400] if k % 7 else [20, 45, 90])
    start = (pd.Timestamp("2019-01-01") + pd.Timedelta(days=rng.randrange(0, 2000))).strftime("%Y-%m-%d")
    gaps = sorted(rng.sample(range(n), rng.randrange(0, max(1, n // 5)))) if (stream == "injected" and n > 3 and rng.random() < 0.4) else []
    has_obs = rng.random() < 0.85
    p_tnan = rng.choice([0.0, 0.05, 0.3, 1.0] if k % 5 else [0.05, 0.3])
    p_onan = rng.choice([0.0, 0.05, 0.3, 1.0] if k % 5 else [0.05, 0.3])
    p_tinf = rng.choice([0.0, 0.0, 0.04])
    p_oinf = rng.choice([0.0, 0.0, 0.04]) if stream == "injected" else rng.choice([0.0, 0.0, 0.0, 0.02])
    m = n - len(gaps)
    case = {
        "model": kind, "stream": stream, "tz": tz, "start": start, "n": n, "gaps": gaps, "has_obs_col": has_obs,
        "electricity": rng.random() < 0.5,
        "billing_input": rng.choice(["daily", "bills"]) if (kind == "billing" and stream == "class") else None,
        "submodels": [{k2: (v if not isinstance(v, Fraction) else [v.numerator, v.denominator]) for k2, v in s.items()}
                      for s in subs],
        "temperature": gen_values(rng, m, p_tnan, p_tinf, rng.choice([1, -1]), -40, 120, 4),
        "observed": gen_values(rng, m, p_onan, p_oinf, rng.choice([1, -1]), -50, 200, 8, p_zero=0.03),
    }
    # predict() accepts the baseline data class as well as the reporting one: both are exercised
    case["data_class"] = "baseline" if rng.random() < 0.4 else "reporting"
    # storage dtype of the two columns as the caller's frame has them
    for col, lo, hi in (("temperature", -40, 120), ("observed", -50, 200)):
        dt = rng.choices(sd.DTYPES, weights=[44, 14, 26, 10, 6])[0]
        if dt == "int64":      # whole numbers, nothing missing in this column
            case[col] = [[rng.randrange(lo, hi + 1), 1] for _ in range(m)]
        case[col + "_dtype"] = dt
    return case


def subs_of(case):
    out = []
    for s in case["submodels"]:
        out.append({k: (Fraction(v[0], v[1]) if isinstance(v, list) and len(v) == 2 and all(isinstance(x, int) for x in v)
                        and k not in ("seasons",) else v) for k, v in s.items()})
    return out


# ------------------------------------------------------------------ implementation adapter

def build(case):
    """-> (model, data object, subs)"""
    subs = subs_of(case)
    with contextlib.redirect_stdout(io.StringIO()):
        model = sd.build_model(case["model"], subs, case["tz"])
    idx = sd.local_midnights(case["start"], case["n"], case["tz"], case["gaps"])
    bills = case.get("billing_input") == "bills" and case["has_obs_col"] and case["stream"] != "injected"
    tcol, tdt = sd.typed_column(case["temperature"], case.get("temperature_dtype", "float64"), idx)
    ocol, odt = sd.typed_column(case["observed"], "float64" if bills else case.get("observed_dtype", "float64"), idx)
    case["dtypes_used"] = [tdt, odt if case["has_obs_col"] else None]
    fr = pd.DataFrame({"temperature": tcol, "observed": ocol}, index=idx)
    if not case["has_obs_col"]:
        fr = fr[["temperature"]]
    role = case.get("data_class", "reporting")
    if case["stream"] == "injected":
        return model, sd.inject(case["model"], sd.layout(fr, case["has_obs_col"], keep_dtype=True), case["tz"], role), subs
    cls = sd.data_classes(case["model"], role)
    if case.get("billing_input") == "bills" and case["has_obs_col"]:
        # monthly reads: one value per bill start (irregular 27..34 days), NaN terminated; daily temperature
        bills, i, j = [], 0, 0
        lens = [27, 31, 30, 34, 29, 33, 28, 32]
        while i < len(idx):
            bills.append(i)
            i += lens[j % len(lens)]
            j += 1
        meter = fr["observed"].iloc[bills].copy()
        meter = meter.where(np.isfinite(meter) | meter.isna(), np.nan) * 30.0
        meter.iloc[-1] = np.nan
        data = cls.from_series(meter, fr["temperature"], is_electricity_data=case["electricity"])
    else:
        data = cls(fr, is_electricity_data=case["electricity"])
    return model, data, subs


def kind_of(x):
    x = float(x)
    if x != x:
        return 3
    if x == math.inf:
        return 1
    if x == -math.inf:
        return 2
    return 0


def observe_frame(out, daily_index_unit_ok=True):
    ts = sd.index_seconds(out.index)
    obs = sd.to_floats(out["observed"]) if "observed" in out.columns else np.full(len(out), np.nan)
    pred = sd.to_floats(out["predicted"])
    so = float(out["observed"].sum()) if "observed" in out.columns else 0.0
    sp = float(out["predicted"].sum())
    return {"ts": ts, "obs": [sd.enc(v) for v in obs], "pred": [sd.enc(v) for v in pred],
            "sum_obs": sd.enc(so), "sum_pred": sd.enc(sp)}


def run_impl(case):
    """-> observation dict (JSON-able)"""
    try:
        model, data, subs = build(case)
    except Exception as e:  # the data class refused the input: nothing to predict on
        return {"ctor_error": type(e).__name__ + ": " + str(e)[:120]}
    df_in = data.df
    has_obs = "observed" in df_in.columns
    smap, dmap = sd.season_maps(model)
    ts = sd.index_seconds(df_in.index)
    segs = [sd.segment_of(subs, smap[m], dmap[d + 1]) for m, d in zip(df_in.index.month, df_in.index.dayofweek)]
    t_in = sd.to_floats(df_in["temperature"])
    o_in = sd.to_floats(df_in["observed"]) if has_obs else np.full(len(df_in), np.nan)
    obs = {"has_obs": has_obs, "dtypes_in_data_object": [str(df_in["temperature"].dtype), str(df_in["observed"].dtype) if has_obs else None],
           "input": [[t, s, sd.enc(a), sd.enc(b)] for t, s, a, b in zip(ts, segs, t_in, o_in)],
           "unique_sorted_index": bool(df_in.index.is_unique), "frames": {}}
    for agg in (AGGS if case["model"] == "billing" else [None]):
        try:
            out = model.predict(data) if case["model"] == "daily" else model.predict(data, aggregation=agg)
        except Exception as e:
            obs["frames"][str(agg)] = {"err": type(e).__name__, "msg": str(e)[:100]}
            continue
        obs["frames"][str(agg)] = observe_frame(out)
    return obs


PAIRS = [("daily", "reporting"), ("daily", "baseline"), ("billing", "reporting"), ("billing", "baseline")]


PROBE_DTYPES = ["float64", "Float64", "float32"]


def detect_policy(kind="daily", role="reporting", tdtype="float64"):
    """which masking behaviour does the public predict() of this (model class, data class) pair have for a temperature
    column of this storage dtype? (4 probe days)"""
    case = {"model": kind, "data_class": role, "temperature_dtype": tdtype, "observed_dtype": "float64",
            "stream": "injected", "tz": "UTC", "start": "2021-03-01", "n": 4, "gaps": [],
            "has_obs_col": True, "electricity": False, "billing_input": None,
            "submodels": [{"key": "fw-su_sh_wi", "seasons": ["su", "sh", "wi"], "days": "fw", "type": "tidd",
                           "intercept": [7, 1], "hdd_bp": [50, 1], "cdd_bp": [60, 1], "hdd_beta": [0, 1], "cdd_beta": [0, 1],
                           "f_unc": [1, 2]}],
            "temperature": ["nan", "inf", [50, 1], [50, 1]], "observed": [[1, 1], [2, 1], "inf", [3, 1]]}
    obs = run_impl(case)
    fr = obs["frames"]["None"]
    kinds = [kind_of(sd.dec(v)) == 3 for v in fr["obs"][:3]]       # masked?
    table = {(False, False, False): 0, (True, False, False): 1, (True, True, False): 2, (True, True, True): 3}
    return table.get(tuple(kinds)), case, obs


# ------------------------------------------------------------------ property oracle (statement, literally)

def cause_of(row):
    """why a day is without prediction, from the input row [ts, seg, temp, obs]"""
    t, o = row[2], row[3]
    if t == "nan":
        return "temperature missing (NaN)"
    if t in ("inf", "-inf"):
        return "temperature +-inf"
    if o in ("inf", "-inf"):
        return "observed +-inf"
    if o == "nan":
        return "observed missing (NaN)"
    return "complete row"


def oracle(case, obs):
    """-> list of (signature, message, detail). Row-wise both-or-neither on the daily frame when usage was carried;
    a row that keeps usage must carry a finite prediction, a row without a usable temperature none; column sums vs row-wise
    savings sum (1e-9 relative) on every frame, a non-finite column total being a failure."""
    fails = []
    if not obs["has_obs"]:
        return fails
    base = {"model": case["model"], "data_class": case.get("data_class", "reporting")}
    by_ts = {r[0]: r for r in obs["input"]}
    daily = obs["frames"].get("None")
    causes = set()
    rowwise = None
    if daily is not None and "err" not in daily:
        rowwise = Fraction(0)       # over the rows that carry two finite values
        kept_obs = Fraction(0)      # usage on rows without prediction: what the known dropped-row findings explain
        for t, o, p in zip(daily["ts"], daily["obs"], daily["pred"]):
            has_o, has_p = o != "nan", p != "nan"
            src = by_ts.get(t)
            c = cause_of(src) if src is not None else "row not in the input"
            if has_o and has_p and not isinstance(o, str) and not isinstance(p, str):
                rowwise += Fraction(p[0], p[1]) - Fraction(o[0], o[1])
            if has_o and isinstance(p, str) and has_p:
                # "masked together": a row that keeps its usage must carry a usable prediction
                fails.append((dict(base, defect="observed present and predicted not finite", cause=c, where="daily frame"),
                              "a day (%s) has an observed value and predicted = %s" % (c, p),
                              {"ts": t, "observed": o, "predicted": p, "input_row": src}))
            if has_p and src is not None and src[2] in ("nan", "inf", "-inf"):
                # a day whose temperature is not a usable number gets no prediction
                fails.append((dict(base, defect="prediction on a row without a usable temperature", cause=c, where="daily frame"),
                              "a day (%s) got predicted = %s" % (c, p if isinstance(p, str) else p[0] / p[1]),
                              {"ts": t, "observed": o, "predicted": p, "input_row": src}))
            if has_o and not has_p:
                causes.add(c)
                if not isinstance(o, str):
                    kept_obs += Fraction(o[0], o[1])
                fails.append((dict(base, defect="observed kept on a row without prediction", cause=c, where="daily frame"),
                              "a day (%s) has an observed value and no prediction" % c,
                              {"ts": t, "observed": o, "predicted": p, "input_row": src}))
            if has_p and not has_o:
                fails.append((dict(base, defect="prediction on a row without usage", cause=c, where="daily frame"),
                              "a day without usage (%s) got a prediction" % c,
                              {"ts": t, "observed": o, "predicted": p, "input_row": src}))
    # sums: "summing the two columns separately equals summing row-wise savings" — on every aggregation level
    if rowwise is not None:
        for agg, fr in obs["frames"].items():
            if "err" in fr:
                continue
            if isinstance(fr["sum_obs"], str) or isinstance(fr["sum_pred"], str):
                # a non-finite column total can never equal the (finite) row-wise savings sum.  The only explained case:
                # the usage column itself carries +-inf on a row without prediction (reported row-wise, cause "observed +-inf")
                if not isinstance(fr["sum_pred"], str) and "observed +-inf" in causes:
                    continue
                which = "predicted" if isinstance(fr["sum_pred"], str) else "observed"
                fails.append((dict(base, defect="non-finite column total", cause=which, where="sums agg=%s" % agg),
                              "sum(predicted) = %s, sum(observed) = %s: not finite, row-wise savings sum = %s"
                              % (sd.dec(fr["sum_pred"]), sd.dec(fr["sum_obs"]), float(rowwise)),
                              {"aggregation": agg, "sum_predicted": fr["sum_pred"], "sum_observed": fr["sum_obs"],
                               "rowwise": float(rowwise)}))
                continue
            sep = Fraction(*fr["sum_pred"]) - Fraction(*fr["sum_obs"])
            scale = max(1, abs(Fraction(*fr["sum_pred"])), abs(Fraction(*fr["sum_obs"])))
            if causes and abs(sep - rowwise + kept_obs) > Fraction(1, 10**9) * scale:
                # the difference is not the usage kept on the rows without prediction: something else is wrong
                fails.append((dict(base, defect="column sums differ from row-wise savings", cause="none", where="sums agg=%s" % agg),
                              "sum(predicted)-sum(observed) = %s, row-wise savings sum = %s, usage on rows without prediction = %s"
                              % (float(sep), float(rowwise), float(kept_obs)),
                              {"aggregation": agg, "separate": float(sep), "rowwise": float(rowwise), "kept_observed": float(kept_obs)}))
            if abs(sep - rowwise) > Fraction(1, 10**9) * scale:
                for c in (sorted(causes) or ["none"]):
                    fails.append((dict(base, defect="observed kept on a row without prediction" if causes else "column sums differ from row-wise savings",
                                       cause=c, where="sums agg=%s" % agg),
                                  "sum(predicted)-sum(observed) = %s but row-wise savings sum = %s" % (float(sep), float(rowwise)),
                                  {"aggregation": agg, "separate": float(sep), "rowwise": float(rowwise)}))
    return fails


# ------------------------------------------------------------------ Coq terms

def cell(v):
    if v == "nan":
        return "qNaN"
    if v == "inf":
        return "qPInf"
    if v == "-inf":
        return "qNInf"
    return "(qV %s)" % qlit(Fraction(v[0], v[1]))


def coq_pl(i, s):
    return "(mkpl %s %s %s %s %s %s)" % (zlit(i), qlit(s["intercept"]), qlit(s["hdd_bp"]), qlit(s["hdd_beta"]),
                                         qlit(s["cdd_bp"]), qlit(s["cdd_beta"]))


def coq_rows(rows):
    return coq_list(["(qrow %s %s %s %s)" % (zlit(t), zlit(-1 if s is None else s), cell(a), cell(b)) for t, s, a, b in rows])


def coq_case(policy, case, obs, aggs):
    """one term per case: pattern of the un-aggregated frame + the column totals of every frame in `aggs`"""
    subs = subs_of(case)
    fr = obs["frames"]["None"]
    pat = coq_list(["(%s, %s, %s)" % (zlit(t), zlit(kind_of(sd.dec(o))), zlit(kind_of(sd.dec(p))))
                    for t, o, p in zip(fr["ts"], fr["obs"], fr["pred"])])
    sums = coq_list(["(%s, %s)" % (cell(obs["frames"][str(a)]["sum_obs"]), cell(obs["frames"][str(a)]["sum_pred"]))
                     for a in aggs])
    return "(%s, (%s, %s, %s, %s, ((%s : pattern), (%s : list (qcell * qcell)))))" % (
        zlit(1 if case.get("data_class") == "baseline" else 0), zlit(policy), coq_bool(obs["has_obs"]), coq_list([coq_pl(i, s) for i, s in enumerate(subs)]),
        coq_rows(obs["input"]), pat, sums)


# ------------------------------------------------------------------ main

def process(run, cases, policy):
    terms, meta = [], []
    for ci, case in enumerate(cases):
        obs = run_impl(case)
        if "ctor_error" in obs:
            run.dist("data_class", "refused: " + obs["ctor_error"].split(":")[0])
            run.count(vlib.sha(case), nontrivial=False)
            continue
        rows = obs["input"]
        n_drop = sum(1 for r in rows if cause_of(r) != "complete row" and not (not obs["has_obs"] and r[2] not in ("nan", "inf", "-inf")))
        nontrivial = 0 < n_drop < len(rows)
        if "object" in obs.get("dtypes_in_data_object", []):
            nontrivial = False
        run.dist("storage dtype of temperature in the data object", obs["dtypes_in_data_object"][0])
        run.dist("storage dtype of observed in the data object", obs["dtypes_in_data_object"][1])
        run.dist("stream", "%s/%s" % (case["model"], case["stream"]))
        run.dist("(model class, data class) through the public predict()", "%s/%s" % (case["model"], case.get("data_class", "reporting")))
        run.dist("rows", min(400, 10 ** len(str(len(rows)))))
        run.dist("has_observed", obs["has_obs"])
        for r in rows:
            if obs["has_obs"]:
                run.dist("row_kind", cause_of(r))
        if any(r[1] is None for r in rows):
            run.corr_failures.append({"stream": "segments", "case": case, "impl": "a row is covered by no / several sub-models"})
            continue
        seen = set()
        for sig, msg, detail in oracle(case, obs):
            if vlib.sha(sig) in seen:        # one report per (case, signature)
                continue
            seen.add(vlib.sha(sig))
            run.violation(sig, "C07 %s model: %s" % (case["model"], msg), case=case, observation=detail,
                          expected="every row has both observed and predicted or neither; column sums equal row-wise sum",
                          generator="c07.gen_case")
        ok_aggs = []
        for agg in (AGGS if case["model"] == "billing" else [None]):
            fr = obs["frames"][str(agg)]
            run.count((vlib.sha(case), str(agg)), nontrivial)
            if "err" in fr:
                if fr["err"] == "TypeError" and "object" in obs.get("dtypes_in_data_object", []):
                    # the data classes accept an object column of Python floats, _initialize_data then dies in np.isfinite:
                    # predict() returns no frame, so the property (about the returned frame) says nothing
                    run.dist("outcome", "object-dtype column: predict() raises TypeError, no frame returned (outside C07)")
                    continue
                if fr["err"] == "KeyError" and not obs["has_obs"] and agg is not None:
                    run.dist("outcome", "aggregation without observed column raises KeyError (C19's subject)")
                    continue
                run.dist("outcome", fr["err"])
                run.corr_failures.append({"stream": "predict", "case": case, "aggregation": agg,
                                          "impl": fr, "model": "outcome outside the model's alphabet"})
                continue
            run.dist("outcome", "ok agg=%s" % agg)
            ok_aggs.append(agg)
        if None in ok_aggs:
            terms.append(coq_case(policy, case, obs, ok_aggs))
            meta.append((case, obs, ok_aggs))
            run.sample({"model": case["model"], "stream": case["stream"], "tz": case["tz"], "rows": len(rows),
                        "has_observed": obs["has_obs"], "dropped_rows": n_drop,
                        "sum_observed": sd.dec(obs["frames"]["None"]["sum_obs"]),
                        "sum_predicted": sd.dec(obs["frames"]["None"]["sum_pred"])})
    if not terms:
        return
    run.log("implementation runs done (%d cases), evaluating the model in Coq" % len(terms))
    bad = run.coq_cases("predict", IMPORTS, "", terms, "check_predict_dc", shard=max(10, min(60, len(terms) // 12 + 1)),
                        case_type="(Z * case)%type")
    if bad is None:
        run.proof_ok = False
        return
    for i in bad[:5]:
        case, obs, aggs = meta[i]
        run.corr_failures.append({"stream": "predict", "case": case, "aggregations": [str(a) for a in aggs],
                                  "impl": {str(a): {k: obs["frames"][str(a)][k] for k in ("sum_obs", "sum_pred")} for a in aggs},
                                  "model": run.coq_eval(IMPORTS, "", "show_predict_dc %s" % terms[i])[-1500:]})
    for i in bad[5:]:
        run.corr_failures.append({"stream": "predict", "case": meta[i][0]})


def main():
    run = Run("C07")
    run.cov["rule"] = (
        "synthetic daily/billing models (1-6 sub-models, tidd / hdd_tidd_cdd, dyadic coefficients) x reporting frames of "
        "1-400 local days in 5 zones, with/without observed column, NaN density 0/.05/.3/1 and +-inf density 0/.04 in "
        "either column, index gaps; the two columns are stored as float64 / float32 / nullable Float64 (missing = pd.NA) / int64 (whole "
        "numbers, nothing missing) / object (Python floats, missing = None) in the caller's frame; the data object is of the reporting class or of the baseline class (Daily/Billing x Reporting/Baseline"
        "Data: every type predict() accepts); stream 'class' goes through the class constructor (daily frames "
        "or monthly bills + daily temperature), stream 'injected' places the frame in the data object directly; billing: "
        "aggregation None/monthly/bimonthly. distinct = (case hash, aggregation); non-trivial = frame has both kept and dropped rows")
    run.assumptions += [
        "the sub-model curve is an oracle of the model (any function of segment and temperature); the correspondence "
        "instantiates it by the unsmoothed three-segment curve for the generated coefficients only",
        "index duplicate free (the data classes remove duplicates); DataFrame.join on duplicated labels is not modelled",
        "stream 'injected' bypasses the data-class constructor (frame placed in the private attribute _df); prediction always "
        "goes through the public predict() with an object of one of the data classes it accepts (reporting 60% / baseline 40%)",
        "the masking behaviour the model is run with (mask_policy) is detected from the implementation on a 4-day probe; "
        "the property oracle, not the model, decides violations",
        "the storage dtype of a column is not an input of the model: a cell is finite, +inf, -inf or missing (NaN, None and pd.NA "
        "alike); every dtype is run against the same model. An object-dtype column makes predict() raise TypeError in "
        "_initialize_data (np.isfinite): no frame is returned, the property is silent, those cases count as trivial",
        "correspondence is sampled: agreement is established on the cases run",
    ]
    run.cov["trusted_base"] += ["harness/c07.py, harness/synth_daily.py (generator, adapter, canonicalisation, segment lookup)",
                                "pandas semantics (dropna, isin, join, concat, sort_index, Series.sum) re-specified in Model/Rows.v"]
    run.check_proofs("Properties/C07.v", ["Proofs/RowsProofs.v"])
    run.ensure_models(["Model/RowsRun.v", "Model/CasesLib.v"])
    policy, pcase, pobs = detect_policy()
    run.cov["masking_behaviour_detected"] = POLICY_NAMES.get(policy, "unrecognised")
    run.log("masking behaviour of the implementation:", run.cov["masking_behaviour_detected"])
    if policy is None:
        run.corr_failures.append({"stream": "policy-probe", "case": pcase, "impl": pobs["frames"],
                                  "model": "no masking policy of Model/Rows.v explains the probe"})
        policy = 0
    # the same probe through the public predict() of every (model class, data class) pair predict() accepts: the data
    # class is not an input of the model (C07_output_depends_on_frame_only), so every pair must show the same behaviour
    probes = [pcase]
    per_pair = {"daily/reporting": POLICY_NAMES.get(policy, "unrecognised")}
    for kind, role in PAIRS:
        for tdt in PROBE_DTYPES:
            if (kind, role, tdt) == ("daily", "reporting", "float64"):
                continue
            pol2, pc2, po2 = detect_policy(kind, role, tdt)
            name = "%s/%s" % (kind, role) + ("" if tdt == "float64" else " temperature " + tdt)
            per_pair[name] = POLICY_NAMES.get(pol2, "unrecognised")
            probes.append(pc2)
            if pol2 != policy:
                run.log("masking behaviour of %s differs: %s" % (name, per_pair[name]))
                run.corr_failures.append({"stream": "policy-probe", "case": pc2, "impl": po2["frames"],
                                          "model": "predict() masks differently for %s than the daily model for a reporting-class "
                                                   "object with float64 columns; the model has one behaviour for all" % name})
    run.cov["masking_behaviour_per_pair"] = per_pair
    # which theorem of Properties/C07.v speaks about the behaviour observed: C07_mode_verdict proves
    #   C07_statement_q pol <-> mode_satisfies_statement pol = true ; the boolean is evaluated inside Coq
    ans = run.coq_eval(IMPORTS, "", "mode_satisfies_statement (policy_of %s)" % zlit(policy))
    verdict = {"true": True, "false": False}.get(ans.split(":")[0].replace("=", " ").split()[-1] if ans else "", None)
    if verdict is None:
        run.proof_ok = False
        run.proof_log += "\nmode_satisfies_statement did not evaluate: " + ans[-500:]
    elif verdict:
        run.cov["theorem_path"] = ("masking effective: the statement over the property's quantifier is a THEOREM for the observed "
                                   "behaviour (C07_mode_verdict; C07_statement_q_nonfinite_temp_repair / C07_statement_repaired)")
    else:
        run.cov["theorem_path"] = ("masking NOT effective: the statement is REFUTED for the observed behaviour (C07_mode_verdict; "
                                   "C07_statement_q_refuted_as_coded / C07_statement_q_refuted_missing_temp_repair); the witnesses "
                                   "are replayed on the implementation from corpus/C07.json; C07_both_or_neither_partial gives the guard")
    run.log(run.cov.get("theorem_path", "no verdict"))
    cases = []
    if run.replay:
        rep = json.load(open(run.replay))
        cases.append(rep["case"] if "model" in rep["case"] else rep["case"]["first"][0]["case"])
    else:
        corpus = os.path.join(vlib.VERIF, "corpus", "C07.json")
        if os.path.exists(corpus):
            cases += json.load(open(corpus))
        cases += probes
        # the refutation witnesses of Properties/C07.v through the baseline class too
        cases += [dict(c, data_class="baseline") for c in cases if c.get("comment") and c.get("data_class") != "baseline"]
        for k in range(run.n(340, 8000)):
            cases.append(gen_case(run.rng, k))
    step = 2000
    for s0 in range(0, len(cases), step):
        process(run, cases[s0:s0 + step], policy)
    run.finish()


if __name__ == "__main__":
    vlib.run_main(main, "C07")
