"""C12 — every fitted daily/billing model is physically admissible and well formed.
Model: coq/Model/Refine.v (on top of Model/DailyCurve.v); theorems: coq/Properties/C12.v; tie: correspondence.

PARTIAL: the optimiser (NLopt) is not modelled; the theorems take its result as an arbitrary vector of the box it
was given, and that contract is only CHECKED on the sampled fits (hook attributes _verif_x_raw/_verif_bnds).
Finiteness of coefficients and the uncertainty value are checked by the oracle only, not modelled.

Streams
  refine   synthetic raw vectors (every equality / zero pattern that selects a reduce_model branch, bound-hitting,
           crossed, pinned) through the real OptimizedResult constructed directly (no optimiser): coef_id/x/named_coeffs
           vs refine / named_coeffs (exact); the objective's model function and OptimizedResult.eval on the component's
           temperatures vs scored_curve / stored_curve
  bounds   _hdd_tidd_cdd_smooth_update_bnds / _c_hdd_tidd_update_bnds / _tidd_update_bnds directly vs update_bnds_*
  fits     real DailyModel / BillingModel fits on generated baselines: for every OptimizedResult of fit_components and
           model: raw in box (the oracle contract), then the same comparisons as `refine` on (raw, T) of the component,
           component.eval(component.T) vs component.model, to_dict()['submodels'] vs named_coeffs and the T statistics
Oracle: the statement's admissibility list on to_dict() / named_coeffs, stored curve == scored curve (1e-9*scale)."""
import json
import math
import os
import warnings

import numpy as np

import vlib
from vlib import Run, fhex, coq_list, coq_opt

warnings.simplefilter("ignore")

IMPORTS = ("From Coq Require Import PrimFloat.\nFrom V Require Import Model.Num Model.NumF Model.DailyCurve Model.DailyCurveRun "
           "Model.Refine Model.RefineRun.")
KEYS = ["hdd_tidd_cdd_smooth", "hdd_tidd_cdd", "c_hdd_tidd_smooth", "c_hdd_tidd", "tidd"]
COQ_KEY = {"hdd_tidd_cdd_smooth": "KFullSmooth", "hdd_tidd_cdd": "KFull", "c_hdd_tidd_smooth": "KCSmooth",
           "c_hdd_tidd": "KC", "tidd": "KTidd"}
COEF_ID = {"hdd_tidd_cdd_smooth": ["hdd_bp", "hdd_beta", "hdd_k", "cdd_bp", "cdd_beta", "cdd_k", "intercept"],
           "hdd_tidd_cdd": ["hdd_bp", "hdd_beta", "cdd_bp", "cdd_beta", "intercept"],
           "c_hdd_tidd_smooth": ["c_hdd_bp", "c_hdd_beta", "c_hdd_k", "intercept"],
           "c_hdd_tidd": ["c_hdd_bp", "c_hdd_beta", "intercept"], "tidd": ["intercept"]}
KEY_OF_ID = {tuple(v): k for k, v in COEF_ID.items()}
COQ_SHAPE = {"hdd_tidd_cdd_smooth": "HddTiddCddSmooth", "hdd_tidd_cdd": "HddTiddCdd", "hdd_tidd_smooth": "HddTiddSmooth",
             "tidd_cdd_smooth": "TiddCddSmooth", "hdd_tidd": "HddTidd", "tidd_cdd": "TiddCdd", "tidd": "Tidd"}
FIELDS = ["hdd_bp", "hdd_beta", "hdd_k", "cdd_bp", "cdd_beta", "cdd_k"]
PRESENT = {"hdd_tidd_cdd_smooth": set(FIELDS), "hdd_tidd_cdd": {"hdd_bp", "hdd_beta", "cdd_bp", "cdd_beta"},
           "hdd_tidd_smooth": {"hdd_bp", "hdd_beta", "hdd_k"}, "tidd_cdd_smooth": {"cdd_bp", "cdd_beta", "cdd_k"},
           "hdd_tidd": {"hdd_bp", "hdd_beta"}, "tidd_cdd": {"cdd_bp", "cdd_beta"}, "tidd": set()}

_S = {}


def settings():
    if "s" not in _S:
        from opendsm.eemeter import DailyModel
        _S["s"] = DailyModel().settings
    return _S["s"]


# ------------------------------------------------------------------ synthetic components

def grid(rng, lo, hi):
    if rng.random() < 0.6:
        return rng.randrange(int(math.ceil(lo * 4)), int(math.floor(hi * 4)) + 1) / 4.0
    return rng.uniform(lo, hi)


def make_T(rng, n_seg):
    """temperatures of one component with chosen T_min <= T_min_seg <= T_max_seg <= T_max (get_T_bnds recomputes them)"""
    t_min = grid(rng, -10, 45)
    t_max = grid(rng, max(t_min + 12, 60), 105)
    if rng.random() < 0.2:
        t_min_seg, t_max_seg = t_min, t_max
    else:
        t_min_seg = t_min + grid(rng, 0.25, 4)
        t_max_seg = t_max - grid(rng, 0.25, 4)
    lo = np.linspace(t_min, t_min_seg, n_seg + 1)
    hi = np.linspace(t_max_seg, t_max, n_seg)
    mid = np.sort(np.array([rng.uniform(t_min_seg, t_max_seg) for _ in range(24)]))
    T = np.concatenate([lo, mid, hi])
    perm = list(range(len(T)))
    rng.shuffle(perm)
    return T[perm], [float(t_min), float(t_max), float(t_min_seg), float(t_max_seg)]


def pick_bp(rng, tc, initial):
    lo, hi = (tc[0], tc[1]) if initial else (tc[2], tc[3])
    u = rng.random()
    if u < 0.13:
        return lo
    if u < 0.26:
        return hi
    if initial and u < 0.32:
        return rng.choice([tc[2], tc[3]])
    return grid(rng, lo, hi)


def pick_beta(rng):
    u = rng.random()
    if u < 0.22:
        return 0.0
    if u < 0.6:
        return rng.randrange(1, 48) / 8.0
    return rng.uniform(1e-4, 6.0)


def pick_pct(rng):
    u = rng.random()
    if u < 0.3:
        return 0.0
    if u < 0.4:
        return rng.choice([0.004, 0.0099])
    if u < 0.5:
        return 1.0
    if u < 0.6:
        return rng.choice([0.25, 0.5])
    return rng.uniform(0.0, 1.0)


def gen_raw(rng, key, tc, initial):
    """a point of the box the fit functions build for this key (balance points on the box faces, zero slopes / k,
    crossed balance points, pinned one-sided balance points)"""
    qlo = grid(rng, 0, 30)
    qhi = qlo + grid(rng, 1, 80)
    icpt = rng.choice([qlo, qhi, grid(rng, qlo, qhi), grid(rng, qlo, qhi)])
    info = {"q": [qlo, qhi], "pinned": None}
    if key in ("hdd_tidd_cdd_smooth", "hdd_tidd_cdd"):
        a, b = pick_bp(rng, tc, initial), pick_bp(rng, tc, initial)
        u = rng.random()
        if u < 0.12:
            b = a
        elif u < 0.65:
            a, b = min(a, b), max(a, b)        # the rest stays as drawn: crossed about half of the time
        hb, cb = a, b
        if key == "hdd_tidd_cdd_smooth":
            raw = [hb, pick_beta(rng), pick_pct(rng), cb, pick_beta(rng), pick_pct(rng), icpt]
        else:
            raw = [hb, pick_beta(rng), cb, pick_beta(rng), icpt]
    elif key in ("c_hdd_tidd_smooth", "c_hdd_tidd"):
        bp = pick_bp(rng, tc, initial)
        beta = pick_beta(rng) * rng.choice([-1.0, 1.0])
        if key == "c_hdd_tidd" and not initial and rng.random() < 0.25:
            # fit_c_hdd_tidd pins the balance point with degenerate bounds
            if beta < 0:
                bp, info["pinned"] = tc[1], "T_max"
            elif beta > 0:
                bp, info["pinned"] = tc[0], "T_min"
        if key == "c_hdd_tidd_smooth":
            raw = [bp, beta, rng.choice([0.0, 0.0, 0.5, 3.0, rng.uniform(1e-3, 40.0), 1e3]), icpt]
        else:
            raw = [bp, beta, icpt]
    else:
        raw = [icpt]
    return [float(v) for v in raw], info


def build_result(key, raw, T, rng_seed=0):
    from opendsm.eemeter.models.daily.optimize_results import OptimizedResult
    r = np.random.default_rng(rng_seed)
    n = len(T)
    resid = r.normal(0, 1, n)
    model = np.full(n, 20.0)
    return OptimizedResult(np.array(raw, dtype=float), np.zeros((len(raw), 2)), list(COEF_ID[key]), 2.0, 1.0, np.array(T),
                           model, np.ones(n), resid, None, 1.0, 1.0, True, "", 10, 0.1, settings())


def scored(key, raw, t_min, t_max, T):
    """what the objective function evaluates for this raw vector (the model_fcn of the fit_* function)"""
    from opendsm.eemeter.models.daily.base_models import c_hdd_tidd, hdd_tidd_cdd, tidd
    bnds = np.array([t_min, t_max])
    T = np.asarray(T, dtype=float)
    if key == "hdd_tidd_cdd_smooth":
        return hdd_tidd_cdd.evaluate_hdd_tidd_cdd_smooth(*raw, bnds, T)
    if key == "hdd_tidd_cdd":
        return hdd_tidd_cdd._hdd_tidd_cdd(*raw, bnds, T)
    if key == "c_hdd_tidd_smooth":
        return c_hdd_tidd._c_hdd_tidd_smooth(*raw, T_fit_bnds=bnds, T=T)
    if key == "c_hdd_tidd":
        return c_hdd_tidd._c_hdd_tidd(*raw, T_fit_bnds=bnds, T=T)
    return tidd._tidd(*raw, T_fit_bnds=bnds, T=T)


def observe(res):
    """(key of coef_id, x, named_coeffs as dict)"""
    nc = res.named_coeffs
    d = {"model_type": nc.model_type.value, "intercept": float(nc.intercept)}
    for f in FIELDS:
        v = getattr(nc, f)
        d[f] = None if v is None else float(v)
    return KEY_OF_ID[tuple(res.coef_id)], [float(v) for v in res.x], d


# ------------------------------------------------------------------ oracle (statement, literally)

def classify_cause(key, raw, tc, info):
    """where in the box the raw vector lies, in terms of the guards of the read-back analysis (Properties/C12.v).
    Used only to LABEL a violation (signature key "cause"); a violation is excused only if known_findings lists that label."""
    t_min, t_max, t_min_seg, t_max_seg = tc
    if key in ("hdd_tidd_cdd_smooth", "hdd_tidd_cdd"):
        sm = key == "hdd_tidd_cdd_smooth"
        hb, hbeta, ph, cb, cbeta, pc = (raw[0], raw[1], raw[2], raw[3], raw[4], raw[5]) if sm else \
            (raw[0], raw[1], 0.0, raw[2], raw[3], 0.0)
        crossed = cb < hb
        smoothing = sm and hb != cb and not (ph < 0.01 and pc < 0.01)
        if crossed and smoothing:
            return "H: crossed balance points with smoothing"
        if crossed:
            hb, hbeta, ph, cb, cbeta, pc = cb, cbeta, pc, hb, hbeta, ph
        if hb < t_min_seg or cb > t_max_seg:
            return "balance point outside [T_min_seg,T_max_seg] (initial-fit box)"
        at_end = hb != cb and (cb >= t_max or hb <= t_min)
        if at_end and smoothing:
            return "end-of-range slope dropped under smoothing"
        if smoothing and ((hbeta == 0 and ph != 0) or (cbeta == 0 and pc != 0)):
            return "zero slope with non-zero smoothing fraction"
        return "none"
    if key in ("c_hdd_tidd_smooth", "c_hdd_tidd"):
        bp, beta = raw[0], raw[1]
        if info.get("pinned"):
            return "pinned one-sided balance point (%s) stored as T_%s_seg" % (info["pinned"], info["pinned"][2:])
        if (bp > t_max_seg or bp < t_min_seg) and beta != 0:
            return "balance point outside [T_min_seg,T_max_seg] (initial-fit box)"
        return "none"
    return "none"


def admissibility(named, tc, q, f_unc=None):
    """the statement's list on one stored sub-model; returns list of broken clause names"""
    bad = []
    t_min, t_max = tc[0], tc[1]
    mt = named["model_type"]
    vals = [named["intercept"]] + [named[f] for f in FIELDS if named[f] is not None]
    if not all(math.isfinite(v) for v in vals):
        bad.append("finite coefficients")
        return bad
    present = {f for f in FIELDS if named[f] is not None}
    if present != PRESENT[mt]:
        bad.append("model type agrees with the coefficients present")
        return bad
    hb, cb = named["hdd_bp"], named["cdd_bp"]
    eps = 1e-9 * max(1.0, abs(t_min), abs(t_max))      # binary64 rounding of bp + k, bp - k
    if hb is not None and cb is not None and hb > cb + eps:
        bad.append("heating balance point not above the cooling one")
    for b in (hb, cb):
        if b is not None and not (t_min - eps <= b <= t_max + eps):
            bad.append("balance point inside the observed temperature range")
    two = mt in ("hdd_tidd_cdd_smooth", "hdd_tidd_cdd")
    if named["hdd_beta"] is not None:
        if (two and named["hdd_beta"] < 0) or (not two and named["hdd_beta"] > 0):
            bad.append("slope sign (heating)")
        if named["hdd_beta"] == 0:
            bad.append("declared slope non-zero")
    if named["cdd_beta"] is not None:
        if named["cdd_beta"] < 0:
            bad.append("slope sign (cooling)")
        if named["cdd_beta"] == 0:
            bad.append("declared slope non-zero")
    for k in (named["hdd_k"], named["cdd_k"]):
        if k is not None and k < 0:
            bad.append("non-negative smoothing")
    if q is not None and not (q[0] <= named["intercept"] <= q[1]):
        bad.append("base load within the observed usage range")
    if f_unc is not None and not (math.isfinite(f_unc) and f_unc >= 0):
        bad.append("non-negative finite uncertainty")
    return bad


def curve_mismatch(sc, st):
    sc, st = np.asarray(sc, float), np.asarray(st, float)
    fin = np.isfinite(sc) & np.isfinite(st)
    if not fin.all():
        return True, float("inf")
    scale = max(1.0, float(np.max(np.abs(sc))), float(np.max(np.abs(st))))
    d = float(np.max(np.abs(sc - st))) if len(sc) else 0.0
    return d > 1e-9 * scale, d


# ------------------------------------------------------------------ Coq terms

def flist(xs):
    return coq_list([fhex(v) for v in xs])


def coq_tc(tc):
    return "(mktc %s)" % " ".join(fhex(t) for t in tc)


def fopt(x):
    return "None" if x is None else "(Some %s)" % fhex(x)


def coq_named(d):
    return "(mkc %s %s %s)" % (COQ_SHAPE[d["model_type"]], fhex(d["intercept"]), " ".join(fopt(d[f]) for f in FIELDS))


def refine_case(key, raw, tc, obs):
    k2, x2, named = obs
    return "(%s, %s, %s, Some (%s, %s), Some %s)" % (COQ_KEY[key], flist(raw), coq_tc(tc), COQ_KEY[k2], flist(x2),
                                                     coq_named(named))


def curves_case(key, raw, tc, T, sc, st):
    rows = coq_list(["(%s, %s, %s)" % (fhex(t), fhex(a), fhex(b)) for t, a, b in zip(T, sc, st)])
    return "(%s, %s, %s, %s)" % (COQ_KEY[key], flist(raw), coq_tc(tc), rows)


# ------------------------------------------------------------------ one component (synthetic or fitted)

def process_component(run, acc, key, raw, T, info, res, stream, label, model_vals=None, q=None):
    """oracle + Coq terms for one OptimizedResult. model_vals: the fitted values the optimiser scored (real fits)."""
    tc = [float(res.T_min), float(res.T_max), float(res.T_min_seg), float(res.T_max_seg)]
    obs = observe(res)
    Tu = np.array(sorted(set(float(t) for t in T)))
    extra = [tc[0], tc[1], tc[2], tc[3]] + [v for v in (obs[2]["hdd_bp"], obs[2]["cdd_bp"]) if v is not None]
    Tu = np.array(sorted(set(list(Tu) + [e for e in extra if tc[0] <= e <= tc[1]])))
    sc = scored(key, raw, tc[0], tc[1], Tu)
    st = res.eval(Tu)[0]
    cause = classify_cause(key, raw, tc, info)
    run.dist(stream + "_key", key + " -> " + obs[0])
    run.dist(stream + "_cause", cause)
    base_sig = {"stream": stream, "key": key, "cause": cause}
    for clause in admissibility(obs[2], tc, q, float(res.f_unc)):
        run.violation(dict(base_sig, clause=clause, **{"class": "admissibility"}), "C12 %s: stored sub-model breaks '%s'" % (label, clause),
                      case={"key": key, "raw": raw, "tc": tc, "info": info}, observation={"named": obs[2], "x": obs[1]},
                      generator="c12." + stream)
    mism, d = curve_mismatch(sc, st)
    if mism:
        i = int(np.nanargmax(np.abs(np.asarray(sc) - np.asarray(st)))) if np.isfinite(d) else 0
        run.violation(dict(base_sig, clause="stored curve == scored curve", **{"class": "readback"}),
                      "C12 %s: the kept coefficients do not describe the curve the optimiser scored (max |diff| %.3g)" % (label, d),
                      case={"key": key, "raw": raw, "tc": tc, "info": info},
                      observation={"T": float(Tu[i]), "scored": float(sc[i]), "stored": float(st[i]), "named": obs[2]},
                      generator="c12." + stream)
    if model_vals is not None:
        mism2, d2 = curve_mismatch(model_vals, res.eval(np.asarray(T, float))[0])
        if mism2:
            run.violation(dict(base_sig, clause="eval(T) == fitted values", **{"class": "readback"}),
                          "C12 %s: component.eval(component.T) differs from component.model (max |diff| %.3g)" % (label, d2),
                          case={"key": key, "raw": raw, "tc": tc, "info": info}, observation={"named": obs[2]},
                          generator="c12." + stream)
    acc["refine"].append(refine_case(key, raw, tc, obs))
    acc["curves"].append(curves_case(key, raw, tc, Tu, sc, st))
    acc["meta"].append({"key": key, "raw": raw, "tc": tc, "info": info, "obs": obs, "label": label,
                        "T": [float(t) for t in Tu[:10]], "scored": [float(v) for v in sc[:10]],
                        "stored": [float(v) for v in st[:10]]})
    return obs, tc


def flush(run, acc, stream):
    for what, fn in (("refine", "check_refine"), ("curves", "check_curves")):
        bad = run.coq_cases("%s_%s" % (stream, what), IMPORTS, "", acc[what], fn, shard=200 if what == "refine" else 60)
        if bad is None:
            run.proof_ok = False
            continue
        for i in bad[:5]:
            m = acc["meta"][i]
            if what == "refine":
                mdl = run.coq_eval(IMPORTS, "", "(refine F %s %s %s, named_coeffs F %s %s %s)" % (
                    COQ_KEY[m["key"]], flist(m["raw"]), coq_tc(m["tc"]), COQ_KEY[m["key"]], flist(m["raw"]), coq_tc(m["tc"])))
                impl = {"coef_id_key": m["obs"][0], "x": m["obs"][1], "named": m["obs"][2]}
            else:
                mdl = run.coq_eval(IMPORTS, "", "map (fun T => (scored_curve F %s %s %s T, stored_curve F %s %s %s T)) %s" % (
                    COQ_KEY[m["key"]], flist(m["raw"]), coq_tc(m["tc"]), COQ_KEY[m["key"]], flist(m["raw"]), coq_tc(m["tc"]),
                    flist(m["T"])))
                impl = {"T": m["T"], "scored": m["scored"], "stored": m["stored"]}
            run.corr_failures.append({"stream": "%s_%s" % (stream, what),
                                      "case": {"key": m["key"], "raw": m["raw"], "tc": m["tc"], "label": m["label"]},
                                      "impl": impl, "model": mdl})
        for i in bad[5:]:
            run.corr_failures.append({"stream": "%s_%s" % (stream, what), "case": {"key": acc["meta"][i]["key"],
                                                                                 "raw": acc["meta"][i]["raw"]}})


def T_for(tc, n_seg, m=24):
    lo = np.linspace(tc[0], tc[2], n_seg + 1)
    hi = np.linspace(tc[3], tc[1], n_seg)
    mid = np.linspace(tc[2], tc[3], m + 2)[1:-1]
    return np.concatenate([lo, mid, hi])


WITNESSES = [   # the refuted witnesses of Properties/C12.v, replayed on the real OptimizedResult
    ("hdd_tidd_cdd_smooth", [60.0, 1.0, 0.5, 50.0, 2.0, 0.5, 20.0], [10.0, 90.0, 14.0, 85.0], None),
    ("c_hdd_tidd", [90.0, -1.0, 20.0], [10.0, 90.0, 14.0, 85.0], "T_max"),
    ("c_hdd_tidd", [10.0, 1.0, 20.0], [10.0, 90.0, 14.0, 85.0], "T_min"),
    ("hdd_tidd_cdd_smooth", [10.0, 2.0, 0.5, 60.0, 0.0, 0.0, 20.0], [10.0, 90.0, 10.0, 90.0], None),
    ("hdd_tidd_cdd_smooth", [50.0, 4.0, 0.5, 70.0, 0.0, 0.875, 20.0], [10.0, 90.0, 14.0, 85.0], None),
    # old witness of C12-F7 (fixed by /repo 742a3de4: the shifted balance points no longer cross): must agree now
    ("hdd_tidd_cdd_smooth", [24.679393524689136, 0.0, 0.0, 59.75, 4.875, 1.0, 23.25],
     [7.665897511127071, 69.75, 10.91589751112707, 68.288722649513], None),
]


def stream_witness(run):
    n_seg = settings().segment_minimum_count
    acc = {"refine": [], "curves": [], "meta": []}
    for k, (key, raw, tc, pinned) in enumerate(WITNESSES):
        T = T_for(tc, n_seg)
        res = build_result(key, raw, T, rng_seed=k)
        info = {"q": [0.0, 100.0], "pinned": pinned, "initial_box": False}
        process_component(run, acc, key, raw, T, info, res, "witness", "witness %s" % key, q=info["q"])
        run.count(vlib.sha(["witness", key, raw, tc]), True)
    flush(run, acc, "witness")


def stream_refine(run, n):
    n_seg = settings().segment_minimum_count
    acc = {"refine": [], "curves": [], "meta": []}
    for k in range(n):
        key = KEYS[k % 5] if k < 50 else run.rng.choice(KEYS[:1] * 5 + KEYS[1:2] * 3 + KEYS[2:4] * 2 + KEYS[4:])
        T, tc = make_T(run.rng, n_seg)
        initial = run.rng.random() < 0.3
        raw, info = gen_raw(run.rng, key, tc, initial)
        info["initial_box"] = initial
        res = build_result(key, raw, T, rng_seed=k)
        got = [float(res.T_min), float(res.T_max), float(res.T_min_seg), float(res.T_max_seg)]
        if got != tc:
            # the array was built to have exactly these order statistics (C12_recorded_limits_*): the implementation disagrees
            run.violation({"stream": "refine", "clause": "recorded temperature limits are order statistics of the fitted days",
                           "class": "admissibility"},
                          "C12 synthetic %s: OptimizedResult records limits %r for a component whose fitted temperatures have the "
                          "order statistics %r (segment_minimum_count %d)" % (key, got, tc, n_seg),
                          case={"T": [float(t) for t in T], "n_seg": n_seg}, observation={"recorded": got, "expected": tc},
                          generator="c12.refine")
            tc = got
        obs, _ = process_component(run, acc, key, raw, T, info, res, "refine", "synthetic %s" % key, q=info["q"])
        run.count(vlib.sha([key, raw, tc]), key != "tidd")
        run.sample({"key": key, "raw": raw, "tc": tc, "coef_id_key": obs[0], "x": obs[1], "named": obs[2]})
    flush(run, acc, "refine")


# ------------------------------------------------------------------ bounds construction

def gen_row(rng, kind):
    """one (lower, upper) row as the fit functions can produce it, every degenerate pattern included.
    kind: 'bp' | 'beta' | 'k' | 'icpt'"""
    u = rng.random()
    if kind in ("beta", "k"):
        x0 = rng.choice([0.0, 0.0, 1.0, 0.5, rng.uniform(1e-4, 8.0), rng.randrange(1, 40) / 8.0, -rng.uniform(1e-3, 3.0),
                         10.0, 0.01, 1e-3, 100.0])
        if u < 0.22:
            return [0.0, 0.0]                                  # both initial slopes zero: max_slope = 0
        if u < 0.34:
            return [x0, x0]                                    # identical, non-zero (incl. negative, powers of ten)
        if u < 0.60:
            return [x0 - abs(x0), x0 + abs(x0)]                # get_bnds(x0) with final_bounds_scalar = 1: [0,2x0] / [2x0,0] / [0,0]
        if u < 0.70:
            return [0.0, 1.0] if kind == "k" else [0.0, abs(x0) * 3]
        if u < 0.78:
            return [abs(x0) + 1.0, -abs(x0)]                   # reversed
        if u < 0.86:
            return [-abs(x0) - 0.5, -abs(x0) - 0.5]            # identical negative
        return sorted([rng.uniform(-5, 20), rng.uniform(-5, 20)], reverse=rng.random() < 0.3)
    if kind == "bp":
        a = rng.choice([rng.uniform(-10, 60), rng.randrange(-40, 240) / 4.0, 0.0, 10.0, 50.0])
        if u < 0.15:
            return [a, a]                                      # equal balance-point limits (degenerate segment range / pinned)
        return [a, a + rng.choice([0.25, 1.0, 10.0, rng.uniform(0.1, 60)])]
    a = rng.choice([0.0, rng.uniform(0, 50), rng.randrange(0, 200) / 4.0, 1.0, 100.0])
    if u < 0.12:
        return [a, a]                                          # constant usage: identical quantiles
    return [a, a + rng.choice([0.5, 1.0, rng.uniform(0.1, 80)])]


LAYOUT_KINDS = {0: ["bp", "beta", "k", "bp", "beta", "k", "icpt"], 1: ["bp", "beta", "bp", "beta", "icpt"],
                2: ["bp", "beta", "k", "icpt"], 3: ["bp", "beta", "icpt"], 4: ["icpt"]}


def stream_bounds(run, n):
    """the three *_update_bnds functions exactly as the fit functions call them (the two lines of fit_c_hdd_tidd that keep
    identical balance-point bounds are replayed for the one-sided layouts), degenerate rows included"""
    from opendsm.eemeter.models.daily.base_models import c_hdd_tidd, hdd_tidd_cdd, tidd
    terms, kept = [], []
    rows = lambda rs: coq_list(["(%s, %s)" % (fhex(r[0]), fhex(r[1])) for r in rs])
    for k in range(n):
        layout = k % 5
        kinds = LAYOUT_KINDS[layout]
        b0 = [gen_row(run.rng, kd) for kd in kinds]
        nb = [gen_row(run.rng, kd) for kd in kinds]
        if k % 11 == 0:                      # the pattern of an initial fit without any temperature response
            for j, kd in enumerate(kinds):
                if kd == "beta":
                    b0[j] = [0.0, 0.0]
        use_none = run.rng.random() < 0.35      # initial fit: bnds=None -> new_bnds = bnds_0
        b0 = [[float(a), float(b)] for a, b in b0]
        nb = [[float(a), float(b)] for a, b in nb]
        nb_arg = None if use_none else np.array(nb, dtype=float)
        b0_arr = np.array(b0, dtype=float)
        try:
            if layout == 0:
                out = hdd_tidd_cdd._hdd_tidd_cdd_smooth_update_bnds(nb_arg, b0_arr.copy(), True)
            elif layout == 1:
                out = hdd_tidd_cdd._hdd_tidd_cdd_smooth_update_bnds(nb_arg, b0_arr.copy(), False)
            elif layout in (2, 3):
                out = c_hdd_tidd._c_hdd_tidd_update_bnds(nb_arg, b0_arr.copy(), layout == 2)
                if b0[0][0] == b0[0][1]:      # fit_c_hdd_tidd: "if breakpoint bounds are identical, don't expand"
                    out[0, :] = b0[0]
            else:
                out = tidd._tidd_update_bnds(nb_arg, b0_arr.copy())
        except Exception as e:  # noqa
            run.corr_failures.append({"stream": "bounds", "case": {"layout": layout, "nb": nb, "b0": b0}, "impl": repr(e)})
            continue
        o = np.asarray(out, float)
        exp = "(Some %s)" % rows(o)
        nbc = b0 if use_none else nb
        case = {"layout": layout, "nb": nbc, "b0": b0, "new_bnds_is_None": use_none, "out": o.tolist()}
        terms.append("(%d, %s, %s, %s)" % (layout, rows(nbc), rows(b0), exp))
        kept.append(case)
        degenerate = any(r[0] == r[1] for r in (b0 + nbc))
        run.count(vlib.sha([layout, nbc, b0]), True)
        run.dist("bounds_rows", "with identical rows" if degenerate else "all rows distinct")
        # oracle: what the statement relies on -- slopes and smoothing cannot be negative inside the optimiser's box
        neg_rows = {0: [1, 2, 4, 5], 1: [1, 3], 2: [2], 3: [], 4: []}[layout]
        for i in neg_rows:
            if o[i, 0] < 0:
                run.violation({"stream": "bounds", "clause": "slope / smoothing lower bound >= 0", "layout": layout, "row": i,
                               "class": "admissibility"},
                              "C12 bounds: the optimiser's box admits a negative slope or smoothing value (row %d = %r)"
                              % (i, o[i].tolist()), case=case, observation={"bounds": o.tolist()}, generator="c12.bounds")
    bad = run.coq_cases("bounds", IMPORTS, "", terms, "check_bounds", shard=400)
    if bad is None:
        run.proof_ok = False
    else:
        for i in bad[:5]:
            c = kept[i]
            run.corr_failures.append({"stream": "bounds", "case": c, "impl": c["out"]})
    # fix_identical_bnds itself, one row at a time
    from opendsm.eemeter.models.daily.utilities.base_model import fix_identical_bnds
    vals = [0.0, -0.0, 1.0, -1.0, 10.0, 100.0, 1000.0, 0.1, 0.01, 0.001, 9.999, 0.0999, 1e-5, 123456.0, -37.5, 2.5, 50.0, 0.5,
            99.99999, 1e6, 7e-4]
    vals += [run.rng.uniform(-200, 200) for _ in range(run.n(60, 600))] + [10.0 ** run.rng.randrange(-8, 9) for _ in range(12)]
    terms2, kept2 = [], []
    for v in vals:
        for r in ([v, v], [v, v + 1.0]):
            o = fix_identical_bnds(np.array([r], dtype=float))[0]
            terms2.append("((%s, %s), (%s, %s))" % (fhex(r[0]), fhex(r[1]), fhex(float(o[0])), fhex(float(o[1]))))
            kept2.append({"row": r, "out": [float(o[0]), float(o[1])]})
            run.count(vlib.sha(["fixid", r]), r[0] == r[1])
    bad = run.coq_cases("fix_identical", IMPORTS, "", terms2, "check_fix_identical", shard=400)
    if bad is None:
        run.proof_ok = False
        return
    for i in bad[:5]:
        run.corr_failures.append({"stream": "fix_identical", "case": kept2[i]["row"], "impl": kept2[i]["out"],
                                  "model": run.coq_eval(IMPORTS, "", "fix_identical_row F (%s, %s)" % (
                                      fhex(kept2[i]["row"][0]), fhex(kept2[i]["row"][1])))})


# ------------------------------------------------------------------ get_T_bnds (recorded temperature limits)

TBNDS_FROM_FITS = []      # (T, n_seg, recorded limits) of fitted components, filled by stream_fits


def tbnds_term(T, n, tc):
    exp = "(@None (tconstr F))" if tc is None else "(Some %s)" % coq_tc(tc)
    return "(%s, %d, %s)" % (flist(T), int(n), exp)


def stream_tbnds(run, n_cases):
    """utilities/base_model.get_T_bnds on synthetic temperature arrays (ties, tiny arrays, every relation between the
    segment count and the array length incl. out of bounds) and on the temperatures of the fitted components"""
    from types import SimpleNamespace
    from opendsm.eemeter.models.daily.utilities.base_model import get_T_bnds
    terms, kept = [], []
    for k in range(n_cases):
        ln = run.rng.choice([1, 2, 5, 7, 10, 11, 12, 13, 20, 21, 40, 90])
        grid_ = run.rng.random() < 0.5          # whole / half degrees: many ties
        T = [(run.rng.randrange(40, 180) / 2.0) if grid_ else run.rng.uniform(-10.0, 105.0) for _ in range(ln)]
        n = run.rng.choice([0, 1, 2, 3, 6, 10, ln // 2, ln // 2 + 1, max(ln - 1, 0), ln, ln + 1])
        try:
            (a, b), (c, d) = get_T_bnds(np.array(T, dtype=float), SimpleNamespace(segment_minimum_count=n))
            tc = [float(a), float(b), float(c), float(d)]
        except (ValueError, IndexError):
            tc = None
        run.count(vlib.sha(["tbnds", T, n]), ln > 1)
        run.dist("tbnds_case", "out of bounds" if tc is None else ("2n <= len" if 2 * n <= ln else "segments overlap"))
        if tc is not None and 2 * n <= ln:
            # the proved facts (C12_recorded_limits_ordered / _are_fitted_days / _bound_the_days) on the implementation
            if not (tc[0] <= tc[2] <= tc[3] <= tc[1]) or any(v not in T for v in tc) or tc[0] != min(T) or tc[1] != max(T):
                run.violation({"stream": "tbnds", "clause": "recorded temperature limits are ordered order statistics of the fitted days",
                               "class": "admissibility"},
                              "C12 get_T_bnds: limits %r of %d temperatures with segment_minimum_count %d are not ordered members"
                              % (tc, ln, n), case={"T": T, "n_seg": n}, observation={"limits": tc}, generator="c12.tbnds")
        terms.append(tbnds_term(T, n, tc))
        kept.append({"T": T, "n_seg": n, "impl": tc})
    for T, n, tc in TBNDS_FROM_FITS:
        terms.append(tbnds_term(T, n, tc))
        kept.append({"T": T[:8], "n_seg": n, "impl": tc, "from": "fitted component", "len": len(T)})
    bad = run.coq_cases("tbnds", IMPORTS, "", terms, "check_tbnds", shard=60)
    if bad is None:
        run.proof_ok = False
        return
    for i in bad[:5]:
        c = kept[i]
        mdl = run.coq_eval(IMPORTS, "", "get_T_bnds F %s %d" % (flist(c["T"]), c["n_seg"])) if "from" not in c else "(fitted component)"
        run.corr_failures.append({"stream": "tbnds", "case": c, "impl": c["impl"], "model": mdl})


# ------------------------------------------------------------------ from_np_arrays directly

def stream_from_np(run, n):
    from opendsm.eemeter.models.daily.parameters import ModelCoefficients
    terms, kept = [], []
    for k in range(n):
        key = KEYS[k % 5]
        m = len(COEF_ID[key])
        x = [float(run.rng.choice([0.0, 1.0, -1.0, run.rng.uniform(-5, 100), run.rng.randrange(-20, 400) / 4.0])) for _ in range(m)]
        nc = ModelCoefficients.from_np_arrays(np.array(x), list(COEF_ID[key]))
        d = {"model_type": nc.model_type.value, "intercept": float(nc.intercept)}
        for f in FIELDS:
            v = getattr(nc, f)
            d[f] = None if v is None else float(v)
        terms.append("(%s, %s, Some %s)" % (COQ_KEY[key], flist(x), coq_named(d)))
        kept.append({"key": key, "x": x, "named": d})
        run.count(vlib.sha(["from_np", key, x]), key != "tidd")
    bad = run.coq_cases("from_np", IMPORTS, "", terms, "check_from_np", shard=400)
    if bad is None:
        run.proof_ok = False
        return
    for i in bad[:5]:
        c = kept[i]
        run.corr_failures.append({"stream": "from_np", "case": {"key": c["key"], "x": c["x"]}, "impl": c["named"],
                                  "model": run.coq_eval(IMPORTS, "", "from_np_arrays F %s %s" % (COQ_KEY[c["key"]], flist(c["x"])))})


# ------------------------------------------------------------------ real fits

def gen_dataset(rng, k):
    kinds = ["both", "inverted", "flat", "heating_only", "heating_no_flat", "cooling_only", "inverted", "weekend", "outliers",
             "cooling_no_flat"]
    kind = kinds[k % len(kinds)]
    family = "billing" if k % 4 == 3 else "daily"
    profile = rng.choice(["current", "current", "legacy"]) if family == "daily" else "billing"
    if k <= -3000:  # one-sided baselines with a soft knee: the selected sub-model is hdd_tidd_smooth / tidd_cdd_smooth
        return {"kind": ["heating_soft_knee", "cooling_soft_knee"][(-k - 3000) % 2], "family": "daily", "profile": "current",
                "seed": rng.randrange(2**31), "ndays": 365, "noise": 0.6, "knee": rng.choice([5.0, 6.0, 8.0])}
    if k <= -2000:  # the billing-settings profile (BillingWeightedModel: one row per billing period, segment_minimum_count 3)
        return {"kind": rng.choice(["both", "heating_only", "cooling_only"]), "family": "billing_weighted", "profile": "billing_settings",
                "seed": rng.randrange(2**31), "ndays": 365, "noise": rng.choice([0.01, 0.03]), "nperiods": rng.choice([11, 12, 12, 13])}
    if k <= -1000:  # baselines whose best split has three components in non-sorted insertion order
        return {"kind": "weekday_season_split", "family": "daily", "profile": "current", "seed": rng.randrange(2**31),
                "ndays": 365, "noise": 0.0}
    if k < 0:      # reused estimator objects: -1 daily/current, -2 daily/legacy, -3 billing, then random
        family, profile = [("daily", "current"), ("daily", "legacy"), ("billing", "billing")][(-k - 1) % 3]
        seq = ["cold_heating", "warm_cooling"] if (-k - 1) < 3 or rng.random() < 0.6 else ["warm_cooling", "cold_heating"]
        return {"kind": "reused_object", "family": family, "profile": profile, "sequence": seq, "seed": rng.randrange(2**31),
                "ndays": rng.choice([340, 365]), "noise": rng.choice([0.02, 0.05])}
    return {"kind": kind, "family": family, "profile": profile, "seed": rng.randrange(2**31), "ndays": rng.choice([330, 350, 365]),
            "noise": rng.choice([0.01, 0.03, 0.08, 0.2])}


CLIMATES = {   # (temperature mean, amplitude), usage model
    "cold_heating": {"t_mean": 38.0, "t_amp": 20.0, "base": 120.0, "bh": 6.0, "bc": 0.0, "bph": 60.0, "bpc": 75.0},
    "warm_cooling": {"t_mean": 76.0, "t_amp": 12.0, "base": 8.0, "bh": 0.0, "bc": 0.9, "bph": 50.0, "bpc": 68.0},
}


def climate_data(rng, family, climate, ndays, noise):
    """a baseline data object in a given climate (daily frame, or monthly bills + hourly temperature)"""
    import fitlib
    import pandas as pd
    c = CLIMATES[climate]
    um = {k: c[k] for k in ("base", "bh", "bc", "bph", "bpc")}
    if family == "daily":
        idx = pd.date_range("2022-01-01", periods=ndays, freq="D", tz="US/Pacific")
        T = fitlib.weather_daily(rng, ndays, t_mean=c["t_mean"], t_amp=c["t_amp"])
        y = fitlib.usage_from_temp(rng, T, noise=noise, **um)
        return fitlib.daily_baseline(pd.DataFrame({"observed": y, "temperature": T}, index=idx))
    starts = [pd.Timestamp("2021-12-15", tz="US/Pacific")]
    for _ in range(12):
        starts.append((starts[-1] + pd.Timedelta(days=rng.randrange(28, 33))).normalize())
    nd = (starts[-1] - starts[0]).days + 2
    didx = pd.date_range(starts[0], periods=nd, freq="D", tz="US/Pacific")
    T = fitlib.weather_daily(rng, nd, t_mean=c["t_mean"], t_amp=c["t_amp"])
    daily = pd.Series(fitlib.usage_from_temp(rng, T, noise=noise, **um), index=didx)
    vals = [daily[(daily.index >= a) & (daily.index < b)].sum() for a, b in zip(starts[:-1], starts[1:])] + [np.nan]
    meter = pd.Series(vals, index=pd.DatetimeIndex(starts), name="observed")
    hidx = pd.date_range(starts[0], periods=nd * 24, freq="h", tz="US/Pacific")
    temp = pd.Series(np.repeat(T, 24)[: len(hidx)], index=hidx, name="temperature")
    return fitlib.billing_baseline(meter, temp)


def component_days(model, data, comp):
    """the days of a component, computed from the DATA OBJECT handed to the last fit() (not from the model's state):
    rows with finite temperature and usage, season by month and weekday/weekend by day of week as the settings say"""
    df = getattr(data, model._data_df_name)
    df = df[np.isfinite(df["temperature"].to_numpy(dtype=float)) & np.isfinite(df["observed"].to_numpy(dtype=float))].sort_index()
    season_of_month = dict(model.settings.season._num_dict)
    daytype_of_dow = dict(model.settings.weekday_weekend._num_dict)
    long = {"su": "summer", "sh": "shoulder", "wi": "winter"}
    seasons = [long[x] for x in comp[3:].split("_")]
    sea = np.array([season_of_month[m] for m in df.index.month])
    keep = np.isin(sea, seasons)
    if comp[:2] != "fw":
        dt = np.array([daytype_of_dow[d + 1] for d in df.index.dayofweek])
        keep &= dt == ("weekday" if comp[:2] == "wd" else "weekend")
    return df[keep]


def build_and_fit(ds):
    """returns (model, data of the LAST fit)"""
    import random
    import fitlib
    from opendsm.eemeter import BillingModel, DailyModel
    rng = random.Random(ds["seed"])
    if ds["kind"] in ("heating_soft_knee", "cooling_soft_knee"):
        import pandas as pd
        r = np.random.default_rng(ds["seed"])
        n = ds["ndays"]
        idx = pd.date_range("2021-01-01", periods=n, freq="D", tz="US/Central")
        T = 55 - 25 * np.cos(2 * np.pi * (np.arange(n) - 15) / 365.0) + r.normal(0, 5, n)
        kn = ds["knee"]
        load = 0.9 * kn * np.logaddexp(0.0, ((60.0 - T) if ds["kind"] == "heating_soft_knee" else (T - 62.0)) / kn)
        y = 15.0 + load + r.normal(0, ds["noise"], n)
        data = fitlib.daily_baseline(pd.DataFrame({"temperature": T, "observed": y}, index=idx))
        model = DailyModel()
        model.fit(data, ignore_disqualification=True)
        return model, data
    if ds["family"] == "billing_weighted":
        import contextlib
        import io
        from opendsm.eemeter.models.billing import BillingWeightedModel
        kw = {"both": {}, "heating_only": {"bc": 0.0}, "cooling_only": {"bh": 0.0}}[ds["kind"]]
        import pandas as pd
        starts = [pd.Timestamp("2021-12-15", tz="US/Pacific")]
        for _ in range(ds["nperiods"]):
            starts.append((starts[-1] + pd.Timedelta(days=rng.randrange(28, 33))).normalize())
        nd = (starts[-1] - starts[0]).days + 2
        didx = pd.date_range(starts[0], periods=nd, freq="D", tz="US/Pacific")
        T = fitlib.weather_daily(rng, nd)
        daily = pd.Series(fitlib.usage_from_temp(rng, T, noise=ds["noise"], **kw), index=didx)
        vals = [daily[(daily.index >= a) & (daily.index < b)].sum() for a, b in zip(starts[:-1], starts[1:])] + [np.nan]
        meter = pd.Series(vals, index=pd.DatetimeIndex(starts), name="observed")
        hidx = pd.date_range(starts[0], periods=nd * 24, freq="h", tz="US/Pacific")
        temp = pd.Series(np.repeat(T, 24)[: len(hidx)], index=hidx, name="temperature")
        data = fitlib.billing_baseline(meter, temp)
        with contextlib.redirect_stdout(io.StringIO()):
            model = BillingWeightedModel()
        model.fit(data, ignore_disqualification=True)
        return model, data
    if ds["kind"] == "weekday_season_split":
        # closed at weekends; weekdays follow a cooling regime June-September and a heating regime otherwise: the selected
        # combination has >= 3 components whose insertion order is not the sorted one (wd-su__wd-sh_wi__we-su_sh_wi)
        import pandas as pd
        r = np.random.default_rng(ds["seed"])
        n = 365
        idx = pd.date_range("2021-01-01", periods=n, freq="D", tz="US/Central")
        doy = idx.dayofyear.values
        T = 55 - 28 * np.cos(2 * np.pi * (doy - 20) / 365) + r.normal(0, 4, n)
        summer = np.isin(idx.month.values, [6, 7, 8, 9])
        y = np.where(summer, 35 + 2.2 * np.clip(T - 68, 0, None), 60 + 1.8 * np.clip(50 - T, 0, None))
        y = np.where(idx.dayofweek.values >= 5, 15.0, y) + r.normal(0, 0.5, n)
        data = fitlib.daily_baseline(pd.DataFrame({"temperature": T, "observed": y}, index=idx))
        model = DailyModel(model="legacy") if ds["profile"] == "legacy" else DailyModel()
        model.fit(data, ignore_disqualification=True)
        return model, data
    if ds["kind"] == "reused_object":
        # one estimator object fitted twice: first in a cold climate (heating), then in a warm one (cooling)
        model = BillingModel() if ds["family"] == "billing" else (DailyModel(model="legacy") if ds["profile"] == "legacy" else DailyModel())
        data = None
        for climate in ds["sequence"]:
            data = climate_data(rng, ds["family"], climate, ds["ndays"], ds["noise"])
            model.fit(data, ignore_disqualification=True)
        return model, data
    kw = {"both": {}, "heating_only": {"bc": 0.0}, "cooling_only": {"bh": 0.0}, "flat": {"bh": 0.0, "bc": 0.0},
          # usage that peaks in mild weather and falls off toward cold and hot days: the initial guess finds neither a
          # heating nor a cooling response (both slopes zero -> identical [0,0] slope bounds)
          "inverted": {"base": 60.0, "bh": -0.6, "bc": -0.5, "bph": 50.0, "bpc": 65.0},
          "heating_no_flat": {"bc": 0.0, "bph": 95.0}, "cooling_no_flat": {"bh": 0.0, "bpc": 5.0},
          "weekend": {"weekend": 0.6}, "outliers": {}}[ds["kind"]]
    if ds["family"] == "daily":
        df = fitlib.daily_frame(rng, ndays=ds["ndays"], noise=ds["noise"], **kw)
        if ds["kind"] == "outliers":
            idx = rng.sample(range(len(df)), 8)
            df.iloc[idx, df.columns.get_loc("observed")] *= rng.choice([3.0, 0.2])
        data = fitlib.daily_baseline(df)
        model = DailyModel(model="legacy") if ds["profile"] == "legacy" else DailyModel()
    else:
        meter, temp = fitlib.billing_series(rng, noise=ds["noise"])
        data = fitlib.billing_baseline(meter, temp)
        model = BillingModel()
    model.fit(data, ignore_disqualification=True)
    return model, data


OVERRIDDEN_BY_FIT = {"developer_mode", "silent_developer_mode", "alpha_final_type", "final_bounds_scalar", "regularization_alpha"}


def stream_fits(run, n, n_reused=0, n_split=0, n_weighted=0, n_knee=0):
    acc = {"refine": [], "curves": [], "meta": []}
    for k in (list(range(n)) + [-(j + 1) for j in range(n_reused)] + [-(1000 + j) for j in range(n_split)] +
              [-(2000 + j) for j in range(n_weighted)] + [-(3000 + j) for j in range(n_knee)]):
        ds = gen_dataset(run.rng, k)
        try:
            model, data = build_and_fit(ds)
        except Exception as e:  # noqa
            run.violation({"stream": "fits", "clause": "fit completes", "raised": type(e).__name__, "family": ds["family"]},
                          "C12: fit raised %s: %s" % (type(e).__name__, e), case={"dataset": ds}, generator="c12.fits")
            continue
        run.dist("fit_dataset", "%s/%s/%s" % (ds["family"], ds["profile"], ds["kind"]))
        keys = list(model.model.keys())
        run.dist("selected_split", "%d component(s), %s" % (len(keys), "insertion order = sorted order" if keys == sorted(keys)
                                                             else "insertion order differs from sorted order"))
        comps = [("fit_components", c, r) for c, r in model.fit_components.items()] + \
                [("model", c, r) for c, r in model.model.items()]
        limits_of = {}
        for where, comp, res in comps:
            raw = [float(v) for v in res._verif_x_raw]
            bnds = np.asarray(res._verif_bnds, dtype=float)
            key = KEY_OF_ID[tuple(res._verif_coef_id)]
            label = "%s %s[%s]" % (ds["family"], where, comp)
            sig = {"stream": "fits", "key": key, "where": where}
            inside = bool(np.all((bnds[:, 0] <= raw) & (np.asarray(raw) <= bnds[:, 1])))
            run.dist("raw_in_box", inside)
            if not inside:
                run.violation(dict(sig, clause="oracle contract: raw in box"),
                              "C12 %s: the optimiser returned a point outside the box it was given" % label,
                              case={"dataset": ds, "component": comp, "raw": raw, "bnds": bnds.tolist()}, generator="c12.fits")
            # the days of this component according to the data object of the LAST fit
            days = component_days(model, data, comp)
            seg = days["temperature"].to_numpy(dtype=float)
            q = [float(v) for v in np.quantile(days["observed"].to_numpy(dtype=float), [0.01, 0.99])]
            info = {"pinned": None, "initial_box": where == "fit_components", "dataset": ds, "component": comp}
            if key == "c_hdd_tidd" and bnds[0, 0] == bnds[0, 1]:
                info["pinned"] = "T_max" if raw[0] >= float(res.T_max) else "T_min"
            obs, tc = process_component(run, acc, key, raw, res.T, info, res, "fits", label, model_vals=res.model, q=q)
            run.count(vlib.sha([ds, where, comp]), key != "tidd")
            # recorded limits are those of the days the component was fitted on
            # the segment count the model DECLARES (model.settings == to_dict()['settings']), not the component's copy
            n_seg = model.settings.segment_minimum_count
            declared, effective = model.settings.model_dump(), res.settings.model_dump()
            lost = sorted(f for f in declared if f not in OVERRIDDEN_BY_FIT and effective.get(f) != declared[f])
            if lost:
                run.violation(dict(sig, clause="component fitted under the declared settings", fields=",".join(lost),
                                   **{"class": "admissibility"}),
                              "C12 %s: the settings the component was fitted with differ from the model's declared settings in %s"
                              % (label, lost), case={"dataset": ds, "component": comp},
                              observation={f: [str(declared[f]), str(effective.get(f))] for f in lost}, generator="c12.fits")
            if not (tc[0] <= tc[2] <= tc[3] <= tc[1]):
                run.violation(dict(sig, clause="recorded temperature limits are ordered", **{"class": "admissibility"}),
                              "C12 %s: recorded limits are not T_min <= T_min_seg <= T_max_seg <= T_max" % label,
                              case={"dataset": ds, "component": comp}, observation={"recorded": tc}, generator="c12.fits")
            want = [float(np.min(seg)), float(np.max(seg)), float(np.partition(seg, n_seg)[n_seg]),
                    float(np.partition(seg, -n_seg)[-n_seg])]
            if want != tc:
                run.violation(dict(sig, clause="temperature limits are those of the fitted days", **{"class": "admissibility"}),
                              "C12 %s: recorded temperature limits differ from the days it was fitted on" % label,
                              case={"dataset": ds, "component": comp}, observation={"recorded": tc, "days": want},
                              generator="c12.fits")
                # the admissibility list against the real days (the component's own statistics were used above)
                for clause in admissibility(obs[2], want, q, float(res.f_unc)):
                    run.violation(dict(sig, clause=clause, cause="recorded limits are not those of the fitted days",
                                       **{"class": "admissibility"}),
                                  "C12 %s: stored sub-model breaks '%s' on the days of the baseline it was fitted on" % (label, clause),
                                  case={"dataset": ds, "component": comp}, observation={"named": obs[2], "days": want, "usage_q": q},
                                  generator="c12.fits")
            limits_of[comp] = (want, q)
            if len(TBNDS_FROM_FITS) < 12:
                TBNDS_FROM_FITS.append(([float(t) for t in np.asarray(res.T, float)], int(res.settings.segment_minimum_count), tc))
            if where == "model" and comp in model.params.submodels:
                # the public prediction path on the component's baseline temperatures reproduces its fitted values
                pub = np.asarray(model._predict_submodel(model.params.submodels[comp], np.asarray(res.T, float))[0], float)
                mism3, d3 = curve_mismatch(res.model, pub)
                if mism3:
                    cause3 = classify_cause(key, raw, tc, info)
                    run.violation(dict(sig, clause="predict() reproduces the fitted values", cause=cause3, **{"class": "readback"}),
                                  "C12 %s [%s]: predict on the baseline temperatures differs from the fitted values the optimiser "
                                  "scored (max |diff| %.3g): the stored model is not the model that was fitted"
                                  % (label, obs[2]["model_type"], d3), case={"dataset": ds, "component": comp},
                                  observation={"named": obs[2], "max_abs_diff": d3}, generator="c12.fits")
                run.dist("final_model_type", obs[2]["model_type"])
        # the stored document is what the final components say
        doc = model.to_dict()["submodels"]
        for comp, res in model.model.items():
            sub = doc.get(comp)
            _, _, named = observe(res)
            got = None
            if sub is not None:
                c = sub["coefficients"]
                got = {"model_type": getattr(c["model_type"], "value", c["model_type"]), "intercept": float(c["intercept"])}
                for f in FIELDS:
                    got[f] = None if c[f] is None else float(c[f])
            tcd = None if sub is None else [float(sub["temperature_constraints"][z]) for z in ("T_min", "T_max", "T_min_seg", "T_max_seg")]
            tcw = [float(res.T_min), float(res.T_max), float(res.T_min_seg), float(res.T_max_seg)]
            if got != named or tcd != tcw or not (math.isfinite(sub["f_unc"]) and sub["f_unc"] >= 0):
                run.violation({"stream": "fits", "clause": "to_dict() is the final component"},
                              "C12 %s: to_dict()['submodels'][%s] differs from the final component" % (ds["family"], comp),
                              case={"dataset": ds, "component": comp}, observation={"doc": got, "named": named, "tc": tcd},
                              generator="c12.fits")
            want_d, q_d = limits_of.get(comp, (tcd, None))
            if got and tcd != want_d:
                run.violation({"stream": "fits", "clause": "temperature limits are those of the fitted days", "where": "to_dict",
                               "class": "admissibility"},
                              "C12 %s to_dict()[%s]: recorded temperature limits are not those of the days of the fitted baseline"
                              % (ds["family"], comp), case={"dataset": ds, "component": comp},
                              observation={"recorded": tcd, "days": want_d}, generator="c12.fits")
            for clause in admissibility(got, want_d, q_d, float(sub["f_unc"])) if got else ["sub-model present"]:
                run.violation({"stream": "fits", "clause": clause, "where": "to_dict", "key": "stored", "cause": "none"},
                              "C12 %s to_dict()[%s]: stored sub-model breaks '%s'" % (ds["family"], comp, clause),
                              case={"dataset": ds, "component": comp}, observation={"doc": got, "tc": tcd},
                              generator="c12.fits")
        run.log("fit %s (%s %s) done: %d components, selected %s" % (
            ("%d/%d" % (k + 1, n)) if k >= 0 else ("extra#%d" % -k), ds["family"], ds["kind"], len(comps), "__".join(keys)))
    flush(run, acc, "fits")


# ------------------------------------------------------------------ _create_params_from_fit_model without fitting

SPLITS = [["wd-su", "wd-sh_wi", "we-su_sh_wi"], ["we-su_sh_wi", "wd-su_sh_wi"], ["fw-wi", "fw-su", "fw-sh"],
          ["wd-su_sh", "wd-wi", "we-su", "we-sh_wi"], ["we-wi", "we-su_sh", "wd-su_sh_wi"], ["fw-su_sh_wi"],
          ["fw-su_wi", "fw-sh"], ["wd-su", "wd-sh", "wd-wi", "we-su", "we-sh", "we-wi"]]


def stream_params_order(run, n):
    """model.model set by hand from synthetic OptimizedResult objects in every insertion order (sorted, reversed, shuffled);
    to_dict()['submodels'][key] must be the refine of the component stored under THAT key"""
    from opendsm.eemeter import BillingModel, DailyModel
    n_seg = settings().segment_minimum_count
    acc = {"refine": [], "curves": [], "meta": []}
    for k in range(n):
        keys = list(SPLITS[k % len(SPLITS)])
        how = k % 3
        if how == 1:
            keys = sorted(keys, reverse=True)
        elif how == 2:
            run.rng.shuffle(keys)
        cls = BillingModel if k % 4 == 3 else DailyModel
        model = cls()
        comps = {}
        for j, key in enumerate(keys):
            ckey = run.rng.choice(KEYS[:4])
            T, tc = make_T(run.rng, n_seg)
            raw, info = gen_raw(run.rng, ckey, tc, False)
            info["initial_box"] = False
            res = build_result(ckey, raw, T, rng_seed=1000 * k + j)
            comps[key] = (ckey, raw, T, info, res)
        model.model = {key: comps[key][4] for key in keys}
        model.baseline_timezone = "UTC"
        model.disqualification, model.warnings = [], []
        model.error = {"wRMSE": 1.0, "RMSE": 1.0, "MAE": 1.0, "CVRMSE": 0.1, "PNRMSE": 0.1}
        model.params = model._create_params_from_fit_model()
        model.is_fitted = True
        doc = model.to_dict()["submodels"]
        run.dist("params_order", "insertion order = sorted order" if keys == sorted(keys) else "insertion order differs from sorted order")
        run.count(vlib.sha(["params_order", keys, [comps[x][1] for x in keys]]), len(keys) > 1)
        if sorted(doc.keys()) != sorted(keys):
            run.violation({"stream": "params_order", "clause": "one stored sub-model per fitted component", "class": "admissibility"},
                          "C12: to_dict()['submodels'] has other keys than the fitted components", case={"keys": keys},
                          observation={"doc_keys": list(doc.keys())}, generator="c12.params_order")
            continue
        for key in keys:
            ckey, raw, T, info, res = comps[key]
            obs, tc = process_component(run, acc, ckey, raw, T, info, res, "params_order", "hand-built %s[%s]" % (cls.__name__, key),
                                        q=info["q"])
            sub = doc[key]
            c = sub["coefficients"]
            got = {"model_type": getattr(c["model_type"], "value", c["model_type"]), "intercept": float(c["intercept"])}
            for f in FIELDS:
                got[f] = None if c[f] is None else float(c[f])
            tcd = [float(sub["temperature_constraints"][z]) for z in ("T_min", "T_max", "T_min_seg", "T_max_seg")]
            if got != obs[2] or tcd != tc or float(sub["f_unc"]) != float(res.f_unc):
                run.violation({"stream": "params_order", "clause": "to_dict()[key] is the component fitted for that key",
                               "class": "admissibility"},
                              "C12 %s: to_dict()['submodels'][%s] is not the refine of the component stored under that key "
                              "(insertion order %s)" % (cls.__name__, key, "__".join(keys)),
                              case={"keys": keys, "key": key, "component_layout": ckey, "raw": raw, "tc": tc},
                              observation={"doc": got, "doc_tc": tcd, "component": obs[2], "component_tc": tc},
                              generator="c12.params_order")
    flush(run, acc, "params_order")


# ------------------------------------------------------------------ main

def main():
    run = Run("C12")
    run.cov["rule"] = (
        "refine: raw vectors drawn from the boxes the fit functions build (balance points on the faces of [T_min_seg,T_max_seg] "
        "or, for the initial-fit box, [T_min,T_max]; zero slopes; percent-k in {0,<0.01,0.25,0.5,1,uniform}; crossed and equal "
        "balance points; pinned one-sided balance points; intercept on the quantile bounds) for the 5 coefficient layouts, pushed "
        "through the real OptimizedResult constructor on a component with chosen temperature statistics; distinct = hash(layout, "
        "raw, statistics), non-trivial = layout other than tidd. fits: DailyModel/BillingModel.fit on generated baselines "
        "(both / heating-only / cooling-only / flat / inverted = peaking in mild weather / no-flat-region / weekend / outliers; 330-365 days; noise 1-20 %; current, "
        "legacy and billing profiles), plus REUSED estimator objects (one DailyModel/BillingModel fitted in a cold heating climate and "
        "then in a warm cooling climate; oracle against the data object of the last fit) and baselines whose selected split has three "
        "components in non-sorted insertion order (closed at weekends, weekday cooling regime Jun-Sep / heating otherwise) and the "
        "billing-settings profile (BillingWeightedModel on 11-13 billing periods; limits judged with the DECLARED segment_minimum_count, "
        "component settings compared with the declared ones) and one-sided soft-knee baselines (selected sub-model hdd_tidd_smooth / "
        "tidd_cdd_smooth; the public _predict_submodel on the baseline temperatures must reproduce the fitted values); every OptimizedResult of fit_components and "
        "model is one evaluation; the days of a component are recomputed from the data object, not read from the model. bounds: start boxes and "
        "get_bnds(x0) rows with every degenerate pattern (zero slopes -> [0,0], identical non-zero, [0,2x0], [2x0,0], reversed, "
        "negative, equal balance-point limits, identical quantiles, new_bnds=None) through the three *_update_bnds functions as "
        "the fit functions call them; fix_identical_bnds row by row (0, powers of ten, negatives). params_order: model.model set by hand "
        "from synthetic components in sorted / reversed / shuffled insertion order, _create_params_from_fit_model + to_dict(). "
        "tbnds: get_T_bnds on synthetic temperature arrays (ties, 1-90 values, segment count 0..len+1) and on the temperatures "
        "of up to 12 fitted components vs the model's order statistics")
    run.assumptions += [
        "PARTIAL: the optimiser is an oracle with the contract 'returns a point of the box it was given' (Section hypothesis of "
        "the theorems); the contract is checked on every sampled fit only",
        "finiteness of the coefficients and the uncertainty f_unc are checked by the oracle on samples, not modelled",
        "theorems over the reals; the code computes in binary64 (same model text executed in binary64 for the correspondence)",
        "fix_identical_bnds is modelled as coded (10 ** floor(log10|v|) found by a decade search; tied by its own stream)",
        "correspondence is sampled",
    ]
    run.cov["trusted_base"] += ["harness/c12.py (generators, adapters, oracle)", "harness/fitlib.py (dataset builders)",
                                "oracle contract: NLopt returns a point inside its bounds (checked on sampled fits)"]
    run.check_proofs("Properties/C12.v", ["Proofs/RefineProofs.v"])
    run.ensure_models(["Model/RefineRun.v", "Model/CasesLib.v"])
    if run.replay:
        rep = json.load(open(run.replay))
        case = rep["case"]
        if "raw" in case and "key" in case and "tc" in case:
            acc = {"refine": [], "curves": [], "meta": []}
            tc = case["tc"]
            n_seg = settings().segment_minimum_count
            T = np.concatenate([np.linspace(tc[0], tc[2], n_seg + 1), np.linspace(tc[2], tc[3], 26)[1:-1],
                                np.linspace(tc[3], tc[1], n_seg)])
            res = build_result(case["key"], case["raw"], T)
            process_component(run, acc, case["key"], case["raw"], T, case.get("info") or {"pinned": None}, res, "replay", "replay")
            flush(run, acc, "replay")
        elif "dataset" in case:
            run.rng.seed(0)
            ds = case["dataset"]
            global gen_dataset
            gen_dataset = lambda rng, k: ds  # noqa
            stream_fits(run, 1)
        run.finish()
    if os.environ.get("C12_ONLYFITS") != "1":
        stream_witness(run)
        stream_refine(run, run.n(1500, 60000))
        stream_bounds(run, run.n(400, 20000))
        stream_from_np(run, run.n(400, 10000))
        stream_params_order(run, run.n(24, 600))
    if os.environ.get("C12_NOFITS") != "1":
        stream_fits(run, run.n(10, 200), n_reused=run.n(3, 30), n_split=run.n(1, 12), n_weighted=run.n(2, 20), n_knee=run.n(2, 20))
    if os.environ.get("C12_ONLYFITS") != "1" or TBNDS_FROM_FITS:
        stream_tbnds(run, run.n(200, 20000))
    run.finish()


if __name__ == "__main__":
    vlib.run_main(main, "C12")
