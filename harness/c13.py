"""C13 — each day is predicted by exactly one sub-model: that of its season and day type.
Model: coq/Model/Splits.v (+SplitsRun.v); theorems: coq/Properties/C13.v; generated: coq/Generated/SplitsGen.v
(harness/translate_splits.py); tie: translator + correspondence (this file)."""
import datetime
import itertools
import json
import math
import os
import warnings
from concurrent.futures import ProcessPoolExecutor
from fractions import Fraction

import numpy as np
import pandas as pd

import vlib
from vlib import Run, zlit, coq_list, coq_bool, coq_string, coq_opt
import translate_splits
import translate_select

warnings.simplefilter("ignore")
IMPORTS = "From Coq Require Import QArith PrimFloat.\nFrom V Require Import Model.Splits Model.SplitsCal Model.SplitsRun Model.SelCrit Model.SelCritF."

MONTHS = ["january", "february", "march", "april", "may", "june", "july", "august", "september", "october",
          "november", "december"]
DAYS = ["monday", "tuesday", "wednesday", "thursday", "friday", "saturday", "sunday"]
SEASON_OF_KEY = {"su": "summer", "sh": "shoulder", "wi": "winter"}     # the statement's naming of the cells
class _AnyDay(tuple):
    """the day classes of a full-week component: weekday, weekend, and any other name a weekday map may use"""
    def __contains__(self, name):
        return True


FULL_WEEK = _AnyDay(("weekday", "weekend"))
DAYCLASS_OF_KEY = {"wd": ("weekday",), "we": ("weekend",), "fw": FULL_WEEK}
UNSPLIT = "fw-su_sh_wi"
DEFAULT_SEASON = ["winter", "winter", "shoulder", "shoulder", "shoulder", "summer", "summer", "summer", "summer",
                  "shoulder", "winter", "winter"]
DEFAULT_WEEK = ["weekday"] * 5 + ["weekend"] * 2


# ------------------------------------------------------------------ maps

def map_variants():
    """(name, 12 season names, 7 day names); the first six use the hard-wired names only"""
    v = [
        ("default", DEFAULT_SEASON, DEFAULT_WEEK),
        ("southern", ["summer", "summer", "shoulder", "shoulder", "winter", "winter", "winter", "winter", "shoulder",
                      "shoulder", "summer", "summer"], ["weekday"] * 4 + ["weekend"] * 3),
        ("no-summer", ["winter"] * 3 + ["shoulder"] * 6 + ["winter"] * 3, ["weekend", "weekday", "weekday", "weekday",
                                                                             "weekday", "weekday", "weekend"]),
        ("all-winter", ["winter"] * 12, ["weekday"] * 7),
        ("alternating", ["summer", "shoulder", "winter"] * 4, ["weekend", "weekday"] * 3 + ["weekend"]),
        ("all-weekend", ["shoulder"] * 2 + ["summer"] * 8 + ["shoulder"] * 2, ["weekend"] * 7),
        # names outside the hard-wired ones: accepted by the settings (options is an open field)
        ("foreign-season", DEFAULT_SEASON[:6] + ["monsoon"] + DEFAULT_SEASON[7:], DEFAULT_WEEK),
        ("foreign-day", DEFAULT_SEASON, ["weekday"] * 4 + ["holiday"] + ["weekend"] * 2),
    ]
    return v


def settings_for(season, week, flags=None, gaussian=False, extra=None):
    st = {"developer_mode": True, "silent_developer_mode": True}
    sopts = ["summer", "shoulder", "winter"] + sorted(set(season) - {"summer", "shoulder", "winter"})
    wopts = ["weekday", "weekend"] + sorted(set(week) - {"weekday", "weekend"})
    st["season"] = dict(zip(MONTHS, season), options=sopts)
    st["weekday_weekend"] = dict(zip(DAYS, week), options=wopts)
    ss = {"reduce_splits_by_gaussian": bool(gaussian)}
    if flags is not None:
        ss.update({"allow_separate_summer": flags[0], "allow_separate_shoulder": flags[1],
                   "allow_separate_winter": flags[2], "allow_separate_weekday_weekend": flags[3]})
    st["split_selection"] = ss
    if extra:
        st.update(extra)
    return st


def coq_smap(season):
    return coq_list([translate_splits.SEASON_NAMES.get(x, "OtherSeason") for x in season])


def coq_wmap(week):
    return coq_list([translate_splits.DAY_NAMES.get(x, "OtherDay") for x in week])


def coq_flags(f):
    return "{| a_su := %s; a_sh := %s; a_wi := %s; a_wdwe := %s |}" % tuple(coq_bool(b) for b in f)


def histogram(dates):
    """dates: iterable of datetime.date -> sorted [(month, isoweekday, n)] (CPython calendar, not pandas)"""
    h = {}
    for d in dates:
        k = (d.month, d.isoweekday())
        h[k] = h.get(k, 0) + 1
    return sorted((m, w, n) for (m, w), n in h.items())


def coq_hist(h):
    return coq_list(["(%s, %s, %s)" % (zlit(m), zlit(w), zlit(n)) for m, w, n in h])


# ------------------------------------------------------------------ literal reading of a split text (oracle side)

def read_split(text):
    """the statement's reading of 'wd-su__we-su__fw-sh_wi': list of (text, day classes, season names) or None"""
    out = []
    for comp in text.split("__"):
        if len(comp) < 5 or comp[2] != "-" or comp[:2] not in DAYCLASS_OF_KEY:
            return None
        seasons = comp[3:].split("_")
        if not seasons or any(s not in SEASON_OF_KEY for s in seasons):
            return None
        out.append((comp, DAYCLASS_OF_KEY[comp[:2]], [SEASON_OF_KEY[s] for s in seasons]))
    return out


def day_cause(sname, dname):
    return ("season name outside summer/shoulder/winter" if sname not in SEASON_OF_KEY.values()
            else "day name outside weekday/weekend" if dname not in ("weekday", "weekend") else "standard names")


def maps_cause(season, week):
    return ("season name outside summer/shoulder/winter" if any(s not in SEASON_OF_KEY.values() for s in season)
            else "day name outside weekday/weekend" if any(d not in ("weekday", "weekend") for d in week) else "standard names")


def build_model(run, DailyModel, settings, season, week, stream):
    """DailyModel(settings) ; maps with names outside the hard-wired ones may be refused at construction (that is the
    repair proposed for C13-F1/F2): such a configuration then has no days to route -> None.  A refusal of maps that use
    the standard names only is not expected: it propagates (harness alarm)."""
    try:
        return DailyModel(settings=settings)
    except Exception as e:  # noqa
        if maps_cause(season, week) == "standard names":
            raise
        run.count((stream, "maps refused at construction", tuple(season), tuple(week)), nontrivial=False)
        run.dist("maps with foreign names", "refused at construction (%s)" % type(e).__name__)
        return None


CELLS = [(s, d) for s in ("summer", "shoulder", "winter") for d in ("weekday", "weekend")]


def cover_failures(text):
    """cells that are not in exactly one component; None if the text is not a split at all"""
    comps = read_split(text)
    if comps is None:
        return None
    bad = []
    for s, d in CELLS:
        n = sum(1 for _, days, seasons in comps if s in seasons and d in days)
        if n != 1:
            bad.append({"cell": [s, d], "components_containing_it": n})
    return bad


# ------------------------------------------------------------------ stream A: _combinations() vs trim

def date_scenarios(rng, quick):
    D = datetime.date
    def rng_days(a, b):
        return [D.fromordinal(o) for o in range(a.toordinal(), b.toordinal() + 1)]
    two_years = rng_days(D(2023, 1, 1), D(2024, 12, 31))
    one_year = rng_days(D(2022, 3, 1), D(2023, 2, 28))
    sc = [("two-years", two_years), ("one-year", one_year),
          ("no-jun-sep", [d for d in one_year if d.month not in (6, 7, 8, 9)]),
          ("40-days", rng_days(D(2023, 6, 20), D(2023, 7, 29))),
          ("few-weekends", [d for d in one_year if d.isoweekday() < 6 or d.day <= 5]),
          ("weekends-only", [d for d in two_years if d.isoweekday() >= 6]),
          ("empty-ish", rng_days(D(2023, 1, 1), D(2023, 1, 3)))]
    # boundaries of the two thresholds under the default maps: exactly 29 / 30 summer days, 7 / 8 summer weekend days
    rest = [d for d in one_year if d.month not in (6, 7, 8, 9)]
    summer = [d for d in one_year if d.month in (6, 7, 8, 9)]
    sc.append(("summer-29", rest + summer[:29]))
    sc.append(("summer-30", rest + summer[:30]))
    swe = [d for d in summer if d.isoweekday() >= 6]
    swd = [d for d in summer if d.isoweekday() < 6]
    sc.append(("summer-we-7", rest + swd + swe[:7]))
    sc.append(("summer-we-8", rest + swd + swe[:8]))
    n_rand = 3 if quick else 20
    for k in range(n_rand):
        p = rng.choice([0.15, 0.3, 0.6])
        sc.append(("random-%d" % k, [d for d in two_years if rng.random() < p]))
    return sc


def frame_for(dates, tz="UTC", rng=None):
    idx = pd.DatetimeIndex([pd.Timestamp(d.year, d.month, d.day) for d in dates]).tz_localize(tz)
    n = len(idx)
    if rng is None:
        return pd.DataFrame({"temperature": np.full(n, 50.0), "observed": np.full(n, 1.0)}, index=idx)
    T = np.array([55 + 20 * math.sin((d.timetuple().tm_yday - 110) / 365 * 2 * math.pi) + rng.gauss(0, 5) for d in dates])
    y = np.array([20 + 1.1 * max(55 - t, 0) + 1.4 * max(t - 68, 0) + (rng.choice([0, 12]) if d.isoweekday() >= 6 else 0)
                  + rng.gauss(0, 2) for d, t in zip(dates, T)])
    return pd.DataFrame({"temperature": T, "observed": y}, index=idx)


def trim_oracle(run, out, flags_eff, season, week, dates, all_splits, case):
    """the statement, literally, on what _combinations() returned"""
    fails = []
    if UNSPLIT not in out:
        fails.append(({"call": "_combinations", "broken": "unsplit model not a candidate"},
                      "the unsplit model fw-su_sh_wi is not among the candidates"))
    n_season = {s: sum(1 for d in dates if season[d.month - 1] == s) for s in ("summer", "shoulder", "winter")}
    we_season = {s: sum(1 for d in dates if season[d.month - 1] == s and week[d.isoweekday() - 1] == "weekend")
                 for s in ("summer", "shoulder", "winter")}
    allow = dict(zip(("summer", "shoulder", "winter"), flags_eff[:3]))
    for text in out:
        bad = cover_failures(text)
        if bad is None or bad:
            fails.append(({"call": "_combinations", "broken": "candidate is not a partition"},
                          "candidate %r does not partition the (season, day type) cells: %s" % (text, bad)))
            continue
        if text == UNSPLIT:
            continue
        comps = read_split(text)
        if not flags_eff[3] and any(days is not FULL_WEEK for _, days, _ in comps):
            fails.append(({"call": "_combinations", "broken": "forbidden split offered", "rule": "weekday/weekend"},
                          "%r separates weekdays from weekends although the settings forbid it" % text))
        for comp, days, seasons in comps:
            if len(seasons) == 1 and not allow[seasons[0]]:
                fails.append(({"call": "_combinations", "broken": "forbidden split offered", "rule": "season"},
                              "%r models %s separately although the settings forbid it" % (text, seasons[0])))
            if len(seasons) == 1 and n_season[seasons[0]] < 30:
                fails.append(({"call": "_combinations", "broken": "unsupported split offered", "rule": "season days"},
                              "%r models %s separately with only %d days" % (text, seasons[0], n_season[seasons[0]])))
            if sum(we_season[s] for s in seasons) < 30 / 3.75:
                fails.append(({"call": "_combinations", "broken": "unsupported split offered", "rule": "weekend days"},
                              "%r: component %s has fewer than 8 weekend days" % (text, comp)))
    for sig, msg in fails:
        run.violation(sig, "C13 _combinations: " + msg, case=case, observation={"combinations": out}, generator="c13.trim")
    return not fails


def stream_rng(run, name):
    import random
    return random.Random("%d/%s" % (run.seed, name))


def stream_trim(run, info, DailyModel, ellipsoid_split_filter, only=None):
    """only: the `case` of a replay file -> just that case is re-run (every sub-stream has its own PRNG)"""
    terms, meta, prelude_defs = [], [], []
    scen = date_scenarios(stream_rng(run, "dates"), run.quick())
    maps = map_variants()
    allflags = list(itertools.product([True, False], repeat=4))
    rng_f = stream_rng(run, "trim-flags")
    used = set()
    model_cache = {}
    for (mname, season, week) in maps:
        for sname, dates in scen:
            if (not run.quick() or (mname == "default" and not sname.startswith("random"))
                    or (mname in ("southern", "no-summer") and sname in ("two-years", "few-weekends"))
                    or sname == "summer-we-7"):
                flagsets = allflags
            else:
                flagsets = [allflags[0], allflags[rng_f.randrange(16)], allflags[rng_f.randrange(16)]]
            if only is not None:
                if only.get("maps") != mname or only.get("dates") != sname:
                    continue
                flagsets = [tuple(only["flags"])]
            proto = build_model(run, DailyModel, settings_for(season, week), season, week, "trim")
            if proto is None:
                continue
            df_meter, _ = proto._initialize_data(frame_for(dates))
            hname = "h_%s_%s" % (mname.replace("-", "_"), sname.replace("-", "_"))
            for flags in flagsets:
                # one model per (maps, flags); _combinations() reads the settings and df_meter only
                m = model_cache.get((mname, flags))
                if m is None:
                    m = model_cache[(mname, flags)] = DailyModel(settings=settings_for(season, week, flags))
                m.df_meter = df_meter
                case = {"maps": mname, "season": season, "week": week, "dates": sname, "n_dates": len(dates),
                        "flags": list(flags), "gaussian": None}
                try:
                    out = list(m._combinations())
                except Exception as e:  # noqa
                    run.violation({"call": "_combinations", "broken": "raised", "raised": type(e).__name__},
                                  "C13 _combinations raised %s: %s" % (type(e).__name__, e), case=case, generator="c13.trim")
                    continue
                run.count(("trim", mname, sname, flags), nontrivial=len(dates) > 3)
                run.dist("trim: candidates returned", len(out))
                trim_oracle(run, out, flags, season, week, dates, info["all_splits"], case)
                if hname not in used:
                    used.add(hname)
                    prelude_defs.append("Definition %s : hist := %s." % (hname, coq_hist(histogram(dates))))
                terms.append("(%s, None, %s, %s, %s, %s)" % (coq_flags(flags), coq_smap(season), coq_wmap(week), hname,
                                                             coq_list([coq_string(s) for s in out])))
                meta.append(case)
                if len(out) not in (1, 48):
                    run.sample({"stream": "trim", "maps": mname, "dates": sname, "flags": list(flags), "n_candidates": len(out),
                                "first": out[:4]})
    # Gaussian reduction on: the outcome of the ellipsoid filter is an oracle input of the model
    n_g = run.n(12, 300)
    for k in range(n_g):
        if only is not None and only.get("dates") != "gaussian-%d" % k:
            continue
        rng = stream_rng(run, "trim-gauss-%d" % k)
        mname, season, week = maps[k % 3]
        dates = scen[1][1] if k % 2 == 0 else [d for d in scen[0][1] if rng.random() < 0.5]
        flags = allflags[rng.randrange(16)] if k % 4 else allflags[0]
        m = DailyModel(settings=settings_for(season, week, flags, gaussian=True))
        m.df_meter, _ = m._initialize_data(frame_for(dates, rng=rng))
        g = ellipsoid_split_filter(m.df_meter, n_std=m.settings.split_selection.reduce_splits_num_std)
        gf = (bool(g["summer"]), bool(g["shoulder"]), bool(g["winter"]), bool(g["weekday_weekend"]))
        case = {"maps": mname, "season": season, "week": week, "dates": "gaussian-%d" % k, "n_dates": len(dates),
                "flags": list(flags), "gaussian": list(gf)}
        try:
            out = list(m._combinations())
        except Exception as e:  # noqa
            run.violation({"call": "_combinations", "broken": "raised", "raised": type(e).__name__},
                          "C13 _combinations raised %s: %s" % (type(e).__name__, e), case=case, generator="c13.trim")
            continue
        run.count(("trim-gauss", k, flags, gf), nontrivial=True)
        run.dist("trim: ellipsoid filter outcome", gf)
        eff = tuple(a and b for a, b in zip(flags, gf))
        trim_oracle(run, out, eff, season, week, dates, info["all_splits"], case)
        terms.append("(%s, Some %s, %s, %s, %s, %s)" % (coq_flags(flags), coq_flags(gf), coq_smap(season), coq_wmap(week),
                                                        coq_hist(histogram(dates)), coq_list([coq_string(s) for s in out])))
        meta.append(case)
    return terms, meta, "\n".join(prelude_defs)


# ------------------------------------------------------------------ stream B: predict routing vs routes

def synthetic_doc(keys, settings, tz):
    subs = {}
    for i, c in enumerate(keys):
        subs[c] = {"coefficients": {"model_type": "tidd", "intercept": 100.0 + i, "hdd_bp": None, "hdd_beta": None,
                                    "hdd_k": None, "cdd_bp": None, "cdd_beta": None, "cdd_k": None},
                   "temperature_constraints": {"T_min": 0.0, "T_max": 100.0, "T_min_seg": 10.0, "T_max_seg": 90.0},
                   "f_unc": 1.0}
    return {"submodels": subs, "settings": settings,
            "info": {"error": {"wRMSE": 1.0, "RMSE": 1.0, "MAE": 1.0, "CVRMSE": 0.1, "PNRMSE": 0.1},
                     "baseline_timezone": tz, "disqualification": [], "warnings": []}}


ROUTE_ZONES = ["America/New_York", "Europe/Berlin", "Asia/Tokyo", "Europe/London", "Australia/Sydney", "UTC", "Asia/Kolkata",
               "Pacific/Auckland"]          # negative, zero and POSITIVE offsets at local midnight (whole and half hours, both hemispheres)


def local_date(ns_utc, zone):
    """the local calendar date of an instant, from zoneinfo (CPython), not from pandas' tz handling"""
    import zoneinfo
    return datetime.datetime.fromtimestamp(int(ns_utc) // 10 ** 9, zoneinfo.ZoneInfo(zone)).date()


def local_midnight_index(dates, zone):
    """tz-aware daily index at local midnight; the instants are cross-checked against zoneinfo"""
    import zoneinfo
    idx = pd.DatetimeIndex([pd.Timestamp(d.year, d.month, d.day) for d in dates]).tz_localize(zone)
    z = zoneinfo.ZoneInfo(zone)
    want = [int(datetime.datetime(d.year, d.month, d.day, tzinfo=z).timestamp()) for d in dates]
    got = [int(v) // 10 ** 9 for v in idx.as_unit("ns").asi8]
    if want != got:
        raise RuntimeError("harness: pandas and zoneinfo disagree on local midnight in %s" % zone)
    return idx


def observe_routing(model, data, zone):
    """per LOCAL date (zoneinfo): (model_split, predicted, model_type) of the rows the prediction returned for it"""
    out = model.predict(data)
    per = {}
    for ns, ms, pred, mt in zip(out.index.as_unit("ns").asi8, out["model_split"].values, out["predicted"].values, out["model_type"].values):
        d = local_date(ns, zone)
        ms = None if (ms is None or ms != ms) else str(ms)
        pred = None if pred != pred else float(pred)
        mt = None if (mt is None or mt != mt) else str(mt)
        per.setdefault(d, []).append((ms, pred, mt))
    return per, len(out)


def route_oracle(run, keys, season, week, dates, per, nrows, case, intercepts):
    """statement, literally: every day is predicted exactly once, by the sub-model whose cell contains it"""
    reported = set()
    def report(sig, msg, d, obs):
        k = json.dumps(sig, sort_keys=True)
        if k in reported:
            return
        reported.add(k)
        run.violation(sig, "C13 predict: " + msg, case=dict(case, date=str(d)), observation=obs, generator="c13.route")
    comps = read_split("__".join(keys))
    for d in dates:
        rows = per.get(d, [])
        sname, dname = season[d.month - 1], week[d.isoweekday() - 1]
        sig0 = {"call": "DailyModel.predict", "maps": day_cause(sname, dname)}
        got = [r for r in rows if r[0] is not None]
        if len(got) == 0:
            report(dict(sig0, broken="day predicted by no sub-model"),
                   "%s (%s, %s) is predicted by no sub-model of %s" % (d, sname, dname, "__".join(keys)), d, rows)
            continue
        if len(rows) != 1:
            report(dict(sig0, broken="day predicted more than once"),
                   "%s is predicted %d times" % (d, len(rows)), d, rows)
            continue
        ms, pred, mt = got[0]
        if comps is None:
            continue
        owners = [c for c, days, seasons in comps if sname in seasons and dname in days]
        if owners != [ms]:
            report(dict(sig0, broken="wrong sub-model"),
                   "%s (%s, %s) predicted by %s, its cell belongs to %s" % (d, sname, dname, ms, owners), d, rows)
        elif pred is None or abs(pred - intercepts[ms]) > 1e-9:
            report(dict(sig0, broken="model_split label and prediction differ"),
                   "%s labelled %s but predicted %r instead of %r" % (d, ms, pred, intercepts[ms]), d, rows)


def stream_route(run, info, DailyModel, DailyReportingData, only=None):
    from opendsm.eemeter import DailyBaselineData
    D = datetime.date
    dates = [D.fromordinal(o) for o in range(D(2023, 1, 1).toordinal(), D(2024, 12, 31).toordinal() + 1)]
    assert len(dates) == 731
    zone_data = {}

    def data_for(zone, cls):
        """the 731 local days of 2023-2024 in `zone`, through DailyReportingData ("reporting") or DailyBaselineData ("baseline")"""
        if (zone, cls) not in zone_data:
            idx = local_midnight_index(dates, zone)
            if cls == "reporting":
                obj = DailyReportingData(pd.DataFrame({"temperature": np.full(len(idx), 50.0)}, index=idx), is_electricity_data=True)
            else:
                obj = DailyBaselineData(pd.DataFrame({"temperature": np.full(len(idx), 50.0), "observed": np.full(len(idx), 10.0)},
                                                     index=idx), is_electricity_data=True)
            zone_data[(zone, cls)] = obj
        return zone_data[(zone, cls)]
    terms, meta = [], []
    docs = [(s, s.split("__")) for s in info["all_splits"]]
    extra = [("fw-su__wd-sh_wi", ["fw-su", "wd-sh_wi"]),                 # weekend shoulder/winter days uncovered
             ("fw-su_sh_wi__we-su", ["fw-su_sh_wi", "we-su"])]            # summer weekends covered twice
    for mname, season, week in map_variants():
        st = settings_for(season, week)
        st.pop("developer_mode"); st.pop("silent_developer_mode"); st.pop("split_selection")
        proto = build_model(run, DailyModel, st, season, week, "route")
        if proto is None:
            continue
        run.dist("maps with foreign names", "accepted" if maps_cause(season, week) != "standard names" else "standard")
        settings = proto.settings.model_dump()
        std_maps = all(s in translate_splits.SEASON_NAMES for s in season) and all(d in translate_splits.DAY_NAMES for d in week)
        use = docs + (extra if mname == "default" else [])
        if run.quick() and not std_maps:
            use = docs[:12]
        elif run.quick() and mname not in ("default", "southern", "alternating"):
            rng_r = stream_rng(run, "route-" + mname)      # every split on three maps, a random third of them on the others
            use = [docs[0]] + rng_r.sample(docs[1:], 15)
        for i_doc, (text, keys) in enumerate(use):
            # every (zone, data class) pair occurs for every map: the zone rotates with the document, the class every 8 documents
            tz = ROUTE_ZONES[i_doc % len(ROUTE_ZONES)]
            cls = ["reporting", "baseline"][(i_doc // len(ROUTE_ZONES)) % 2]
            if only is not None and (only.get("split") != text or only.get("maps") != mname):
                continue
            case = {"split": text, "maps": mname, "season": season, "week": week, "tz": tz, "data_class": cls}
            intercepts = {c: 100.0 + i for i, c in enumerate(keys)}
            run.dist("route: time zone / data class", "%s / %s" % (tz, cls))
            data = data_for(tz, cls)                 # a failure here is the harness's (or the data class's): not a routing observation
            try:
                model = DailyModel.from_dict(synthetic_doc(keys, settings, tz))
                per, nrows = observe_routing(model, data, tz)
            except Exception as e:  # noqa
                run.violation({"call": "DailyModel.predict", "broken": "raised", "raised": type(e).__name__},
                              "C13 predict raised %s: %s on split %s" % (type(e).__name__, e, text), case=case,
                              generator="c13.route")
                continue
            is_cover = cover_failures(text) == []
            run.count(("route", text, mname), nontrivial=len(keys) > 1)
            if is_cover:
                route_oracle(run, keys, season, week, dates, per, nrows, case, intercepts)
            # cell table for the model: all dates of one (month, dow) must agree
            cells = {}
            consistent = True
            for d in dates:
                seen = sorted({r[0] for r in per.get(d, []) if r[0] is not None})
                k = (d.month, d.isoweekday())
                if k in cells and cells[k] != seen:
                    consistent = False
                cells.setdefault(k, seen)
            if not consistent:
                run.corr_failures.append({"stream": "route", "case": case,
                                          "impl": "dates of one (month, day-of-week) cell were routed differently",
                                          "model": "routing depends on (month, day-of-week) only"})
            obs = coq_list(["(%s, %s, %s)" % (zlit(m), zlit(w), coq_list([coq_string(x) for x in seen]))
                            for (m, w), seen in sorted(cells.items())])
            terms.append("(%s, %s, %s, %s)" % (coq_string(text), coq_smap(season), coq_wmap(week), obs))
            meta.append(case)
            run.dist("route: components in split", len(keys))
            if len(keys) == 4 and mname in ("southern", "foreign-season"):
                run.sample({"stream": "route", "split": text, "maps": mname,
                            "cells": {"%d/%d" % k: v for k, v in list(sorted(cells.items()))[40:46]}})
    return terms, meta


# ------------------------------------------------------------------ stream C: _best_combination vs best

def xr(v):
    """binary64 -> the model's extended rational, written as mantissa * 2^exponent (small literals)"""
    v = float(v)
    if v != v:
        return "XNaN"
    if v == math.inf:
        return "XPosInf"
    if v == -math.inf:
        return "XNegInf"
    m, e = math.frexp(v)               # v = m * 2**e, 0.5 <= |m| < 1  (exact)
    mi = int(m * (1 << 53))            # exact: m has at most 53 significant bits
    e -= 53
    while mi and mi % 2 == 0:
        mi //= 2
        e += 1
    assert math.ldexp(mi, e) == v
    return "(xdy %s %s)" % (zlit(mi), zlit(e if mi else 0))


def best_oracle(run, table, chosen, case, generator):
    """statement: the chosen split is a candidate and has the lowest criterion among the candidates"""
    keys = [k for k, _ in table]
    vals = dict(table)
    sig0 = {"call": "_best_combination"}
    selectable = [k for k, v in table if v == v and v < math.inf]
    if chosen is None:
        if selectable:
            run.violation(dict(sig0, broken="nothing selected"),
                          "C13 _best_combination selected nothing although %d candidates have a criterion below +inf" % len(selectable),
                          case=case, observation={"chosen": None}, generator=generator)
            return False
        return True
    if chosen not in keys:
        run.violation(dict(sig0, broken="selected split is not a candidate"),
                      "C13 _best_combination selected %r which is not a candidate" % (chosen,), case=case,
                      observation={"chosen": chosen}, generator=generator)
        return False
    c = vals[chosen]
    if c != c:
        run.violation(dict(sig0, broken="NaN criterion selected"), "C13 _best_combination selected %r whose criterion is NaN" % chosen,
                      case=case, observation={"chosen": chosen}, generator=generator)
        return False
    lower = [k for k, v in table if v < c]
    if lower:
        run.violation(dict(sig0, broken="not the lowest criterion"),
                      "C13 _best_combination selected %r (%r) although %r has criterion %r" % (chosen, c, lower[0], vals[lower[0]]),
                      case=case, observation={"chosen": chosen}, generator=generator)
        return False
    return True


def stream_best_stub(run, info, DailyModel, only=None):
    """the real _best_combination on synthetic criteria tables (criteria supplied through the method it calls)"""
    rng = stream_rng(run, "best")
    m = DailyModel()
    terms, meta = [], []
    pool = info["all_splits"]
    specials = [float("nan"), math.inf, -math.inf, 0.0, -0.0, 1.5, -3.25, 1e-300, -1e300, 5e-324]
    n = run.n(400, 8000)
    calls = {"n": 0}
    for k in range(n):
        ln = rng.choice([1, 2, 3, 5, 8, 20, len(pool)])
        keys = rng.sample(pool, min(ln, len(pool)))
        mode = rng.choice(["random", "ties", "special", "all-nan", "mixed"])
        vals = []
        for _ in keys:
            if mode == "random":
                v = rng.uniform(-5, 5)
            elif mode == "ties":
                v = rng.choice([-1.0, -1.0, 0.5, 2.0])
            elif mode == "special":
                v = rng.choice(specials)
            elif mode == "all-nan":
                v = rng.choice([float("nan"), math.inf])
            else:
                v = rng.choice(specials + [rng.uniform(-5, 5), rng.uniform(-5, 5)])
            vals.append(v)
        table = list(zip(keys, vals))
        if only is not None:
            if k > 0:
                break
            table = [(a, float(b)) for a, b in only["criteria"]]
            keys, vals = [a for a, _ in table], [b for _, b in table]
        lookup = dict(table)

        def crit(combo, _l=lookup):
            calls["n"] += 1
            return np.float64(_l[combo])
        m.combinations = list(keys)
        m._combination_selection_criteria = crit
        case = {"criteria": [[a, repr(b)] for a, b in table]}
        try:
            chosen = m._best_combination()
        except Exception as e:  # noqa
            run.violation({"call": "_best_combination", "broken": "raised", "raised": type(e).__name__},
                          "C13 _best_combination raised %s: %s" % (type(e).__name__, e), case=case, generator="c13.best-stub")
            continue
        nontrivial = len(keys) > 1 and any(v == v for v in vals)
        run.count(("best", vlib.sha(case)), nontrivial)
        run.dist("best-stub: outcome", "none" if chosen is None else "index %s" % min(keys.index(chosen), 5) if chosen in keys else "foreign")
        best_oracle(run, table, chosen, case, "c13.best-stub")
        terms.append("(%s, %s)" % (coq_list(["(%s, %s)" % (coq_string(a), xr(b)) for a, b in table]), coq_opt(chosen, coq_string)))
        meta.append(case)
    if calls["n"] == 0:
        # _best_combination no longer asks _combination_selection_criteria: the stub stream says nothing
        run.assumptions.append("stub stream for _best_combination skipped: the method no longer calls _combination_selection_criteria")
        return [], []
    return terms, meta


# ------------------------------------------------------------------ stream D: real fits

FIT_ZONES = ["US/Pacific", "Europe/Berlin", "Asia/Tokyo", "Australia/Sydney", "America/New_York", "Asia/Kolkata"]


def fit_zone(seed):
    return FIT_ZONES[(seed // 3) % len(FIT_ZONES)]       # (seed % 3 chooses the start date)


def fit_dataset(seed, kind):
    rng = np.random.default_rng(seed)
    start = ["2021-11-01", "2022-03-01", "2022-06-15"][seed % 3]
    idx = pd.date_range(start, periods=365, freq="D", tz=fit_zone(seed))
    doy = idx.dayofyear.values
    T = 60 + 22 * np.sin(2 * np.pi * (doy - 110) / 365) + rng.normal(0, 4, len(idx))
    y = 20.0 + 1.2 * np.clip(55 - T, 0, None) + 1.6 * np.clip(T - 68, 0, None)
    if kind in ("wdwe", "both"):
        y = y + np.where(idx.dayofweek >= 5, 15.0, 0.0)
    if kind in ("season", "both", "short-summer"):
        y = y + np.where(np.isin(idx.month, [6, 7, 8, 9]), 25.0, 0.0)
    if kind == "winter":
        y = y + np.where(np.isin(idx.month, [11, 12, 1, 2]), 18.0, 0.0)
    y = y + rng.normal(0, 1.0 + (seed % 4), len(idx))
    df = pd.DataFrame({"temperature": T, "observed": y}, index=idx)
    if kind == "gappy":
        df = df[(idx.dayofweek < 5) | (idx.day <= 14)]
    if kind == "short-summer":                      # only 20 days of June-September: summer cannot be modelled separately
        summer = np.isin(idx.month, [6, 7, 8, 9])
        keep = ~summer | (np.cumsum(summer) <= 20)
        df = df[keep]
    return df


def fit_worker(job):
    import warnings as w
    w.simplefilter("ignore")
    import logging
    logging.disable(logging.CRITICAL)
    seed, kind, settings = job
    from opendsm.eemeter.models.daily.model import DailyModel
    from opendsm.eemeter import DailyBaselineData
    from opendsm.eemeter.models.daily.utilities.ellipsoid_test import ellipsoid_split_filter
    # kind "B<-A": a refit history - ONE model object is fitted on baseline A and then on baseline B; everything observed
    # below is the state after the fit on B, and a new object fitted on B alone is recorded next to it
    kind_b, _, kind_a = kind.partition("<-")
    df = fit_dataset(seed, kind_b)
    res = {"seed": seed, "kind": kind, "settings": settings, "fit_error": None}
    bd = DailyBaselineData(df, is_electricity_data=True)
    try:
        m = DailyModel(settings=settings)
    except Exception as e:  # noqa
        res["construction_error"] = "%s: %s" % (type(e).__name__, str(e)[:300])
        return res
    res["season_map"] = [m.settings.season._num_dict[i] for i in range(1, 13)]
    res["week_map"] = [m.settings.weekday_weekend._num_dict[i] for i in range(1, 8)]
    if kind_a:
        try:
            m.fit(DailyBaselineData(fit_dataset(seed, kind_a), is_electricity_data=True), ignore_disqualification=True)
            res["prior"] = {"combinations": len(getattr(m, "combinations", []) or []), "selected": getattr(m, "best_combination", None)}
        except Exception as e:  # noqa
            res["prior"] = {"error": "%s: %s" % (type(e).__name__, e)}
        try:
            fresh = DailyModel(settings=settings)
            fresh.fit(bd, ignore_disqualification=True)
            res["fresh"] = {"combinations": list(fresh.combinations), "selected": fresh.best_combination,
                            "criteria": [float(fresh._combination_selection_criteria(c)) for c in fresh.combinations],
                            "error": {k: float(v) for k, v in fresh.error.items()},
                            "submodels": sorted(fresh.params.submodels.keys())}
        except Exception as e:  # noqa
            res["fresh"] = {"fit_error": "%s: %s" % (type(e).__name__, e)}
    try:
        m.fit(bd, ignore_disqualification=True)
    except Exception as e:  # noqa
        res["fit_error"] = "%s: %s" % (type(e).__name__, e)
    if not hasattr(m, "combinations") or not hasattr(m, "fit_components"):
        return res
    res["combinations"] = list(m.combinations)
    res["best_attr"] = getattr(m, "best_combination", None)
    try:
        res["best_call"] = m._best_combination()
    except Exception as e:  # noqa
        res["best_call_error"] = "%s: %s" % (type(e).__name__, e)
    crit, recomputed = [], []
    ss = m.settings.split_selection
    for combo in m.combinations:
        crit.append(float(m._combination_selection_criteria(combo)))
        comps = combo.split("__")
        fc = [m.fit_components[c] for c in comps]
        N = float(sum(x.N for x in fc))
        wsse = float(sum(x.wSSE for x in fc))
        loss = math.sqrt(wsse / N) / float(m.wRMSE_base) if combo != "fw-su_sh_wi" else 1.0
        K = len(comps)
        if str(getattr(ss.criteria, "value", ss.criteria)).lower() == "bic" and loss > 0 and N > 0:
            ll = -N / 2 * (math.log(2 * math.pi) + math.log(loss / N) + 1)
            recomputed.append((-2 * ll + ss.penalty_multiplier * K * math.log(N) ** ss.penalty_power) / N)
        else:
            recomputed.append(None)
    res["criteria"] = crit
    res["recomputed"] = recomputed
    res["crit_type"] = str(getattr(ss.criteria, "value", ss.criteria)).lower()
    res["c0"], res["d0"] = float(ss.penalty_multiplier), float(ss.penalty_power)
    res["components"] = {c: [float(fc.N), float(fc.TSS), float(fc.wSSE)] for c, fc in m.fit_components.items()}
    dm = m.df_meter
    zone = fit_zone(seed)
    res["tz"] = zone
    res["dates"] = [[d.year, d.month, d.day] for d in (local_date(ns, zone) for ns in dm.index.as_unit("ns").asi8)]      # local days, by zoneinfo
    res["season_map"] = [m.settings.season._num_dict[i] for i in range(1, 13)]
    res["week_map"] = [m.settings.weekday_weekend._num_dict[i] for i in range(1, 8)]
    res["flags"] = [ss.allow_separate_summer, ss.allow_separate_shoulder, ss.allow_separate_winter,
                    ss.allow_separate_weekday_weekend]
    if ss.reduce_splits_by_gaussian:
        g = ellipsoid_split_filter(dm, n_std=ss.reduce_splits_num_std)
        res["gauss"] = [bool(g["summer"]), bool(g["shoulder"]), bool(g["winter"]), bool(g["weekday_weekend"])]
    else:
        res["gauss"] = None
    res["error_table"] = {k: float(v) for k, v in m.error.items()}
    if res["fit_error"] is None:
        res["submodel_keys"] = list(m.params.submodels.keys())
        out = m.predict(bd, ignore_disqualification=True)
        rows = []
        obs = out["observed"].values if "observed" in out.columns else np.zeros(len(out))
        for ns, ms, pred, T, y in zip(out.index.as_unit("ns").asi8, out["model_split"].values, out["predicted"].values, out["temperature"].values, obs):
            complete = bool(np.isfinite(T)) and bool(np.isfinite(y))     # otherwise the row is passed through unpredicted (C07's subject)
            ld = local_date(ns, zone)
            rows.append([[ld.year, ld.month, ld.day], None if (ms is None or ms != ms) else str(ms),
                         None if pred != pred else float(pred), complete])
        res["rows"] = rows
        # each sub-model evaluated on its own on the whole temperature series, to attribute predictions
        per = {}
        for key, sub in m.params.submodels.items():
            val = m._predict_submodel(sub, out["temperature"].values.astype(float))[0]
            per[key] = [None if v != v else float(v) for v in val]
        res["per_submodel"] = per
        # a stored copy must route identically
        m2 = DailyModel.from_json(m.to_json())
        out2 = m2.predict(bd, ignore_disqualification=True)
        res["reload_same_split"] = bool((out2["model_split"].fillna("-") == out["model_split"].fillna("-")).all())
    return res


def launch_fits(run, only=None):
    """start the real fits in worker processes; the other streams run meanwhile"""
    kinds = ["plain", "wdwe", "season", "both", "winter", "gappy"]
    jobs = []
    n = run.n(4, 200)
    base = run.seed % 1000
    for k in range(n):
        kind = ["wdwe", "both", "season", "gappy"][k] if k < 4 else kinds[k % len(kinds)]
        settings = None
        if k >= 4 and k % 5 == 0:
            settings = {"developer_mode": True, "silent_developer_mode": True,
                        "split_selection": {"allow_separate_shoulder": False, "allow_separate_weekday_weekend": k % 10 == 0}}
        if k >= 4 and k % 7 == 3:
            settings = {"developer_mode": True, "silent_developer_mode": True,
                        "split_selection": {"criteria": ["aic", "aicc", "caic", "sabic", "fpe", "rmse_adj", "r_squared_adj"][(k // 7) % 7]}}
        jobs.append((base + k, kind, settings))
    jobs.append((base + 400, "season", {"developer_mode": True, "silent_developer_mode": True, "split_selection": {"criteria": "caic"}}))
    # refit histories: one object fitted on A, then on B whose admissible candidates differ (A lacks weekend days / B lacks summer days / ...)
    histories = ["short-summer<-season", "both<-gappy", "gappy<-both", "season<-short-summer", "winter<-plain", "plain<-both"]
    for k in range(run.n(2, 36)):
        jobs.append((base + 600 + k // len(histories), histories[k % len(histories)], None))
    # maps with names outside the hard-wired ones, end to end and without developer mode (C13-F1, F2, F3)
    foreign = [("plain", {"season": {"july": "monsoon", "options": ["summer", "shoulder", "winter", "monsoon"]}}),
               ("wdwe", {"weekday_weekend": {"friday": "holiday", "options": ["weekday", "weekend", "holiday"]}}),
               ("plain", {"season": dict({mth: ("hot" if 5 <= i <= 8 else "cold") for i, mth in enumerate(MONTHS)},
                                         options=["hot", "cold"])})]
    for k, (kind, settings) in enumerate(foreign):
        jobs.append((base + 500 + k, kind, settings))
    if only is not None:
        jobs = [(only["dataset"]["seed"], only["dataset"]["kind"], only.get("settings"))]
    ex = ProcessPoolExecutor(max_workers=min(12, len(jobs)))
    return ex, [ex.submit(fit_worker, j) for j in jobs]


def stream_fits(run, info, only=None, handle=None):
    ex, futures = handle if handle is not None else launch_fits(run, only)
    results = [f.result() for f in futures]
    ex.shutdown()
    trim_terms, route_terms, best_terms, crit_terms = [], [], [], []
    for res in results:
        case = {"dataset": {"seed": res["seed"], "kind": res["kind"], "generator": "c13.fit_dataset"}, "settings": res["settings"]}
        run.count(("fit", res["seed"], res["kind"], json.dumps(res["settings"], sort_keys=True)), nontrivial=True)
        if "construction_error" in res:
            st = res["settings"] or {}
            names = set((st.get("season") or {}).get("options", [])) | set((st.get("weekday_weekend") or {}).get("options", []))
            if names - {"summer", "shoulder", "winter", "weekday", "weekend"}:
                run.dist("maps with foreign names", "refused at construction (fit stream)")
                continue                          # the proposed repair of C13-F1/F2/F3: nothing to route
            raise RuntimeError("DailyModel(settings=%r) refused: %s" % (st, res["construction_error"]))
        mcause = maps_cause(res["season_map"], res["week_map"])
        if "combinations" not in res:
            run.violation({"call": "DailyModel.fit", "broken": "raised", "raised": str(res["fit_error"]).split(":")[0], "maps": mcause,
                           "stage": "before the candidates were selected"},
                          "C13 fit raised %s" % res["fit_error"], case=case, generator="c13.fit")
            continue
        combos = res["combinations"]
        table = list(zip(combos, res["criteria"]))
        dates = [datetime.date(*d) for d in res["dates"]]
        eff = tuple(res["flags"]) if res["gauss"] is None else tuple(a and b for a, b in zip(res["flags"], res["gauss"]))
        trim_oracle(run, combos, eff, res["season_map"], res["week_map"], dates, info["all_splits"], case)
        chosen = res.get("best_call")
        if "best_call_error" in res:
            run.violation({"call": "_best_combination", "broken": "raised"}, "C13 _best_combination raised " + res["best_call_error"],
                          case=case, generator="c13.fit")
        else:
            best_oracle(run, table, chosen, dict(case, criteria=[[a, repr(b)] for a, b in table]), "c13.fit")
        if res["fit_error"] is not None:
            run.violation({"call": "DailyModel.fit", "broken": "raised", "raised": str(res["fit_error"]).split(":")[0], "maps": mcause,
                           "stage": "after the candidates were built", "selected": repr(chosen)},
                          "C13 fit raised %s (candidates %d, _best_combination -> %r)" % (res["fit_error"], len(combos), chosen),
                          case=case, generator="c13.fit")
        else:
            if res["best_attr"] != chosen:
                run.violation({"call": "DailyModel.fit", "broken": "best_combination attribute differs from _best_combination()"},
                              "C13 fit stored %r, _best_combination() returns %r" % (res["best_attr"], chosen), case=case, generator="c13.fit")
            if res["best_attr"] not in combos:
                run.violation({"call": "DailyModel.fit", "broken": "selected split is not a candidate"},
                              "C13 best_combination %r is not in combinations" % (res["best_attr"],), case=case, generator="c13.fit")
            if sorted(res["submodel_keys"]) != sorted(str(res["best_attr"]).split("__")):
                run.violation({"call": "DailyModel.fit", "broken": "sub-models differ from the selected split"},
                              "C13 params.submodels %r vs best_combination %r" % (res["submodel_keys"], res["best_attr"]),
                              case=case, generator="c13.fit")
            if not res["reload_same_split"]:
                run.violation({"call": "DailyModel.from_json", "broken": "stored model routes differently"},
                              "C13 a reloaded model assigns other sub-models", case=case, generator="c13.fit")
            # criterion recomputed from fit_components
            for (combo, c), r in zip(table, res["recomputed"]):
                if r is not None and not (abs(c - r) <= 1e-9 * max(1.0, abs(c), abs(r))):
                    run.violation({"call": "_combination_selection_criteria", "broken": "criterion is not the documented function of the component fits"},
                                  "C13 criterion of %s is %r, recomputed %r" % (combo, c, r), case=case, generator="c13.fit")
                    break
            # routing of the fitted model on its own baseline
            keys = res["submodel_keys"]
            per, cells = {}, {}
            for i, (d, ms, pred, complete) in enumerate(res["rows"]):
                per.setdefault(datetime.date(*d), []).append((ms, pred, i, complete))
            comps = read_split("__".join(keys))
            reported = set()
            for d, rows in sorted(per.items()):
                sname, dname = res["season_map"][d.month - 1], res["week_map"][d.isoweekday() - 1]
                sig0 = {"call": "DailyModel.predict", "maps": day_cause(sname, dname)}
                if len(rows) != 1:
                    run.violation(dict(sig0, broken="day predicted more than once"),
                                  "C13 fitted model predicts %s %d times" % (d, len(rows)), case=dict(case, date=str(d)), generator="c13.fit")
                    continue
                ms, pred, i, complete = rows[0]
                if not complete:
                    continue        # rows without temperature/observed are passed through unpredicted (C07's subject)
                if ms is None:
                    cells.setdefault((d.month, d.isoweekday()), [])
                    if sig0["maps"] not in reported:
                        reported.add(sig0["maps"])
                        run.violation(dict(sig0, broken="day predicted by no sub-model"),
                                      "C13 fitted model (%s): %s (%s, %s) is predicted by no sub-model" % ("__".join(keys), d, sname, dname),
                                      case=dict(case, date=str(d)), generator="c13.fit")
                    continue
                owners = [c for c, days, seasons in comps if sname in seasons and dname in days]
                if owners != [ms]:
                    run.violation(dict(sig0, broken="wrong sub-model"),
                                  "C13 fitted model: %s (%s, %s) predicted by %s, cell belongs to %s" % (d, sname, dname, ms, owners),
                                  case=dict(case, date=str(d)), generator="c13.fit")
                    break
                want = res["per_submodel"][ms][i]
                if want is None or pred is None or abs(want - pred) > 1e-9 * max(1.0, abs(want)):
                    run.violation(dict(sig0, broken="model_split label and prediction differ"),
                                  "C13 fitted model: %s labelled %s, predicted %r, that sub-model gives %r" % (d, ms, pred, want),
                                  case=dict(case, date=str(d)), generator="c13.fit")
                    break
                cells.setdefault((d.month, d.isoweekday()), sorted({ms}))
            obs = coq_list(["(%s, %s, %s)" % (zlit(mm), zlit(w), coq_list([coq_string(x) for x in seen]))
                            for (mm, w), seen in sorted(cells.items())])
            route_terms.append(("(%s, %s, %s, %s)" % (coq_string("__".join(keys)), coq_smap(res["season_map"]),
                                                     coq_wmap(res["week_map"]), obs), case))
        trim_terms.append(("(%s, %s, %s, %s, %s, %s)" % (
            coq_flags(res["flags"]), "None" if res["gauss"] is None else "Some " + coq_flags(res["gauss"]),
            coq_smap(res["season_map"]), coq_wmap(res["week_map"]), coq_hist(histogram(dates)),
            coq_list([coq_string(s) for s in combos])), case))
        if res.get("crit_type") in CRIT_TYPES and all(c in res["components"] for combo in combos for c in combo.split("__")) \
                and UNSPLIT in res["components"]:
            base = coq_list([coq_fit(res["components"][UNSPLIT])])
            for combo, cval in table:
                crit_terms.append(("(%s, %s, %s, %s, %s, %s)" % (
                    CRIT_TYPES[res["crit_type"]], vlib.fhex(res["c0"]), vlib.fhex(res["d0"]), base,
                    coq_list([coq_fit(res["components"][c]) for c in combo.split("__")]), vlib.fhex(cval)),
                    dict(case, combination=combo, criterion=repr(cval))))
            run.dist("fit: criterion type", res["crit_type"])
        else:
            run.corr_failures.append({"stream": "fit_crit", "case": case, "impl": "criterion type %r / components %r" % (
                res.get("crit_type"), sorted(res.get("components", {}))[:3]), "model": "not representable in Model/SelCrit.v"})
        best_terms.append(("(%s, %s)" % (coq_list(["(%s, %s)" % (coq_string(a), xr(b)) for a, b in table]),
                                        coq_opt(chosen, coq_string)), case))
        if "<-" in res["kind"]:
            run.dist("fit: refit history (B<-A)", res["kind"])
            fr = res.get("fresh") or {}
            sigr = {"call": "DailyModel.fit", "broken": "a re-fitted model differs from a new model fitted on the same baseline"}
            def differs(what, a, b):
                run.violation(dict(sigr, what=what),
                              "C13 refit %s: after fitting baseline A (%s) the same object fitted on B has %s %r, a new object fitted on B has %r"
                              % (res["kind"], res.get("prior"), what, a, b), case=case,
                              observation={"refit": a, "fresh": b}, generator="c13.fit")
            if "fit_error" in fr or res["fit_error"] is not None:
                if (fr.get("fit_error") is None) != (res["fit_error"] is None):
                    differs("fit outcome", res["fit_error"], fr.get("fit_error"))
            else:
                close = lambda x, y: (x != x and y != y) or abs(x - y) <= 1e-9 * max(1.0, abs(x), abs(y))
                if combos != fr["combinations"]:
                    differs("candidates", combos, fr["combinations"])
                elif res["best_attr"] != fr["selected"] or sorted(res.get("submodel_keys", [])) != fr["submodels"]:
                    differs("selected split", res["best_attr"], fr["selected"])
                elif not all(close(a, b) for a, b in zip(res["criteria"], fr["criteria"])):
                    differs("criteria", res["criteria"], fr["criteria"])
                elif not all(close(res["error_table"][k], fr["error"][k]) for k in fr["error"]):
                    differs("error table", res["error_table"], fr["error"])
        run.dist("fit: time zone", res.get("tz"))
        run.dist("fit: candidates", len(combos))
        run.dist("fit: selected", chosen)
        run.sample({"stream": "fit", "dataset": case["dataset"], "n_candidates": len(combos), "selected": chosen,
                    "criterion": dict(table).get(chosen), "ellipsoid_filter": res["gauss"]})
    return trim_terms, route_terms, best_terms, crit_terms


# ------------------------------------------------------------------ stream F: the selection criterion

CRIT_TYPES = {"rmse": "C_RMSE", "rmse_adj": "C_RMSE_ADJ", "r_squared": "C_R2", "r_squared_adj": "C_R2_ADJ", "fpe": "C_FPE",
              "aic": "C_AIC", "aicc": "C_AICC", "caic": "C_CAIC", "bic": "C_BIC", "sabic": "C_SABIC"}


def coq_fit(nts):
    return "(mk_fit %s %s %s)" % tuple(vlib.fhex(x) for x in nts)


def stream_criterion(run):
    """the real selection_criteria() on random and edge inputs (called with the numpy scalar types the real caller passes),
    and np.log / np.sqrt / ** on their own against the float functions of Model/SelCritF.v"""
    from opendsm.eemeter.models.daily.utilities import selection_criteria as sc_mod
    from opendsm.eemeter.models.daily.utilities.settings import ModelSelectionCriteria
    rng = stream_rng(run, "criterion")
    coded = sorted(m.value for m in ModelSelectionCriteria)
    if coded != sorted(CRIT_TYPES):
        run.corr_failures.append({"stream": "crit", "case": {"criteria": coded}, "impl": "ModelSelectionCriteria = %r" % coded,
                                  "model": "Model/SelCrit.v knows %r" % sorted(CRIT_TYPES)})
    prim_terms, prim_meta, terms, meta = [], [], [], []
    n_prim = run.n(300, 3000)
    with np.errstate(all="ignore"):
        for k in range(n_prim):
            which = k % 3
            if which == 0:
                x = rng.choice([1.0, 2.0, 0.5, 2 * math.pi, 365.0, 1e-300, 5e-324, 1e300, rng.uniform(0, 3), 10 ** rng.uniform(-12, 12)])
                y, exp = 0.0, float(np.log(np.float64(x)))
            elif which == 1:
                x = rng.choice([0.0, 1.0, 2.0, -1.0, rng.uniform(0, 5), 10 ** rng.uniform(-12, 12)])
                y, exp = 0.0, float(np.sqrt(np.float64(x)))
            else:
                x = rng.choice([0.0, 1.0, 5.9, rng.uniform(0, 15), rng.uniform(-2, 0), float(rng.randrange(0, 50))])
                y = rng.choice([0.0, 1.0, 2.0, 2.061, rng.uniform(1, 4)])
                exp = float(np.float64(x) ** y)
            prim_terms.append("(%d%%nat, %s, %s, %s)" % (which, vlib.fhex(x), vlib.fhex(y), vlib.fhex(exp)))
            prim_meta.append({"fn": ["np.log", "np.sqrt", "**"][which], "x": repr(x), "y": repr(y), "value": repr(exp)})
            run.count(("prim", which, repr(x), repr(y)), nontrivial=True)
        n = run.n(1500, 30000)
        for k in range(n):
            ty = coded[k % len(coded)] if coded else "bic"
            N = rng.choice([1, 2, 3, 5, 21, 22, 23, 30, 90, 365, 730, rng.randrange(1, 2000), 100000])
            K = rng.choice([0, 1, 2, 3, 6, max(N - 2, 0), max(N - 1, 0), N, N + 3, rng.randrange(1, 8)])
            loss = rng.choice([0.0, 1.0, 1e-12, -0.1, rng.uniform(0.05, 1.5), rng.uniform(0.5, 1.0), 10 ** rng.uniform(-6, 3)])
            tss = rng.choice([0.0, 1e-12, 100.0, rng.uniform(1, 1e6)])
            c0 = rng.choice([0.0, 0.24, 1.0, rng.uniform(0, 4)])
            d0 = rng.choice([1.0, 2.0, 2.061, rng.uniform(1, 3.5)])
            case = {"criteria": ty, "loss": repr(loss), "TSS": repr(tss), "N": N, "num_coeffs": K, "penalty_multiplier": repr(c0),
                    "penalty_power": repr(d0)}
            try:
                val = float(sc_mod.selection_criteria(np.float64(loss), np.float64(tss), np.int64(N), int(K), ty, c0, d0))
            except Exception as e:  # noqa
                run.corr_failures.append({"stream": "crit", "case": case, "impl": "raised %s: %s" % (type(e).__name__, e),
                                          "model": "total"})
                continue
            edge = loss <= 0 or tss == 0 or K >= N - 1 or N < 22
            run.count(("crit", vlib.sha(case)), nontrivial=True)
            run.dist("criterion: input class", "edge (loss<=0 / TSS=0 / K>=N-1 / N<22)" if edge else "regular")
            run.dist("criterion: value class", "nan" if val != val else "-inf" if val == -math.inf else "+inf" if val == math.inf else "finite")
            if ty not in CRIT_TYPES:
                continue
            terms.append("(%s, %s, %s, %s, %s, %s, %s, %s)" % (CRIT_TYPES[ty], vlib.fhex(c0), vlib.fhex(d0), vlib.fhex(loss),
                                                            vlib.fhex(tss), vlib.fhex(float(N)), vlib.fhex(float(K)), vlib.fhex(val)))
            meta.append(dict(case, value=repr(val)))
            if k in (8, 108):
                run.sample({"stream": "crit", "case": case, "value": repr(val)})
    return prim_terms, prim_meta, terms, meta


# ------------------------------------------------------------------ stream E: the calendar (date -> month, weekday)

def stream_calendar(run):
    """what _initialize_data reads (index.month, index.dayofweek + 1) on tz-aware daily rows, for every day 1970-2100,
    against CPython's proleptic Gregorian calendar; the month runs are then compared with Model/SplitsCal.v in Coq"""
    tz = "America/New_York"
    idx = pd.date_range("1970-01-01", "2100-12-31", freq="D", tz=tz)
    frame = pd.DataFrame({"temperature": 50.0}, index=idx)
    month = frame.index.month.values                 # the two expressions of daily/model.py:513-514
    dow = (frame.index.dayofweek + 1).values
    year, dom = idx.year.values, idx.day.values
    epoch = datetime.date(1970, 1, 1).toordinal()
    runs, terms = [], []
    bad = None
    for i in range(len(idx)):
        d = datetime.date.fromordinal(epoch + i)
        if (d.year, d.month, d.day, d.isoweekday()) != (int(year[i]), int(month[i]), int(dom[i]), int(dow[i])):
            bad = bad or (i, str(d), (int(year[i]), int(month[i]), int(dom[i]), int(dow[i])))
        if d.day == 1 or not runs:
            runs.append([i, 0, d.year, d.month, d.isoweekday()])
        runs[-1][1] += 1
    # the same two expressions on an index east of Greenwich (local midnight is the previous day in UTC)
    idx2 = pd.date_range("1970-01-01", "2100-12-31", freq="D", tz="Pacific/Auckland")
    m2, w2 = idx2.month.values, (idx2.dayofweek + 1).values
    for i in range(0, len(idx2)):
        if int(m2[i]) != int(month[i]) or int(w2[i]) != int(dow[i]):
            bad = bad or (i, "Pacific/Auckland", (int(m2[i]), int(w2[i])))
            break
    run.count(("calendar", len(idx)), nontrivial=True)
    run.dist("calendar: days compared (pandas vs CPython vs model)", len(idx))
    if bad is not None:
        run.corr_failures.append({"stream": "calendar", "case": {"day_number": bad[0], "cpython": bad[1]},
                                  "impl": "pandas index gives (year, month, day, weekday) = %r" % (bad[2],),
                                  "model": "CPython datetime.date disagrees with pandas"})
    for k in range(0, len(runs), 120):
        terms.append(coq_list(["(%s, %s, %s, %s, %s)" % tuple(zlit(x) for x in r) for r in runs[k:k + 121]]))
    metas = [{"runs": "%d..%d" % (k, k + 120), "first_day": runs[k][0]} for k in range(0, len(runs), 120)]
    run.sample({"stream": "calendar", "month_runs": runs[600:603], "meaning": "[first day number, days, year, month, ISO weekday of the first day]"})
    return terms, metas


# ------------------------------------------------------------------ the regenerated list: concrete search

def check_generated(run, info):
    """the statement on the regenerated candidate list, in Python, so that a broken theorem comes with the split"""
    ok = True
    if UNSPLIT not in info["all_splits"]:
        run.violation({"call": "_get_combinations", "broken": "unsplit model not a candidate"},
                      "C13 the generator does not produce fw-su_sh_wi", case={"all_splits": info["all_splits"]}, generator="c13.generated")
        ok = False
    for text in info["all_splits"]:
        bad = cover_failures(text)
        run.count(("generated", text), nontrivial=True)
        if bad is None or bad:
            run.violation({"call": "_get_combinations", "broken": "candidate is not a partition"},
                          "C13 generated candidate %r does not partition the (season, day type) cells: %s" % (text, bad),
                          case={"split": text, "cells": bad}, generator="c13.generated")
            ok = False
    for k, v in info["combo_seasons"]:
        if SEASON_OF_KEY.get(k) != v:
            run.violation({"call": "DailyModel.__init__", "broken": "combo_dictionary season name"},
                          "C13 combo_dictionary[%r] = %r, the split syntax means %r" % (k, v, SEASON_OF_KEY.get(k)),
                          case={"key": k, "value": v}, generator="c13.generated")
            ok = False
    return ok


CANDS_PRELUDE = "Definition cands : list split := Eval vm_compute in (candidates gen_opts).\n"
CASE_TYPE = {"(check_trim_with cands)": "trim_case", "check_route_both": "route_case", "check_trim": "trim_case", "check_route": "route_case", "check_route_parsed": "route_case",
             "check_best": "best_case", "check_calendar": "list month_run",
             "check_prim": "prim_case", "check_crit": "crit_case", "check_fit_crit": "fit_crit_case"}


def run_cases(run, stream, terms, metas, check_fn, prelude="", shard=300):
    if not terms:
        return
    bad = run.coq_cases(stream, IMPORTS, prelude, terms, check_fn, shard=shard, case_type=CASE_TYPE[check_fn])
    if bad is None:
        run.proof_ok = False
        return
    run.log("coq stream %s: %d cases, %d disagreements" % (stream, len(terms), len(bad)))
    for i in bad[:10]:
        run.corr_failures.append({"stream": stream, "case": metas[i], "impl": terms[i][-600:],
                                  "model": "disagrees (" + check_fn + " = false)"})
    for i in bad[10:]:
        run.corr_failures.append({"stream": stream, "case": metas[i]})


def main():
    run = Run("C13")
    run.cov["rule"] = (
        "generated: every regenerated candidate text; trim: _combinations() on 8 season/weekday maps x 11 fixed + random date sets "
        "(incl. the 29/30-day and 7/8-weekend-day boundaries) x the 16 allow-flag combinations, plus Gaussian-reduction cases with "
        "the ellipsoid outcome as oracle input; route: predict()['model_split'] of DailyModel.from_dict documents for every "
        "generated split x 8 maps over all 731 local dates of 2023-2024 in 8 time zones (UTC-5 .. UTC+13) through DailyReportingData "
        "and DailyBaselineData (+ two non-partition documents); best: the real "
        "_best_combination on synthetic criteria tables (random / ties / NaN / +-inf); fit: real fits on synthetic meters "
        "(+ three with season/weekday names outside the hard-wired ones, end to end; + non-default criteria; + refit histories: one "
        "object fitted on baseline A then on B with a different admissible candidate set, observed after B and compared with a new "
        "object fitted on B: candidates, selection, criteria, error table); calendar: every day "
        "1970-2100; criterion: the real selection_criteria() for all ten criteria on random and edge inputs (N from 1, "
        "num_coeffs >= N-1, loss <= 0, TSS = 0, penalty multiplier 0), np.log / np.sqrt / ** on their own, and every "
        "criterion value recorded on the real fits recomputed by the model from the components' N / TSS / wSSE. "
        "distinct = (stream, split, maps, dates, flags) resp. table hash; non-trivial = more than one component / more than 3 days / "
        "a table with at least two entries and one number")
    run.assumptions += [
        "season.options / weekday_weekend.options may contain names other than summer/shoulder/winter and weekday/weekend "
        "(open, non-developer fields); the routing theorems cover all maps into the hard-wired names and every date; for the "
        "complement the full statement is refuted in Coq (C13_routing_refuted) and on the implementation (known findings "
        "C13-F1, F2, F3; proposed repair /var/tmp/proposed-fixes/C13-1.diff refuses such names at construction, which this "
        "check accepts as 'nothing to route')",
        "the Gaussian (ellipsoid) reduction is an oracle: its four booleans are inputs of the model",
        "the selection criterion: selection_criteria() / _combination_selection_criteria() are modelled in Model/SelCrit.v over the "
        "numeric dictionary; theorems at the real-number instance (stdlib ln, sqrt, Rpower; Reals axioms listed under "
        "trusted_base), execution at PrimFloat with own ln / pow = exp(y ln x) (Model/SelCritF.v, not bit-exact with libm: "
        "compared within 1e-9 relative); no rounding-error theorem links the two instances; the model is for N >= 1 and does "
        "not mirror integer exponents other than 1, 2 on a negative base; selection_criteria is called with the numpy scalar "
        "types the real caller passes (np.float64 loss/TSS, np.int64 N, int num_coeffs)",
        "the theorem about the choice (first strict minimum, NaN never chosen) holds for any criterion values (exact binary64 "
        "values as extended rationals) and, composed, for the coded criterion over the reals",
        "routing depends on a date only through (month, ISO weekday) of its local civil date: the route stream observes "
        "that all dates of one (month, weekday) cell are routed alike over 2023-2024; the calendar stream compares pandas' "
        "index.month / dayofweek+1 with CPython and with Model/SplitsCal.v for every day 1970-2100 (America/New_York and "
        "Pacific/Auckland); the expected cell of a predicted row is that of its LOCAL date computed with zoneinfo from the row's UTC "
        "instant, in 8 zones with negative, zero and positive offsets at local midnight, through both data classes; the "
        "date-level theorem then holds for every integer day number",
        "correspondence is sampled except where stated exhaustive (all generated splits, all 16 flag combinations)",
    ]
    run.cov["trusted_base"] += ["harness/c13.py (generators, adapters, literal oracles)", "harness/translate_splits.py",
                                "harness/translate_select.py (Python ast -> expr / loop_shape; inlines local variables; fail-closed)",
                                "CPython datetime (month, isoweekday); pydantic/pandas behaviour only through the sampled correspondence"]
    info = None
    try:
        info = translate_splits.generate(run)
    except Exception as e:  # noqa  (fail closed: a translator that does not understand the source is a broken tie)
        run.proof_ok = False
        run.proof_log += "translator harness/translate_splits.py failed: %s: %s" % (type(e).__name__, e)
        run.log("TRANSLATOR FAILED: %s: %s" % (type(e).__name__, e))
    sel_info = None
    try:
        sel_info = translate_select.generate(run)
    except Exception as e:  # noqa  (fail closed: source text the translator does not understand is a broken tie)
        run.proof_ok = False
        run.proof_log += "translator harness/translate_select.py failed: %s: %s" % (type(e).__name__, e)
        run.log("TRANSLATOR FAILED (selection source text): %s: %s" % (type(e).__name__, e))
    if sel_info is not None:
        run.cov["samples"].append({"translator_select": {"best_loop": {k: sel_info["model"][k] for k in (
            "init", "iter", "crit_call", "cmp", "new_on_left", "extra_conditions", "updates_name", "updates_crit",
            "other_statements", "returns_name")}, "bic_expression": dict(sel_info["criteria"]["branches"]).get("bic"),
            "criteria": [n for n, _ in sel_info["criteria"]["branches"]], "nll_guards": sel_info["criteria"]["nll_guards"]}})
    if info is not None:
        run.cov["samples"].append({"translator": {"seasonal_options": info["seasonal_options"], "n_splits": len(info["all_splits"]),
                                                  "first_splits": info["all_splits"][:6], "combo_seasons": info["combo_seasons"],
                                                  "combo_days": info["combo_days"]}})
        check_generated(run, info)
        run.log("translator done, %d candidate splits" % len(info["all_splits"]))
        run.check_proofs("Properties/C13.v", ["Proofs/SplitsProofs.v", "Proofs/SelCritProofs.v", "Proofs/SelectProofs.v", "Proofs/SelectRProofs.v"],
                         generated=["Generated/SplitsGen.v"] + (["Generated/SelectGen.v"] if sel_info is not None else []))
        run.cov["exhaustive"] = False     # the finite parts below are enumerated completely; fits / criteria tables / date sets are sampled
        run.cov["exhaustive_over"] = [
            "all %d regenerated candidate splits (exact cover: vm_compute theorem + Python oracle)" % len(info["all_splits"]),
            "all 16 allow-flag combinations on the default map x every fixed date set and on two more maps x five date sets",
            "all 731 dates of 2023 and 2024 for every generated split x every map (routing)",
            "every day 1970-01-01 .. 2100-12-31 (calendar: pandas vs CPython vs Model/SplitsCal.v)",
            "in Coq: all pairwise-consistent assignments of blocks to the six cells (completeness of the candidate list)"]
    ok_models = info is not None and run.ensure_models(["Model/SplitsRun.v", "Model/SplitsCal.v", "Model/SelCritF.v", "Model/CasesLib.v"])
    run.log("theorems re-checked: %s" % run.proof_ok)
    if info is not None:
        from opendsm.eemeter.models.daily.model import DailyModel
        from opendsm.eemeter import DailyReportingData
        from opendsm.eemeter.models.daily.utilities.ellipsoid_test import ellipsoid_split_filter
        if run.replay:
            replay(run, info, DailyModel, DailyReportingData, ellipsoid_split_filter)
        else:
            handle = launch_fits(run)
            t_terms, t_meta, t_prelude = stream_trim(run, info, DailyModel, ellipsoid_split_filter)
            run.log("trim stream done: %d cases" % len(t_terms))
            r_terms, r_meta = stream_route(run, info, DailyModel, DailyReportingData)
            run.log("route stream done: %d cases" % len(r_terms))
            b_terms, b_meta = stream_best_stub(run, info, DailyModel)
            run.log("best stream done: %d cases" % len(b_terms))
            c_terms, c_meta = stream_calendar(run)
            run.log("calendar stream done: %d cases" % len(c_terms))
            p_terms, p_meta, k_terms, k_meta = stream_criterion(run)
            run.log("criterion stream done: %d + %d cases" % (len(p_terms), len(k_terms)))
            fits = stream_fits(run, info, handle=handle)
            run.log("fits done: %d" % len(fits[0]))
            t_terms += [t for t, _ in fits[0]]; t_meta += [c for _, c in fits[0]]
            r_terms += [t for t, _ in fits[1]]; r_meta += [c for _, c in fits[1]]
            b_terms += [t for t, _ in fits[2]]; b_meta += [c for _, c in fits[2]]
            if ok_models:
                # the candidate list of the model is evaluated once per cases file (it is the same term in every case)
                t_prelude = CANDS_PRELUDE + t_prelude
                run_cases(run, "trim", t_terms, t_meta, "(check_trim_with cands)", t_prelude, shard=150)
                # both readings of a key text: character slices as _meter_segment does, and the structured parser
                run_cases(run, "route", r_terms, r_meta, "check_route_both", shard=60)
                run_cases(run, "best", b_terms, b_meta, "check_best", shard=250)
                run_cases(run, "calendar", c_terms, c_meta, "check_calendar", shard=4)
                run_cases(run, "crit_prim", p_terms, p_meta, "check_prim", shard=400)
                run_cases(run, "crit", k_terms, k_meta, "check_crit", shard=300)
                run_cases(run, "fit_crit", [t for t, _ in fits[3]], [c for _, c in fits[3]], "check_fit_crit", shard=100)
    run.finish()


def replay(run, info, DailyModel, DailyReportingData, ellipsoid_split_filter):
    """re-run exactly the case of a replay file on the current tree (oracle + model comparison)"""
    rep = json.load(open(run.replay))
    run.seed = rep.get("seed", run.seed)
    gen = rep.get("generator") or ""
    case = rep.get("case") or {}
    case.pop("date", None)
    if gen == "c13.generated" or rep.get("kind") != "concrete":
        return                                   # the regenerated list / the theorems were re-checked above
    if gen == "c13.fit":
        tt, rr, bb, kk = stream_fits(run, info, only=case)
        run_cases(run, "fit_crit", [t for t, _ in kk], [c for _, c in kk], "check_fit_crit", shard=100)
        run_cases(run, "trim", [t for t, _ in tt], [c for _, c in tt], "check_trim", shard=150)
        run_cases(run, "route", [t for t, _ in rr], [c for _, c in rr], "check_route", shard=60)
        run_cases(run, "best", [t for t, _ in bb], [c for _, c in bb], "check_best", shard=250)
    elif gen == "c13.route":
        terms, meta = stream_route(run, info, DailyModel, DailyReportingData, only=case)
        run_cases(run, "route", terms, meta, "check_route", shard=60)
    elif gen == "c13.best-stub":
        terms, meta = stream_best_stub(run, info, DailyModel, only=case)
        run_cases(run, "best", terms, meta, "check_best", shard=250)
    else:
        terms, meta, prelude = stream_trim(run, info, DailyModel, ellipsoid_split_filter, only=case)
        run_cases(run, "trim", terms, meta, "check_trim", prelude, shard=150)


if __name__ == "__main__":
    vlib.run_main(main, "C13")
