"""Translator for C19: reads, with `ast`, the aggregation stage of BillingModel.predict and BillingWeightedModel.predict
(opendsm/eemeter/models/billing/model.py, weighted_model.py) and writes coq/Generated/BillingAggGen.v:

  gen_arg_chain_<m> : arg_chain     the if/elif chain on `aggregation` (test, literal, selected resample rule)
  gen_arg_else_<m>  : err           what the final else raises
  gen_agg_table_<m> : agg_table     (column of df_res, reducer, only-when-present) of the pd.concat list, sorted by column

Fail-closed: every statement from `df_res = self._predict(df)` to `return df_res` must have one of the shapes below; anything
else raises TranslationError (the check reports a broken tie) and a stub with empty tables is written, so that the
obligations of Proofs/BillingAggGenProofs.v fail as well.  A reducer / keyword this translator does not know is emitted as
FOther (the table obligation then fails by name)."""
import ast
import os

import vlib

SOURCES = [("billing", "opendsm/eemeter/models/billing/model.py", "BillingModel"),
           ("weighted", "opendsm/eemeter/models/billing/weighted_model.py", "BillingWeightedModel")]
REDUCERS = {"sum": "FSum", "mean": "FMean", "first": "FFirst"}
ERRS = {"ValueError": "ValueErr", "AttributeError": "AttributeErr", "KeyError": "KeyErr"}


class TranslationError(Exception):
    pass


def _src(node):
    return ast.unparse(node)


def _is_name(node, name):
    return isinstance(node, ast.Name) and node.id == name


def _str_const(node):
    return node.value if isinstance(node, ast.Constant) and isinstance(node.value, str) else None


def _parse_test(test):
    """aggregation is None | aggregation.lower() == "lit" | aggregation == "lit" """
    if not (isinstance(test, ast.Compare) and len(test.ops) == 1 and len(test.comparators) == 1):
        raise TranslationError("unrecognised test on aggregation: " + _src(test))
    left, op, right = test.left, test.ops[0], test.comparators[0]
    if isinstance(op, ast.Is) and _is_name(left, "aggregation") and isinstance(right, ast.Constant) and right.value is None:
        return ("TIsNone", None)
    lit = _str_const(right)
    if isinstance(op, ast.Eq) and lit is not None:
        if _is_name(left, "aggregation"):
            return ("TEq", lit)
        if (isinstance(left, ast.Call) and not left.args and not left.keywords and isinstance(left.func, ast.Attribute)
                and left.func.attr == "lower" and _is_name(left.func.value, "aggregation")):
            return ("TLowerEq", lit)
    raise TranslationError("unrecognised test on aggregation: " + _src(test))


def _parse_agg_assign(body):
    """body must be exactly  agg = None  or  agg = "<rule>" """
    if len(body) == 1 and isinstance(body[0], ast.Assign) and len(body[0].targets) == 1 and _is_name(body[0].targets[0], "agg"):
        v = body[0].value
        if isinstance(v, ast.Constant) and v.value is None:
            return ("RNoAgg", None)
        if _str_const(v) is not None:
            return ("RFreq", v.value)
    raise TranslationError("branch of the aggregation chain is not a single `agg = ...`: " + "; ".join(_src(s) for s in body))


def _parse_chain(node):
    chain = []
    while True:
        chain.append((_parse_test(node.test), _parse_agg_assign(node.body)))
        if len(node.orelse) == 1 and isinstance(node.orelse[0], ast.If):
            node = node.orelse[0]
            continue
        els = node.orelse
        if (len(els) == 1 and isinstance(els[0], ast.Raise) and isinstance(els[0].exc, ast.Call)
                and isinstance(els[0].exc.func, ast.Name) and els[0].exc.func.id in ERRS):
            return chain, ERRS[els[0].exc.func.id]
        raise TranslationError("the aggregation chain does not end in `else: raise <Error>(...)`")


def _is_rss(args, body):
    """one-argument function whose value is the root of the sum of the squares of its argument:
    np.sqrt(np.sum(np.square(x))) | np.sqrt(np.sum(x ** 2)) | np.sqrt((x ** 2).sum()) | np.sqrt(np.square(x).sum())"""
    if not (len(args.args) == 1 and not args.defaults and not args.kwonlyargs and not args.vararg and not args.kwarg):
        return False
    x = args.args[0].arg

    def np_call(node, fn):
        return (isinstance(node, ast.Call) and len(node.args) == 1 and not node.keywords and isinstance(node.func, ast.Attribute)
                and node.func.attr == fn and _is_name(node.func.value, "np"))

    def square(node):
        if np_call(node, "square"):
            return _is_name(node.args[0], x)
        return (isinstance(node, ast.BinOp) and isinstance(node.op, ast.Pow) and _is_name(node.left, x)
                and isinstance(node.right, ast.Constant) and node.right.value == 2)

    def total(node):
        if np_call(node, "sum"):
            return square(node.args[0])
        return (isinstance(node, ast.Call) and not node.args and not node.keywords and isinstance(node.func, ast.Attribute)
                and node.func.attr == "sum" and square(node.func.value))
    return np_call(body, "sqrt") and total(body.args[0])


def _parse_reduction(value, named):
    """df_res["col"].resample(agg).<fn>()  |  ....apply(<named reducer>)   -> (col, reducer)"""
    if not (isinstance(value, ast.Call) and isinstance(value.func, ast.Attribute)):
        raise TranslationError("not a reduction: " + _src(value))
    fn, res = value.func.attr, value.func.value
    if not (isinstance(res, ast.Call) and isinstance(res.func, ast.Attribute) and res.func.attr == "resample"):
        raise TranslationError("not a resample reduction: " + _src(value))
    col_node = res.func.value
    if not (isinstance(col_node, ast.Subscript) and _is_name(col_node.value, "df_res") and _str_const(col_node.slice) is not None):
        raise TranslationError("the reduced series is not a column of df_res: " + _src(value))
    col = col_node.slice.value
    plain_bins = len(res.args) == 1 and _is_name(res.args[0], "agg") and not res.keywords
    if fn == "apply" and len(value.args) == 1 and not value.keywords and isinstance(value.args[0], ast.Name):
        red = named.get(value.args[0].id, "FOther")
    elif fn in REDUCERS and not value.args and not value.keywords:
        red = REDUCERS[fn]
    else:
        red = "FOther"
    return col, (red if plain_bins else "FOther")


def _parse_block(body):
    """statements under `if agg is not None:` -> [(column, reducer, optional)] in concat order"""
    named, assigned, table = {}, {}, None
    i = 0
    while i < len(body):
        st = body[i]
        if table is not None:
            raise TranslationError("statement after the pd.concat of the aggregated columns: " + _src(st))
        if isinstance(st, ast.Assign) and len(st.targets) == 1 and isinstance(st.targets[0], ast.Name):
            tgt, v = st.targets[0].id, st.value
            if isinstance(v, ast.Lambda):
                named[tgt] = "FRss" if _is_rss(v.args, v.body) else "FOther"
            elif isinstance(v, ast.Constant) and v.value is None:
                # name = None ; if "<col>" in df_res.columns: name = <reduction of that column>
                nxt = body[i + 1] if i + 1 < len(body) else None
                ok = (isinstance(nxt, ast.If) and not nxt.orelse and len(nxt.body) == 1 and isinstance(nxt.test, ast.Compare)
                      and len(nxt.test.ops) == 1 and isinstance(nxt.test.ops[0], ast.In) and _str_const(nxt.test.left) is not None
                      and _src(nxt.test.comparators[0]) == "df_res.columns"
                      and isinstance(nxt.body[0], ast.Assign) and len(nxt.body[0].targets) == 1 and _is_name(nxt.body[0].targets[0], tgt))
                if not ok:
                    raise TranslationError("`%s = None` is not followed by the guarded reduction of that column" % tgt)
                col, red = _parse_reduction(nxt.body[0].value, named)
                if col != nxt.test.left.value:
                    raise TranslationError("the guard tests column %r but %r is reduced" % (nxt.test.left.value, col))
                assigned[tgt] = (col, red, True)
                i += 1
            elif tgt == "df_res":
                # df_res = pd.concat([names...], axis=1)
                ok = (isinstance(v, ast.Call) and _src(v.func) == "pd.concat" and len(v.args) == 1 and isinstance(v.args[0], ast.List)
                      and len(v.keywords) == 1 and v.keywords[0].arg == "axis" and isinstance(v.keywords[0].value, ast.Constant)
                      and v.keywords[0].value.value == 1 and all(isinstance(e, ast.Name) for e in v.args[0].elts))
                if not ok:
                    raise TranslationError("df_res is not rebuilt by pd.concat([<names>], axis=1): " + _src(st)[:120])
                names = [e.id for e in v.args[0].elts]
                missing = [n for n in names if n not in assigned]
                if missing or len(set(names)) != len(names):
                    raise TranslationError("pd.concat lists names that are not aggregated columns (or twice): %s" % missing)
                unused = [n for n in assigned if n not in names]
                if unused:
                    raise TranslationError("aggregated but not returned: %s" % unused)
                table = [assigned[n] for n in names]
            else:
                col, red = _parse_reduction(v, named)
                assigned[tgt] = (col, red, False)
        elif isinstance(st, ast.FunctionDef) and len(st.body) == 1 and isinstance(st.body[0], ast.Return) and not st.decorator_list:
            named[st.name] = "FRss" if _is_rss(st.args, st.body[0].value) else "FOther"
        else:
            raise TranslationError("unrecognised statement in the aggregation block: " + _src(st)[:160])
        i += 1
    if table is None:
        raise TranslationError("no pd.concat of the aggregated columns")
    return table


def translate_one(path, cls_name):
    tree = ast.parse(open(path).read())
    cls = next((n for n in tree.body if isinstance(n, ast.ClassDef) and n.name == cls_name), None)
    if cls is None:
        raise TranslationError("class %s not found" % cls_name)
    fn = next((n for n in cls.body if isinstance(n, ast.FunctionDef) and n.name == "predict"), None)
    if fn is None:
        raise TranslationError("%s.predict not found" % cls_name)
    body = fn.body
    start = next((i for i, st in enumerate(body) if isinstance(st, ast.Assign) and len(st.targets) == 1
                  and _is_name(st.targets[0], "df_res")), None)
    if start is None or _src(body[start].value) != "self._predict(df)":
        raise TranslationError("`df_res = self._predict(df)` not found at the top level of predict")
    rest = body[start + 1:]
    if len(rest) != 3:
        raise TranslationError("expected exactly: the aggregation chain, `if agg is not None:`, `return df_res` after _predict; got %d statements"
                               % len(rest))
    chain_if, block_if, ret = rest
    if not isinstance(chain_if, ast.If):
        raise TranslationError("the statement after _predict is not the aggregation chain")
    chain, else_err = _parse_chain(chain_if)
    if not (isinstance(block_if, ast.If) and _src(block_if.test) == "agg is not None" and not block_if.orelse):
        raise TranslationError("`if agg is not None:` (without else) not found after the chain")
    table = _parse_block(block_if.body)
    if not (isinstance(ret, ast.Return) and _is_name(ret.value, "df_res")):
        raise TranslationError("predict does not end in `return df_res`")
    return {"chain": chain, "else": else_err, "table": table}


def _coq(tag, t):
    chain = "; ".join("(%s, %s)" % (k if lit is None else '%s %s' % (k, vlib.coq_string(lit)),
                                    r if rule is None else '%s %s' % (r, vlib.coq_string(rule)))
                      for (k, lit), (r, rule) in t["chain"])
    # sorted by column name, the model's nine columns only: neither the order of the returned columns nor an additional
    # aggregated column is part of the property (additional ones are listed in the evidence)
    table = "; ".join("(%s, %s, %s)" % (vlib.coq_string(c), red, vlib.coq_bool(opt))
                      for c, red, opt in sorted(t["table"]) if c in MODEL_COLUMNS)
    return ("Definition gen_arg_chain_%s : arg_chain := [%s].\nDefinition gen_arg_else_%s : err := %s.\n"
            "Definition gen_agg_table_%s : agg_table := [%s].\n" % (tag, chain, tag, t["else"], tag, table))


def translate():
    """-> (coq text, dict of what was read, error or None)"""
    head = ("(* GENERATED on every run by harness/translate_billing_agg.py from BillingModel.predict and\n"
            "   BillingWeightedModel.predict - do not edit. *)\nFrom Coq Require Import ZArith String List.\n"
            "From V Require Import Model.BillingAgg.\nImport ListNotations.\n")
    out, text, err = {}, head, None
    for tag, rel, cls in SOURCES:
        try:
            out[tag] = translate_one(os.path.join(vlib.repo_root(), rel), cls)
            text += _coq(tag, out[tag])
        except (TranslationError, SyntaxError, OSError) as e:
            err = "%s (%s): %s" % (cls, rel, e)
            text += "(* NOT TRANSLATED: %s *)\n" % str(e).replace("*)", "* )")
            text += _coq(tag, {"chain": [], "else": "ValueErr", "table": []})
    return text, out, err


MODEL = {"chain": [(("TIsNone", None), ("RNoAgg", None)), (("TLowerEq", "none"), ("RNoAgg", None)),
                   (("TEq", "monthly"), ("RFreq", "MS")), (("TEq", "bimonthly"), ("RFreq", "2MS"))], "else": "ValueErr",
         "table": [("season", "FFirst", False), ("temperature", "FMean", False), ("observed", "FSum", True),
                   ("predicted", "FSum", False), ("predicted_unc", "FRss", False), ("heating_load", "FSum", False),
                   ("cooling_load", "FSum", False), ("model_split", "FFirst", False), ("model_type", "FFirst", False)]}


MODEL_COLUMNS = sorted(c for c, _, _ in MODEL["table"])


def unrecognised(out, err):
    """reason why the source's tables could not be read in full (a shape or a reducer this translator does not know), or None"""
    if err:
        return err
    for tag, t in out.items():
        other = [c for c, red, _ in t["table"] if red == "FOther" and c in MODEL_COLUMNS]
        if other:
            return "%s: the reduction of column(s) %s is not one this translator knows (sum / mean / first / root-sum-square, plain bins)" % (tag, other)
    return None


def generate(run, fallback=False):
    """fallback=True: the source could not be read; write the model's own tables (marked) so that the rest of the development
    builds - the C19_source_* obligations are then NOT a tie to the source, and the check says so"""
    text, out, err = translate()
    if fallback:
        text = text.split("Import ListNotations.\n")[0] + "Import ListNotations.\n"
        text += "(* FALLBACK: the source was not of a shape the translator reads; these are the MODEL's tables, not the source's *)\n"
        for tag, _, _ in SOURCES:
            text += _coq(tag, MODEL)
    if run is not None:
        run.write_generated("Generated/BillingAggGen.v", text)
    else:
        p = os.path.join(vlib.COQ, "Generated", "BillingAggGen.v")
        if not os.path.exists(p) or open(p).read() != text:
            open(p, "w").write(text)
    return out, err


if __name__ == "__main__":
    o, e = generate(None)
    print(o, e)
