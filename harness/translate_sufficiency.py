"""Translator for C10: regenerates coq/Generated/SufficiencyGen.v from the source of the sufficiency criteria.

Only *declarative* content is translated (python `ast`, nothing is executed):
  * the sequences of `self._check_*()` calls in check_sufficiency_baseline / check_sufficiency_reporting of the
    Daily / Billing / Hourly criteria classes,
  * the numeric defaults min_fraction_daily_coverage, min_fraction_hourly_temperature_coverage_per_period,
    MAX_BASELINE_LENGTH and the expression for MIN_BASELINE_LENGTH (ceil|floor|round(<float> * MAX_BASELINE_LENGTH)),
  * which keyword arguments the six data classes pass to the criteria class and which method they call,
  * the list the billing class hands to clean_billing_daily_data for off-cycle reads (.disqualification or .warnings),
  * whether the rows that carry data ignore the usage column of reporting data (_complete_rows), whether the valid-day
    counts are rounded before truncation (_whole_days), whether the baseline classes add an all-NaN usage column.
Fail-closed: anything not recognised raises TranslateError (reported by the check as a broken tie)."""
import ast
import os

import vlib

CHECKS = {
    "_check_no_data": "CNoData",
    "_check_negative_meter_values": "CNegative",
    "_check_baseline_length_daily_billing_model": "CLength",
    "_check_valid_days_percentage": "CValidDays",
    "_check_valid_meter_readings_percentage": "CValidMeter",
    "_check_valid_temperature_values_percentage": "CValidTemp",
    "_check_monthly_temperature_values_percentage": "CMonthlyTemp",
    "_check_monthly_meter_readings_percentage": "CMonthlyMeter",
    "_check_extreme_values": "CExtreme",
    "_check_monthly_ghi_percentage": "CMonthlyGhi",
    "_check_estimated_meter_values": "CEstimated",
}
CRITERIA = {"Daily": "DailySufficiencyCriteria", "Billing": "BillingSufficiencyCriteria",
            "Hourly": "HourlySufficiencyCriteria"}
DATA = {
    "Daily": ("opendsm/eemeter/models/daily/data.py", "DailyBaselineData", "DailyReportingData"),
    "Billing": ("opendsm/eemeter/models/billing/data.py", "BillingBaselineData", "BillingReportingData"),
    "Hourly": ("opendsm/eemeter/models/hourly/data.py", "HourlyBaselineData", "HourlyReportingData"),
}
SC = "opendsm/eemeter/common/sufficiency_criteria.py"


class TranslateError(Exception):
    pass


def _parse(rel):
    path = os.path.join(vlib.repo_root(), rel)
    return ast.parse(open(path).read(), filename=path)


def _class(tree, name):
    for n in tree.body:
        if isinstance(n, ast.ClassDef) and n.name == name:
            return n
    raise TranslateError("class %s not found" % name)


def _method(cls, name):
    for n in cls.body:
        if isinstance(n, ast.FunctionDef) and n.name == name:
            return n
    raise TranslateError("method %s.%s not found" % (cls.name, name))


def _sequence(fn):
    out = []
    for st in fn.body:
        if isinstance(st, ast.Expr) and isinstance(st.value, ast.Constant) and isinstance(st.value.value, str):
            continue  # docstring
        ok = (isinstance(st, ast.Expr) and isinstance(st.value, ast.Call) and not st.value.args
              and not st.value.keywords and isinstance(st.value.func, ast.Attribute)
              and isinstance(st.value.func.value, ast.Name) and st.value.func.value.id == "self")
        if not ok:
            raise TranslateError("%s: statement at line %d is not a plain self._check_*() call" % (fn.name, st.lineno))
        name = st.value.func.attr
        if name not in CHECKS:
            raise TranslateError("%s: unknown check %s" % (fn.name, name))
        out.append(CHECKS[name])
    return out


def _field_default(cls, name):
    for n in cls.body:
        if isinstance(n, ast.AnnAssign) and isinstance(n.target, ast.Name) and n.target.id == name:
            if isinstance(n.value, ast.Constant) and isinstance(n.value.value, (int, float)):
                return n.value.value
            raise TranslateError("default of %s is not a numeric literal" % name)
    raise TranslateError("field %s not found" % name)


def _length_constants(cls):
    fn = _method(cls, "_check_baseline_length_daily_billing_model")
    mx = None
    mn = None
    for st in fn.body:
        if isinstance(st, ast.Assign) and len(st.targets) == 1 and isinstance(st.targets[0], ast.Name):
            t = st.targets[0].id
            if t == "MAX_BASELINE_LENGTH":
                if not (isinstance(st.value, ast.Constant) and isinstance(st.value.value, int)):
                    raise TranslateError("MAX_BASELINE_LENGTH is not an integer literal")
                mx = st.value.value
            if t == "MIN_BASELINE_LENGTH":
                v = st.value
                ok = (isinstance(v, ast.Call) and isinstance(v.func, ast.Name) and v.func.id in ("ceil", "floor", "round")
                      and len(v.args) == 1 and isinstance(v.args[0], ast.BinOp) and isinstance(v.args[0].op, ast.Mult)
                      and isinstance(v.args[0].left, ast.Constant) and isinstance(v.args[0].left.value, float)
                      and isinstance(v.args[0].right, ast.Name) and v.args[0].right.id == "MAX_BASELINE_LENGTH")
                if not ok:
                    raise TranslateError("MIN_BASELINE_LENGTH is not ceil|floor|round(<float> * MAX_BASELINE_LENGTH)")
                mn = (v.func.id, v.args[0].left.value)
    if mx is None or mn is None:
        raise TranslateError("baseline length constants not found")
    return mx, mn


def _criteria_call(cls, crit_name):
    """the XSufficiencyCriteria(...) call and the check_sufficiency_* method called in _check_data_sufficiency"""
    fn = _method(cls, "_check_data_sufficiency")
    kw = None
    called = None
    for n in ast.walk(fn):
        if isinstance(n, ast.Call) and isinstance(n.func, ast.Name) and n.func.id == crit_name:
            if kw is not None:
                raise TranslateError("%s: two criteria constructions" % cls.name)
            kw = {}
            for k in n.keywords:
                if k.arg is None:
                    raise TranslateError("%s: **kwargs in the criteria call" % cls.name)
                kw[k.arg] = k.value
        if isinstance(n, ast.Call) and isinstance(n.func, ast.Attribute) and n.func.attr.startswith("check_sufficiency_"):
            if called is not None:
                raise TranslateError("%s: two check_sufficiency calls" % cls.name)
            called = n.func.attr
    if kw is None or called is None:
        raise TranslateError("%s: criteria call not found" % cls.name)
    rep = False
    if "is_reporting_data" in kw:
        v = kw["is_reporting_data"]
        if not (isinstance(v, ast.Constant) and isinstance(v.value, bool)):
            raise TranslateError("%s: is_reporting_data is not a literal" % cls.name)
        rep = v.value
    elec = "default"
    if "is_electricity_data" in kw:
        v = kw["is_electricity_data"]
        if not (isinstance(v, ast.Attribute) and v.attr == "is_electricity_data"):
            raise TranslateError("%s: is_electricity_data is not self.is_electricity_data" % cls.name)
        elec = "self"
    extra = set(kw) - {"data", "is_reporting_data", "is_electricity_data"}
    if extra:
        raise TranslateError("%s: unexpected criteria arguments %s" % (cls.name, sorted(extra)))
    return rep, elec, called


def _offcycle_target(tree):
    cls = _class(tree, "_BillingData")
    fn = _method(cls, "_compute_meter_value_df")
    for n in ast.walk(fn):
        if isinstance(n, ast.Call) and isinstance(n.func, ast.Name) and n.func.id == "clean_billing_daily_data":
            if len(n.args) != 3 or not isinstance(n.args[2], ast.Attribute) or n.args[2].attr not in (
                    "disqualification", "warnings"):
                raise TranslateError("clean_billing_daily_data: third argument not recognised")
            return n.args[2].attr
    raise TranslateError("clean_billing_daily_data call not found in _BillingData._compute_meter_value_df")


def _uses_complete_rows(fn):
    """'helper' when the method takes the rows that carry data from self._complete_rows(), 'dropna' when from
    self.data.dropna() directly"""
    helper = dropna = False
    for n in ast.walk(fn):
        if isinstance(n, ast.Call) and isinstance(n.func, ast.Attribute):
            if n.func.attr == "_complete_rows" and isinstance(n.func.value, ast.Name) and n.func.value.id == "self":
                helper = True
            if n.func.attr == "dropna" and isinstance(n.func.value, ast.Attribute) and n.func.value.attr == "data":
                dropna = True
    if helper == dropna:
        raise TranslateError("%s: rows that carry data not recognised" % fn.name)
    return "helper" if helper else "dropna"


def _span_ignores_usage(base):
    """True when _check_no_data and _compute_n_days_total take their rows from _complete_rows() and that helper drops
    the observed column for reporting data before dropna(); False when both use self.data.dropna()"""
    kinds = {_uses_complete_rows(_method(base, m)) for m in ("_check_no_data", "_compute_n_days_total")}
    if len(kinds) != 1:
        raise TranslateError("_check_no_data and _compute_n_days_total take their rows differently")
    if kinds == {"dropna"}:
        return False
    fn = _method(base, "_complete_rows")
    src = ast.unparse(fn)
    want = ("if self.is_reporting_data and 'observed' in data.columns:", "data = data.drop(columns=['observed'])",
            "return data.dropna()", "data = self.data")
    if not all(w in src for w in want):
        raise TranslateError("_complete_rows is not the recognised form")
    return True


def _day_sum_rounded(tree, base):
    """True when the three valid-day counts are _whole_days(<sum>) with _whole_days(x) = int(round(x, k)), False when
    they are int(<sum>)"""
    fn = _method(base, "_compute_valid_meter_temperature_days")
    calls = []
    for n in ast.walk(fn):
        if isinstance(n, ast.Call) and isinstance(n.func, ast.Name) and n.func.id in ("int", "_whole_days") \
                and len(n.args) == 1 and ".sum()" in ast.unparse(n.args[0]):
            calls.append(n.func.id)
    if len(calls) != 3 or len(set(calls)) != 1:
        raise TranslateError("valid-day counts not recognised: %s" % calls)
    if calls[0] == "int":
        return False
    for n in tree.body:
        if isinstance(n, ast.FunctionDef) and n.name == "_whole_days":
            ret = [x for x in n.body if isinstance(x, ast.Return)]
            arg = n.args.args[0].arg
            if len(ret) == 1 and ast.unparse(ret[0].value).replace(" ", "") in (
                    "int(round(%s,%d))" % (arg, k) for k in range(3, 10)):
                return True
    raise TranslateError("_whole_days is not int(round(x, k))")


def _baseline_adds_usage(cls):
    """the baseline class hands a frame with an (all-NaN) observed column to the criteria class when the column was dropped"""
    src = ast.unparse(_method(cls, "_check_data_sufficiency"))
    return "if 'observed' not in sufficiency_df.columns:" in src and "sufficiency_df.assign(observed=np.nan)" in src


def _hourly_requires_usage(tree):
    """_HourlyData._set_data rejects a frame without an observed column (so the hourly baseline frame always has it)"""
    src = ast.unparse(_method(_class(tree, "_HourlyData"), "_set_data"))
    return "expected_columns = ['observed', 'temperature']" in src and "issubset(set(df.columns))" in src


def _billing_month_min_count(tree):
    """_BillingData._compute_meter_value_df: meter_series.resample("MS").sum(min_count=1) -> True (a calendar month
    without any value has no total), .sum() -> False (it sums to 0); anything else is not recognised"""
    fn = _method(_class(tree, "_BillingData"), "_compute_meter_value_df")
    found = []
    for n in ast.walk(fn):
        if isinstance(n, ast.Call) and isinstance(n.func, ast.Attribute) and n.func.attr == "sum" \
                and isinstance(n.func.value, ast.Call) and isinstance(n.func.value.func, ast.Attribute) \
                and n.func.value.func.attr == "resample":
            rs = n.func.value
            if not (len(rs.args) == 1 and isinstance(rs.args[0], ast.Constant) and rs.args[0].value == "MS" and not rs.keywords):
                raise TranslateError("billing: monthly resample is not resample('MS')")
            if n.args:
                raise TranslateError("billing: positional arguments in the monthly sum")
            kw = {k.arg: k.value for k in n.keywords}
            if not kw:
                found.append(False)
            elif set(kw) == {"min_count"} and isinstance(kw["min_count"], ast.Constant) and kw["min_count"].value == 1:
                found.append(True)
            else:
                raise TranslateError("billing: monthly sum with unrecognised arguments %s" % sorted(kw))
    if len(found) != 1:
        raise TranslateError("billing: %d monthly sums of the meter rows found" % len(found))
    return found[0]


def extract():
    tree = _parse(SC)
    base = _class(tree, "SufficiencyCriteria")
    out = {"baseline": {}, "reporting": {}, "flags": {}}
    for fam, cname in CRITERIA.items():
        cls = _class(tree, cname)
        out["baseline"][fam] = _sequence(_method(cls, "check_sufficiency_baseline"))
        out["reporting"][fam] = _sequence(_method(cls, "check_sufficiency_reporting"))
    out["min_fraction_daily_coverage"] = float(_field_default(base, "min_fraction_daily_coverage"))
    out["min_fraction_hourly_temperature_coverage_per_period"] = float(
        _field_default(base, "min_fraction_hourly_temperature_coverage_per_period"))
    mx, (rounding, factor) = _length_constants(base)
    out["span_ignores_usage"] = _span_ignores_usage(base)
    out["day_sum_rounded"] = _day_sum_rounded(tree, base)
    out["max_baseline_length"] = mx
    out["min_length_rounding"] = rounding
    out["min_length_factor"] = factor
    for fam, (rel, bname, rname) in DATA.items():
        t = _parse(rel)
        brep, belec, bcall = _criteria_call(_class(t, bname), CRITERIA[fam])
        rrep, relec, rcall = _criteria_call(_class(t, rname), CRITERIA[fam])
        if bcall != "check_sufficiency_baseline" or rcall != "check_sufficiency_reporting":
            raise TranslateError("%s data classes call %s / %s" % (fam, bcall, rcall))
        if brep:
            raise TranslateError("%s baseline class passes is_reporting_data=True" % fam)
        if belec != "self":
            raise TranslateError("%s baseline class does not pass is_electricity_data" % fam)
        out["flags"][fam] = {"reporting_flag": rrep, "reporting_electric": relec,
                             "baseline_adds_usage": (_hourly_requires_usage(t) if fam == "Hourly" else
                                                     _baseline_adds_usage(_class(t, bname)))}
    out["offcycle_target"] = _offcycle_target(_parse(DATA["Billing"][0]))
    out["billing_month_min_count"] = _billing_month_min_count(_parse(DATA["Billing"][0]))
    # how _set_data recognises a UTC index (used by the harness for the warning it expects of the code as it is; not
    # fail-closed: an unrecognised form falls back to the name rule and the correspondence decides)
    rules = set()
    for rel, cname in ((DATA["Daily"][0], "_DailyData"), (DATA["Hourly"][0], "_HourlyData")):
        src = ast.unparse(_method(_class(_parse(rel), cname), "_set_data"))
        rules.add("offset_and_name" if "index_is_utc(" in src else "name")
    out["utc_rule"] = rules.pop() if len(rules) == 1 else "name"
    return out


def render(x):
    def seqs(d):
        return "  match f with\n" + "\n".join(
            "  | %s => [%s]" % (fam, "; ".join(d[fam])) for fam in ("Daily", "Billing", "Hourly")) + "\n  end"
    rnd = {"ceil": "RCeil", "floor": "RFloor", "round": "RNearest"}[x["min_length_rounding"]]
    lines = [
        "(* GENERATED by harness/translate_sufficiency.py from %s and the three data.py -- do not edit. *)" % SC,
        "From Coq Require Import ZArith List Bool PrimFloat.",
        "From V Require Import Model.Sufficiency.",
        "Import ListNotations.",
        "Open Scope Z_scope.",
        "",
        "Inductive rounding := RCeil | RFloor | RNearest.",
        "",
        "Definition gen_baseline_seq (f : family) : list check :=\n%s." % seqs(x["baseline"]),
        "Definition gen_reporting_seq (f : family) : list check :=\n%s." % seqs(x["reporting"]),
        "",
        "Definition gen_min_fraction_daily_coverage : float := %s." % vlib.fhex(x["min_fraction_daily_coverage"]),
        "Definition gen_min_fraction_hourly_temperature_coverage : float := %s." % vlib.fhex(
            x["min_fraction_hourly_temperature_coverage_per_period"]),
        "Definition gen_max_baseline_length : Z := %s." % vlib.zlit(x["max_baseline_length"]),
        "Definition gen_min_length_factor : float := %s." % vlib.fhex(x["min_length_factor"]),
        "Definition gen_min_length_rounding : rounding := %s." % rnd,
        "",
        "(* does the reporting data class pass is_reporting_data=True to the criteria class *)",
        "Definition gen_reporting_flag (f : family) : bool :=\n  match f with\n%s\n  end." % "\n".join(
            "  | %s => %s" % (fam, vlib.coq_bool(x["flags"][fam]["reporting_flag"])) for fam in ("Daily", "Billing", "Hourly")),
        "(* billing: off-cycle reads are appended to .disqualification (true) or to .warnings (false) *)",
        "Definition gen_offcycle_dq : bool := %s." % vlib.coq_bool(x["offcycle_target"] == "disqualification"),
        "(* billing classes fed with daily / hourly rows: the monthly total is sum(min_count=1) (true) or sum() (false) *)",
        "Definition gen_billing_month_min_count : bool := %s." % vlib.coq_bool(x["billing_month_min_count"]),
        "(* the rows that carry data (no_data, n_days_total) ignore the usage column of reporting data *)",
        "Definition gen_span_ignores_usage : bool := %s." % vlib.coq_bool(x["span_ignores_usage"]),
        "(* the valid-day counts are int(round(sum, k)) (true) or int(sum) (false) *)",
        "Definition gen_day_sum_rounded : bool := %s." % vlib.coq_bool(x["day_sum_rounded"]),
        "(* the baseline class always hands a frame with a usage column to the criteria class *)",
        "Definition gen_baseline_adds_usage (f : family) : bool :=\n  match f with\n%s\n  end." % "\n".join(
            "  | %s => %s" % (fam, vlib.coq_bool(x["flags"][fam]["baseline_adds_usage"])) for fam in ("Daily", "Billing", "Hourly")),
        "",
    ]
    return "\n".join(lines)


def generate(run=None):
    x = extract()
    text = render(x)
    if run is not None:
        run.write_generated("Generated/SufficiencyGen.v", text)
    else:
        p = os.path.join(vlib.COQ, "Generated", "SufficiencyGen.v")
        os.makedirs(os.path.dirname(p), exist_ok=True)
        old = open(p).read() if os.path.exists(p) else None
        if old != text:
            open(p, "w").write(text)
    return x


if __name__ == "__main__":
    import json
    print(json.dumps(generate(None), indent=1))
