"""Shared pieces of the C08 / C09 correspondences: number encoding for the case files (primitive integers,
run-length lists; decoded by coq/Model/ResampleRun.v), pandas <-> UTC-minute conversions, and the worker-side recorder
that lets the implementation runs happen in a process pool while the parent owns the vlib.Run."""
import re
from fractions import Fraction as F

import numpy as np
import pandas as pd

import vlib
from vlib import coq_list

RTOL = F(1, 10**9)


def fclose(a, b, tol=RTOL):
    """|a-b| <= tol*max(1,|a|,|b|) on Fractions/None"""
    if a is None or b is None:
        return a is None and b is None
    return abs(a - b) <= tol * max(1, abs(a), abs(b))


def minutes_of(idx):
    """DatetimeIndex -> list of UTC minutes"""
    i = idx.tz_convert("UTC") if idx.tz is not None else idx
    return [int(x) // 60 for x in i.as_unit("s").asi8]


def tz_index(mins, z):
    return pd.DatetimeIndex(pd.to_datetime([m * 60 for m in mins], unit="s", utc=True)).tz_convert(z)


def series_of(rs, z, name=None):
    """rs: list of (minute, Fraction|None)"""
    return pd.Series([np.nan if v is None else float(v) for _, v in rs], index=tz_index([t for t, _ in rs], z),
                     dtype=float, name=name)


def fr(x):
    """float cell -> exact Fraction / None"""
    x = float(x)
    return None if x != x else F(x)


def ilit(n):
    """primitive 63-bit integer literal (uint63_scope is open in the case files)"""
    n = int(n)
    if not 0 <= n < 2 ** 62:
        raise ValueError("integer out of the uint63 literal range: %d" % n)
    return str(n)


def qvlit(x):
    """Fraction | None -> qv term of Model/ResampleRun.v"""
    if x is None:
        return "QN"
    x = F(x)
    n, d = x.numerator, x.denominator
    if d < 2 ** 62 and abs(n) < 2 ** 62:
        return "(QV %d %d)" % (n, d) if n >= 0 else "(QM %d %d)" % (-n, d)
    return "(QB (%d)%%Z %d%%positive)" % (n, d)


def coq_readings(rs):
    return "(rds %s)" % coq_list(["(%s, %s)" % (ilit(t), qvlit(v)) for t, v in rs])


def rle(xs):
    out = []
    for x in xs:
        if out and out[-1][1] == x:
            out[-1][0] += 1
        else:
            out.append([1, x])
    return out


def coq_zs(bs):
    """boundary list -> (bounds b0 [(count, day length); ...])"""
    lens = [b - a for a, b in zip(bs, bs[1:])]
    return "(bounds %s %s)" % (ilit(bs[0]), coq_list(["(%d, %d)" % (c, L) for c, L in rle(lens)]))


def coq_runs(vals):
    return coq_list(["(%d, %s)" % (c, qvlit(v)) for c, v in rle(vals)])


def label_check(stamps, bs):
    """the implementation's row labels must be consecutive local midnights: returns the first label or None"""
    if not stamps:
        return bs[0]
    if stamps[0] not in bs:
        return None
    j = bs.index(stamps[0])
    return stamps[0] if list(bs[j:j + len(stamps)]) == list(stamps) else None


class Rec:
    """worker-side stand-in for (Run, Streams): records what a case did; the parent replays the events"""

    def __init__(self, seed):
        import random
        self.rng = random.Random(seed)
        self.events = []

    # --- Run
    def count(self, key, nontrivial=True):
        self.events.append(("count", key, nontrivial))

    def dist(self, k, v):
        self.events.append(("dist", k, v))

    def sample(self, obj):
        self.events.append(("sample", obj))

    def violation(self, sig, what, case=None, observation=None, generator=None):
        self.events.append(("violation", sig, what, case, observation, generator))

    def extra(self, k, v):
        self.events.append(("extra", k, v))

    # --- Streams
    def define(self, text):
        return text          # inlined: every shard parses only its own cases

    def add(self, stream, term, info):
        self.events.append(("add", stream, term, info))


class Streams:
    """parent side: replays the workers' events on the Run and evaluates the collected cases in Coq"""

    def __init__(self, run, imports, case_type, check_fn):
        self.run = run
        self.imports = imports
        self.case_type = case_type
        self.check_fn = check_fn
        self.items = {}     # stream -> list of (term, info)

    def replay(self, events):
        run = self.run
        for e in events:
            k = e[0]
            if k == "count":
                run.count(e[1], e[2])
            elif k == "dist":
                run.dist(e[1], e[2])
            elif k == "sample":
                run.sample(e[1])
            elif k == "violation":
                run.violation(e[1], e[2], case=e[3], observation=e[4], generator=e[5])
            elif k == "extra":
                run.cov.setdefault("refuted_witnesses", {})[e[1]] = e[2]
            elif k == "add":
                self.items.setdefault(e[1], []).append((e[2], e[3]))
            elif k == "crash":
                raise RuntimeError("harness crashed on a case:\n%s\ncase: %s" % (e[1], str(e[2])[:600]))

    def flush(self):
        """all streams at once (each stream's shards are separate coqc processes)"""
        import time as _t
        from concurrent.futures import ThreadPoolExecutor
        run = self.run

        def one(stream):
            lst = self.items[stream]
            shard = max(1, min(60, len(lst) // 6 + 1))
            t_s = _t.time()
            bad = run.coq_cases(stream, self.imports, "", [t for t, _ in lst], self.check_fn[stream], shard=shard,
                                case_type=self.case_type[stream])
            run.log("stream %s: %d cases, %.1fs" % (stream, len(lst), _t.time() - t_s))
            return stream, bad
        with ThreadPoolExecutor(max_workers=4 if run.tier == "quick" else 1) as ex:   # thorough: 12 coqc at a time
            results = list(ex.map(one, list(self.items)))
        for stream, bad in results:
            lst = self.items[stream]
            if bad is None:
                run.proof_ok = False
                continue
            for i in bad[:6]:
                term, info = lst[i]
                model = run.coq_eval(self.imports, "", info["model_term"]) if info.get("model_term") else None
                run.corr_failures.append({"stream": stream, "case": info["case"], "impl": info.get("impl"),
                                          "model": model})
            for i in bad[6:]:
                run.corr_failures.append({"stream": stream, "case": lst[i][1]["case"]})
