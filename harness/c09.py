"""C09 — daily temperature is the local-day mean of the hourly temperatures.
Model: coq/Model/TempAgg.v (+ Model/Resample.v); theorems: coq/Properties/C09.v; tie: correspondence (this file).

Streams (implementation call -> model function):
  hourly      Daily{Baseline,Reporting}Data / BillingBaselineData on an hourly frame (df and from_series, temperature
              feed in the meter's zone or at another UTC offset): df['temperature'] and the temperature_not_null /
              temperature_null columns handed to the sufficiency test          -> hourly_path
  subhourly   the same classes on 30- and 15-minute frames                      -> subhourly_path
  asfreqinst  as_freq(series, "D", series_type="instantaneous", include_coverage=True)   -> as_freq_inst
The oracle (functions oracle_*) is the property text in exact arithmetic (fractions); it never looks at the model.
What is observed of the classes: the frame handed to the constructor (from_series builds it; that step is observed, not
modelled), data.df (its index is the meter index: one row per meter day) and the frame given to _check_data_sufficiency
(captured through a subclass; no change to /repo)."""
import bisect
import datetime as dt
import json
import logging
import os
import warnings
from fractions import Fraction as F

import numpy as np
import pandas as pd

import tzdays
import vlib
from corrlib import (Rec, Streams, fclose, minutes_of, tz_index, fr, ilit, qvlit, coq_readings, coq_zs, label_check)
from vlib import Run, coq_list, coq_bool

warnings.simplefilter("ignore")
logging.disable(logging.CRITICAL)

IMPORTS = ("From Coq Require Import QArith Uint63.\n"
           "From V Require Import Model.Resample Model.ResampleRun Model.TempAgg Model.TempAggRun.\n"
           "Open Scope uint63_scope.")
CASE_TYPE = {
    "hourly": "bool * bool * option int * list int * list frow * tobs",
    "subhourly": "bool * bool * bool * list frow * list Z * int * list (qv * qv * qv)",
    "asfreqinst": "list reading * list Z * int * list (qv * qv)",
}
CHECK_FN = {"hourly": "check_hourly", "subhourly": "check_subhourly", "asfreqinst": "check_asfreq_inst"}

# zones whose DST change is at local midnight are left to C08 (the METER side of the classes raises there, C08-F5)
ZONES = [z for z in tzdays.ZONES if z not in tzdays.MIDNIGHT_DST]
FIXED = ["Etc/GMT+12", "Etc/GMT+5", "Etc/GMT-1", "Etc/GMT-8", "Etc/GMT-14", "UTC", "Asia/Kolkata", "Asia/Kathmandu"]


# =====================================================================================================
# generators
# =====================================================================================================

def pick_days(rng, z, nd):
    ch = tzdays.dst_changes_cached(z)
    if ch and rng.random() < 0.75:
        anchor, on_dst = rng.choice(ch), True
    else:
        anchor, on_dst = tzdays.date_to_minute_utc(rng.randrange(2013, 2026), rng.randrange(1, 13), rng.randrange(1, 28)), False
    d0 = tzdays.local_date(anchor, z) - dt.timedelta(days=rng.randrange(0, nd))
    b = [tzdays.day_start(d0 + dt.timedelta(days=i), z) for i in range(nd + 1)]
    return b, on_dst


def nan_patterns(rng, slots, b, t0, step, per_day_classes=True):
    """mark temperature slots NaN; returns the list of pattern names"""
    n = len(slots)
    names = []

    def idx_of(t):
        return (t - t0) // step
    nd = len(b) - 1
    for _ in range(rng.choice([0, 1, 2, 2, 3, 4])):
        cls = rng.choice(["day", "half", "half", "quarter", "run", "random", "lead", "trail"])
        di = rng.randrange(0, nd)
        lo, hi = max(0, idx_of(b[di])), min(n, idx_of(b[di + 1]))
        if hi <= lo:
            continue
        m = hi - lo
        if cls == "day":
            sel = range(lo, hi)
        elif cls == "half":      # exactly half of the day's readings, +-1 (23/24/25-hour days: 11,12,13 ...)
            k = max(0, min(m, (b[di + 1] - b[di]) // step // 2 + rng.choice([-1, 0, 0, 1])))
            start = lo if rng.random() < 0.5 else lo + rng.randrange(0, m - k + 1)
            sel = range(start, start + k)
        elif cls == "quarter":
            k = max(1, m // 4)
            start = lo + rng.randrange(0, m - k + 1)
            sel = range(start, start + k)
        elif cls == "run":
            k = rng.randrange(1, max(2, 2 * m))
            start = lo + rng.randrange(0, m)
            sel = range(start, min(n, start + k))
        elif cls == "random":
            p = rng.choice([0.1, 0.3, 0.5, 0.7])
            sel = [i for i in range(lo, hi) if rng.random() < p]
        elif cls == "lead":
            sel = range(0, min(n, rng.randrange(1, max(2, m))))
        else:
            sel = range(max(0, n - rng.randrange(1, max(2, m))), n)
        for i in sel:
            slots[i] = None
        names.append(cls)
    return names


def gen_temps(rng, n):
    """quarter degrees.  40 % of the feeds are whole-degree winter feeds oscillating around 0 F: a reading of exactly
    0.0 F is a PRESENT reading (for electricity and gas alike); the others span -20.00 .. 110.00 F"""
    if rng.random() < 0.4:
        base = rng.choice([-2, 0, 0, 1, 3])
        return [4 * (base + rng.choice([-3, -2, -1, -1, 0, 0, 0, 1, 1, 2, 3])) for _ in range(n)]
    return [rng.randrange(-80, 441) for _ in range(n)]


def gen_frame(rng, k, step):
    """an hourly (step 60) or sub-hourly (30 / 15) frame of temperatures with a meter column"""
    z = rng.choice(ZONES)
    nd = rng.choice([4, 5, 7, 9, 12] if step == 60 else [3, 4, 6, 8])
    b, on_dst = pick_days(rng, z, nd)
    per0 = (b[1] - b[0]) // step
    k0 = 0 if rng.random() < 0.7 else rng.randrange(0, per0)
    t0 = b[0] + k0 * step
    perl = (b[nd] - b[nd - 1]) // step
    e = perl - 1 if rng.random() < 0.7 else rng.randrange(0, perl)
    t_end = b[nd - 1] + e * step
    n = (t_end - t0) // step + 1
    temps = gen_temps(rng, n)
    pats = nan_patterns(rng, temps, b, t0, step)
    if sum(v is not None for v in temps) < 3:
        return gen_frame(rng, k, step)
    meter = rng.choice(["subdaily", "subdaily", "daily0", "daily0", "dailyH"]) if step == 60 else \
        rng.choice(["subdaily", "subdaily", "daily0"])
    if step != 60 and meter == "daily0" and k0 != 0:
        # a sub-hourly frame with a daily meter starts at local midnight (otherwise the frame's first stamp becomes a
        # meter "day" of its own that no temperature day is labelled with)
        return gen_frame(rng, k, step)
    mh = 0 if meter != "dailyH" else rng.choice([6, 18, 1])
    skip_days = [i for i in range(nd) if rng.random() < 0.08] if meter != "subdaily" else []
    how = rng.choice(["df", "df", "series", "series-offset"])
    klass = rng.choice(["baseline", "baseline", "reporting"])
    cls = "daily"
    if rng.random() < 0.22:
        # a reporting object built from weather alone (no meter value at all): from_series(None, feed, tzinfo=site) with
        # the feed delivered in UTC / at another offset, or a frame without usage; daily and billing class.  The meter
        # day is then the local calendar day, wherever on the clock the feed starts.
        meter, mh, skip_days, klass = "none", 0, [], "reporting"
        how = rng.choice(["series-none", "series-none", "df-nocol", "df-nan"])
        cls = rng.choice(["daily", "billing"])
        if k0 == 0 and rng.random() < 0.8:
            return gen_frame(rng, k, step)          # mostly feeds that do not start at local midnight
    return {"kind": "frame", "zone": z, "step": step, "t0": t0, "temps": temps, "meter": meter, "meter_hour": mh,
            "skip_days": skip_days, "how": how, "klass": klass, "feed_zone": rng.choice(FIXED), "patterns": pats,
            "on_dst": on_dst, "bounds": b, "elec": rng.random() < 0.5, "cls": cls,
            "zero_usage": sorted(rng.sample(range(n), min(n, rng.choice([0, 0, 1, 3, 8]))))}


def gen_long_span(rng, k, start_on):
    """an hourly frame of 8-12 months that STARTS on a DST-transition day (start_on = 'spring': a 23-hour day, 'fall': a
    25-hour day; 'any': an ordinary day) and contains the opposite transition, with a gap-free daily meter at local
    midnight (the meter index then has the calendar-day frequency set)"""
    zs = [z for z in ZONES if tzdays.dst_changes_cached(z)]
    z = rng.choice(zs)
    ch = tzdays.dst_changes_cached(z)
    picks = []
    for i, t in enumerate(ch[:-1]):
        d = tzdays.local_date(t, z)
        length = tzdays.day_start(d + dt.timedelta(days=1), z) - tzdays.day_start(d, z)
        if (start_on == "spring" and length < 1440) or (start_on == "fall" and length > 1440) or start_on == "any":
            picks.append(i)
    i = rng.choice(picks)
    d0 = tzdays.local_date(ch[i], z) - dt.timedelta(days=0 if start_on != "any" else rng.randrange(1, 40))
    d1 = tzdays.local_date(ch[i + 1], z) + dt.timedelta(days=rng.randrange(2, 40))
    nd = (d1 - d0).days
    b = [tzdays.day_start(d0 + dt.timedelta(days=j), z) for j in range(nd + 1)]
    t0 = b[0]
    n = (b[nd] - t0) // 60
    temps = gen_temps(rng, n)
    pats = nan_patterns(rng, temps, b, t0, 60)
    # a few NaNs on the transition days themselves
    for t in (ch[i], ch[i + 1]):
        lo = (tzdays.day_start(tzdays.local_date(t, z), z) - t0) // 60
        for q in rng.sample(range(24), rng.choice([0, 2, 5])):
            if 0 <= lo + q < n:
                temps[lo + q] = None
    for q in (0, n - 1):            # first and last reading present: from_series keeps the frame regular (hourly path)
        if temps[q] is None:
            temps[q] = 4 * rng.randrange(20, 80)
    return {"kind": "frame", "zone": z, "step": 60, "t0": t0, "temps": temps, "meter": "daily0", "meter_hour": 0,
            "skip_days": [], "how": rng.choice(["df", "df", "series"]), "klass": rng.choice(["baseline", "reporting"]),
            "feed_zone": "UTC", "patterns": pats + ["long-span/" + start_on], "on_dst": True, "bounds": b,
            "elec": rng.random() < 0.5, "zero_usage": [], "cls": "daily"}


def gen_billing_temp(rng, k):
    """billing meter on an hourly frame: a few 27..33-day periods"""
    z = rng.choice(ZONES)
    nper = rng.choice([2, 3, 4])
    ch = tzdays.dst_changes_cached(z)
    if ch and rng.random() < 0.7:
        start_day = tzdays.local_date(rng.choice(ch), z) - dt.timedelta(days=rng.randrange(5, 60))
    else:
        start_day = dt.date(rng.randrange(2013, 2025), rng.randrange(1, 13), rng.randrange(1, 28))
    days = [start_day]
    for _ in range(nper):
        days.append(days[-1] + dt.timedelta(days=rng.randrange(27, 34)))
    nd = (days[-1] - days[0]).days
    b = [tzdays.day_start(days[0] + dt.timedelta(days=i), z) for i in range(nd + 1)]
    t0, t_end = b[0], b[nd] - 60
    n = (t_end - t0) // 60 + 1
    temps = gen_temps(rng, n)
    pats = nan_patterns(rng, temps, b, t0, 60)
    reads = [tzdays.day_start(d, z) for d in days]
    return {"kind": "billing", "zone": z, "step": 60, "t0": t0, "temps": temps, "reads": reads,
            "bills": [rng.randrange(200, 2000) for _ in range(nper)], "patterns": pats, "bounds": b,
            "elec": rng.random() < 0.5}


# =====================================================================================================
# implementation adapter
# =====================================================================================================

def frame_stamps(cs):
    return [cs["t0"] + i * cs["step"] for i in range(len(cs["temps"]))]


def tvals(cs):
    return [None if v is None else F(v, 4) for v in cs["temps"]]


def build_inputs(cs):
    """(frame for the constructor, or (meter series, temperature series) for from_series)"""
    z = cs["zone"]
    ts = frame_stamps(cs)
    idx = tz_index(ts, z)
    temp = pd.Series([np.nan if v is None else v / 4.0 for v in cs["temps"]], index=idx, name="temperature", dtype=float)
    if cs["kind"] == "billing":
        obs = pd.Series(np.nan, index=idx, name="observed")
        pos = {t: i for i, t in enumerate(ts)}
        for t, v in zip(cs["reads"][:-1], cs["bills"]):
            obs.iloc[pos[t]] = float(v)
        return pd.DataFrame({"observed": obs, "temperature": temp})
    b = cs["bounds"]
    if cs["meter"] == "none":
        if cs["how"] == "series-none":
            feed = temp.copy()
            feed.index = feed.index.tz_convert(cs["feed_zone"])      # delivered in UTC / at a fixed offset
            return ("none", feed)
        if cs["how"] == "df-nocol":
            return pd.DataFrame({"temperature": temp})
        return pd.DataFrame({"observed": np.nan, "temperature": temp})
    if cs["meter"] == "subdaily":
        obs = pd.Series(1.0 + (np.arange(len(ts)) % 7), index=idx, name="observed")
        for i in cs.get("zero_usage", []):
            obs.iloc[i] = 0.0           # a usage of exactly 0: missing for electricity, a reading for gas
    else:
        obs = pd.Series(np.nan, index=idx, name="observed")
        pos = {t: i for i, t in enumerate(ts)}
        for di in range(len(b) - 1):
            if di in cs["skip_days"]:
                continue
            # the reading of day di is stamped at local hour meter_hour (on the wall clock) of that day
            t = b[di] + cs["meter_hour"] * 60
            while t in pos and tzdays.local_minute_of_day(t, z) != cs["meter_hour"] * 60 and t < b[di + 1]:
                t += 60
            if t in pos and t < b[di + 1]:
                obs.iloc[pos[t]] = 0.0 if (di % 5 == 3 and cs.get("zero_usage")) else 20.0 + di
    if cs["how"] == "df":
        return pd.DataFrame({"observed": obs, "temperature": temp})
    meter = obs.dropna() if cs["meter"] != "subdaily" else obs
    if cs["how"] == "series-offset":
        temp = temp.copy()
        temp.index = temp.index.tz_convert(cs["feed_zone"])
    return meter, temp


def run_class(cs):
    """returns dict: err | {frame_freq, frame (stamp, temp), midx, temperature, not_null, null}"""
    from opendsm.eemeter.models.daily.data import DailyBaselineData, DailyReportingData
    from opendsm.eemeter.models.billing.data import BillingBaselineData, BillingReportingData
    if cs["kind"] == "billing":
        base = BillingBaselineData
    elif cs.get("cls") == "billing":
        base = BillingReportingData
    else:
        base = DailyBaselineData if cs["klass"] == "baseline" else DailyReportingData

    class Capture(base):
        df_in = None
        suff = None

        def __init__(self, df, is_electricity_data):
            Capture.df_in = df.copy()
            super().__init__(df, is_electricity_data)

        def _check_data_sufficiency(self, sufficiency_df):
            Capture.suff = sufficiency_df.copy()
            return super()._check_data_sufficiency(sufficiency_df)
    elec = bool(cs.get("elec", False))
    inp = build_inputs(cs)          # outside the try: a mistake of the harness must crash, not look like a class error
    try:
        if isinstance(inp, tuple) and isinstance(inp[0], str):
            import zoneinfo
            d = Capture.from_series(None, inp[1], is_electricity_data=elec, tzinfo=zoneinfo.ZoneInfo(cs["zone"]))
        elif isinstance(inp, tuple):
            d = Capture.from_series(inp[0], inp[1], is_electricity_data=elec)
        else:
            d = Capture(inp, is_electricity_data=elec)
        out = d.df
    except Exception as e:  # noqa
        import traceback
        frames = [f.name for f in traceback.extract_tb(e.__traceback__)]
        in_temp = any(n in ("_compute_temperature_features", "compute_temperature_features", "_matching_groups")
                      for n in frames)
        return {"err": type(e).__name__, "msg": str(e)[:300], "in_temperature_code": in_temp}
    fin = Capture.df_in
    try:
        freq = fin.index.inferred_freq
    except Exception:  # noqa
        freq = None
    suff = Capture.suff.reindex(out.index)
    return {
        "frame_freq": freq,
        "frame": list(zip(minutes_of(fin.index), [fr(x) for x in fin["temperature"].to_numpy()])),
        "frame_obs": [fr(x) for x in fin["observed"].to_numpy()] if "observed" in fin.columns else [None] * len(fin),
        "midx": minutes_of(out.index),
        "temperature": [fr(x) for x in out["temperature"].to_numpy()],
        "not_null": [fr(x) for x in suff["temperature_not_null"].to_numpy()],
        "null": [fr(x) for x in suff["temperature_null"].to_numpy()],
    }


def impl_asfreq_inst(rs, z):
    from opendsm.eemeter.common.data_processor_utilities import as_freq
    s = pd.Series([np.nan if v is None else float(v) for _, v in rs], index=tz_index([t for t, _ in rs], z), dtype=float)
    try:
        out = as_freq(s, "D", series_type="instantaneous", include_coverage=True)
    except Exception as e:  # noqa
        return ("err", type(e).__name__, str(e)[:200])
    return ("rows", [(m, fr(v), fr(c)) for m, v, c in zip(minutes_of(out.index), out["value"], out["coverage"])])


# =====================================================================================================
# the property oracle
# =====================================================================================================

def next_same_clock(t, z):
    """the instant one calendar day after t on the local wall clock (end of the meter day that starts at t)"""
    d = tzdays.local_date(t, z)
    minute = tzdays.local_minute_of_day(t, z)
    nxt = tzdays.day_start(d + dt.timedelta(days=1), z)
    # walk to the same wall-clock minute of the next day
    cand = nxt + minute
    for delta in (0, -60, 60, -120, 120):
        if tzdays.local_date(cand + delta, z) == d + dt.timedelta(days=1) and tzdays.local_minute_of_day(cand + delta, z) == minute:
            return cand + delta
    return t + 1440


def meter_days(midx, z):
    """[lo, hi) of every meter day: closed by the next meter day, the last one by the same clock time a day later"""
    return [(lo, midx[j + 1] if j + 1 < len(midx) else next_same_clock(lo, z)) for j, lo in enumerate(midx)]


def day_stats(frame, lo, hi):
    rows = [v for t, v in frame if lo <= t < hi]
    pres = [v for v in rows if v is not None]
    return len(rows), pres


def oracle_calendar_days(cs, obs):
    """an object without any meter value: the meter day is the local calendar day - data.df has one row per local day of
    the feed, labelled with its local midnight, wherever on the clock the feed starts"""
    z = cs["zone"]
    frame = obs["frame"]
    want = tzdays.boundaries(frame[0][0], frame[-1][0], z)[:-1]
    if list(obs["midx"]) != list(want):
        bad = [m for m in obs["midx"] if tzdays.local_minute_of_day(m, z) != 0]
        return [({"path": "calendar-days", "deviation": "rows are not the local calendar days of the feed"},
                 "no meter value: data.df must carry one row per local calendar day (local midnights); got %d rows, %d of "
                 "them not at local midnight (first at %02d:%02d local), expected %d local days" % (
                     len(obs["midx"]), len(bad), (tzdays.local_minute_of_day(bad[0], z) // 60) if bad else 0,
                     (tzdays.local_minute_of_day(bad[0], z) % 60) if bad else 0, len(want)))]
    return []


def oracle_hourly(cs, obs, billing):
    """every meter day: temperature = mean of the non-missing readings that fall in it, missing when half or fewer of
    its readings are present; the counts are the numbers of present / absent readings of the day (a day without a
    single present reading may carry NaN counts: the sufficiency test reads that as an invalid day, like (0, n))"""
    z = cs["zone"]
    fails = []
    frame = obs["frame"]
    days = meter_days(obs["midx"], z)
    totals = []
    for lo, hi in days:
        n, pres = day_stats(frame, lo, hi)
        totals.append(n)
    srt = sorted(t for t in totals if t > 0)
    med = (srt[len(srt) // 2] if len(srt) % 2 else F(srt[len(srt) // 2 - 1] + srt[len(srt) // 2], 2)) if srt else 0
    meterless = cs.get("meter") == "none"
    for j, (lo, hi) in enumerate(days):
        n, pres = day_stats(frame, lo, hi)
        if meterless and (lo < frame[0][0] or hi > frame[-1][0] + cs["step"]):
            continue        # a local day the feed covers only partly (its first / last day): not judged
        exp = (sum(pres, F(0)) / len(pres)) if (n > 0 and 2 * len(pres) > n) else None
        got = obs["temperature"][j]
        last = j == len(days) - 1
        dst_last = last and hi - lo != 1440
        if not fclose(got, exp):
            if exp is None:
                dev = "sparse day not missing"
            elif got is None:
                dev = "covered day missing"
            else:
                dev = "not the mean of the day's readings"
            cause = "other"
            if dst_last:
                cause = "last-day-closed-after-24h"
            elif billing and got is None and exp is not None and 2 * len(pres) <= med:
                cause = "billing-median-rule-on-a-short-day"
            fails.append(({"path": "hourly", "deviation": dev, "cause": cause},
                          "hourly feed: meter day %d (%d readings, %d present): expected %s, got %s" % (
                              j, n, len(pres), None if exp is None else float(exp), None if got is None else float(got))))
        a, c = obs["not_null"][j], obs["null"][j]
        ok = (a == len(pres) and c == n - len(pres)) or (len(pres) == 0 and a is None and c is None)
        if not ok:
            fails.append(({"path": "hourly", "deviation": "counts not exact",
                           "cause": "last-day-closed-after-24h" if dst_last else "other"},
                          "hourly feed: meter day %d: %d present / %d absent readings, counted %s / %s" % (
                              j, len(pres), n - len(pres), a, c)))
    return fails


def held_value_mean(frame, lo, hi, scale):
    """what 'hold every reading until the next ROW' (as_freq instantaneous over a frame with absent rows, finding
    C09-F5) predicts for the day: time-weighted mean of the held values, divided by the coverage when the code scales.
    Only used to attribute a deviation the oracle has already found."""
    cnt, acc = 0, F(0)
    for (a, v), (b2, _) in zip(frame, frame[1:]):
        ov = min(b2, hi) - max(a, lo)
        if ov > 0 and v is not None:
            cnt += ov
            acc += v * ov
    cov = F(cnt, hi - lo)
    if cnt == 0 or cov <= F(1, 2):
        return None
    return (acc / cnt) / cov if scale else acc / cnt


def oracle_subhourly(cs, obs, scale=True):
    """as above for a 30- or 15-minute feed; a day's share of present readings is taken over the slots the local day
    has.  The final day is excluded (its last reading is open-ended: it is held for one minute only)."""
    z = cs["zone"]
    step = cs["step"]
    fails = []
    frame = obs["frame"]
    days = meter_days(obs["midx"], z)
    for j, (lo, hi) in enumerate(days[:-1]):
        n, pres = day_stats(frame, lo, hi)
        slots = (hi - lo) // step
        exp = (sum(pres, F(0)) / len(pres)) if 2 * len(pres) > slots else None
        got = obs["temperature"][j]
        if not fclose(got, exp):
            cause = "other"
            if exp is not None and got is not None and fclose(got, exp / F(len(pres), slots)):
                cause = "mean-divided-by-coverage"
            elif n < slots and j > 0 and fclose(got, held_value_mean(frame, lo, hi, scale)):
                cause = "absent-rows-forward-filled"
            dev = "sparse day not missing" if exp is None else ("covered day missing" if got is None else
                                                                 "not the mean of the day's readings")
            fails.append(({"path": "subhourly", "deviation": dev, "cause": cause},
                          "%d-minute feed: local day %d (%d of %d readings present): expected %s, got %s" % (
                              step, j, len(pres), slots, None if exp is None else float(exp),
                              None if got is None else float(got))))
        a, c = obs["not_null"][j], obs["null"][j]
        if not (a == len(pres) and c == n - len(pres)):
            first = [v for t, v in frame if t == lo]
            flag = (None, None) if not first else ((1, 0) if first[0] is not None else (0, 1))
            cause = "counts-are-the-flag-of-the-reading-at-the-day-start" if (a, c) == flag else "other"
            fails.append(({"path": "subhourly", "deviation": "counts not exact", "cause": cause},
                          "%d-minute feed: local day %d: %d present / %d absent readings, counted %s / %s" % (
                              step, j, len(pres), n - len(pres), a, c)))
    return fails


def oracle_asfreq_inst(rs, bs, got):
    """as_freq instantaneous: every local day but the final one carries the time-weighted mean of the values held
    (a reading is held until the next row), coverage = share of the day's minutes with a value"""
    fails = []
    for j in range(len(bs) - 2):
        lo, hi = bs[j], bs[j + 1]
        cnt, acc = 0, F(0)
        for (a, v), (b2, _) in zip(rs, rs[1:]):
            ov = min(b2, hi) - max(a, lo)
            if ov > 0 and v is not None:
                cnt += ov
                acc += v * ov
        if lo not in got:
            continue
        v, c = got[lo]
        ev = acc / cnt if cnt else None
        if not fclose(v, ev) or not fclose(c, F(cnt, hi - lo)):
            fails.append(({"path": "as_freq-instantaneous", "deviation": "day mean / coverage"},
                          "as_freq instantaneous: local day %d: mean %s coverage %s expected, got %s / %s" % (
                              j, None if ev is None else float(ev), float(F(cnt, hi - lo)), None if v is None else float(v),
                              None if c is None else float(c))))
    return fails


# =====================================================================================================
# processing
# =====================================================================================================

def short_obs(obs):
    if "err" in obs:
        return obs
    return {"frame_freq": obs["frame_freq"], "midx": obs["midx"][:40],
            "temperature": [None if v is None else float(v) for v in obs["temperature"][:40]],
            "not_null": [None if v is None else float(v) for v in obs["not_null"][:40]],
            "null": [None if v is None else float(v) for v in obs["null"][:40]]}


def coq_frame(obs):
    """the frame handed to the constructor, both columns: (frm [(stamp, observed, temperature); ...])"""
    return "(frm %s)" % coq_list(["(%s, %s, %s)" % (ilit(t), qvlit(o), qvlit(v))
                                  for (t, v), o in zip(obs["frame"], obs["frame_obs"])])


def coq_rows(obs):
    return coq_list(["(%s, %s, %s)" % (qvlit(m), qvlit(a), qvlit(b))
                     for m, a, b in zip(obs["temperature"], obs["not_null"], obs["null"])])


def process_case(run, cs, flags):
    z = cs["zone"]
    key = vlib.sha(cs)
    billing = cs["kind"] == "billing" or cs.get("cls") == "billing"
    elec = bool(cs.get("elec", False))
    obs = run_class(cs)
    run.dist("fuel", "electricity" if elec else "gas")
    run.dist("exact_zero_temperatures", min(3, sum(1 for v in cs["temps"] if v == 0)))
    run.dist("zone", z)
    run.dist("step", cs["step"])
    for p in cs["patterns"] or ["none"]:
        run.dist("nan_pattern", p)
    gen = "c09.gen_billing_temp" if billing else "c09.gen_frame"
    if "err" in obs:
        run.count(("class-error", key), nontrivial=False)
        run.dist("class_outcome", obs["err"])
        msg = obs["msg"]
        known = obs["err"] == "ValueError" and ("nonexistent time" in msg or "Cannot infer dst time" in msg)
        if obs["err"] == "ValueError" and "Billing data is not allowed" in msg:
            return      # a daily meter column with so many days skipped that its median spacing exceeds a day (C08's subject)
        allnan = obs["err"] == "ValueError" and "All rows are NaN" in msg
        if allnan:
            # legitimate only when no meter day has a present reading at all
            pres = sum(v is not None for v in cs["temps"])
            if pres and cs["step"] == 60:
                stamps = frame_stamps(cs)
                run.add("hourly", "(%s, %s, None, %s, (frm %s), OAllNaN)" % (
                    coq_bool(elec), coq_bool(billing), coq_list([]),
                    coq_list(["(%s, QN, %s)" % (ilit(t), qvlit(v)) for t, v in zip(stamps, tvals(cs))])),
                    {"case": cs, "impl": obs})
            return
        if not obs.get("in_temperature_code"):
            return      # the object could not be built for a reason outside the temperature code (meter side: C08 / C10)
        odd_freq = obs["err"] == "TypeError" and "BusinessHour" in msg and "Timedelta" in msg
        run.violation({"path": "class", "raised": obs["err"], "zone_class": "midnight-dst" if known else "other",
                       "cause": "frame-inferred-as-business-hours" if odd_freq else "other"},
                      "C09 %s raised %s: %s" % (cs.get("klass", "billing"), obs["err"], msg), case=cs, observation=obs,
                      generator=gen)
        return
    freq = obs["frame_freq"]
    path = "hourly" if freq == "h" else "subhourly"
    run.count((path, key))
    run.dist("class_outcome", "ok/" + path)
    run.dist("meter", cs.get("meter", "billing") + ("@%d" % cs["meter_hour"] if cs.get("meter") == "dailyH" else ""))
    run.dist("how", cs.get("how", "df"))
    frame = obs["frame"]
    if cs.get("meter") == "none":
        for sig, msg in oracle_calendar_days(cs, obs):
            run.violation(sig, "C09 " + msg, case=cs, observation=short_obs(obs), generator=gen)
    if path == "hourly":
        fails = oracle_hourly(cs, obs, billing)
        for sig, msg in fails:
            run.violation(sig, "C09 " + msg, case=cs, observation=short_obs(obs), generator=gen)
        run.add("hourly", "(%s, %s, None, %s, %s, (ORows %s))" % (
            coq_bool(elec), coq_bool(billing), coq_list([ilit(t) for t in obs["midx"]]), coq_frame(obs), coq_rows(obs)),
            {"case": cs, "impl": short_obs(obs),
             "model_term": "class_hourly %s %s None (map zi %s) %s" % (
                 coq_bool(elec), coq_bool(billing), coq_list([ilit(t) for t in obs["midx"]]), coq_frame(obs))})
        run.sample({"stream": "hourly", "zone": z, "meter": cs.get("meter", "billing"), "how": cs.get("how", "df"),
                    "patterns": cs["patterns"], "days": len(obs["midx"]),
                    "first_days": [None if v is None else float(v) for v in obs["temperature"][:4]]})
    else:
        if billing or cs.get("meter") == "dailyH":
            return
        fails = oracle_subhourly(cs, obs, scale=flags["scale"])
        for sig, msg in fails:
            run.violation(sig, "C09 " + msg, case=cs, observation=short_obs(obs), generator=gen)
        bs = tzdays.boundaries(frame[0][0], frame[-1][0], z)
        first = label_check(obs["midx"], bs)
        if first is None:
            run.violation({"path": "subhourly", "deviation": "rows are not the local days of the feed"},
                          "C09 sub-hourly feed: data.df rows are not the consecutive local days of the temperature feed",
                          case=cs, observation=short_obs(obs), generator=gen)
        else:
            run.add("subhourly", "(%s, %s, %s, %s, %s, %s, %s)" % (
                coq_bool(elec), coq_bool(flags["scale"]), coq_bool(flags["exact"]), coq_frame(obs), coq_zs(bs), ilit(first),
                coq_rows(obs)),
                {"case": cs, "impl": short_obs(obs),
                 "model_term": "class_subhourly %s %s %s %s %s" % (coq_bool(elec), coq_bool(flags["scale"]),
                                                                 coq_bool(flags["exact"]), coq_frame(obs), coq_zs(bs))})
        # as_freq instantaneous on the feed itself
        rs = [(t, v) for t, v in frame]
        o2 = impl_asfreq_inst(rs, z)
        run.count(("asfreqinst", key))
        if o2[0] == "rows":
            f2 = label_check([m for m, _, _ in o2[1]], bs)
            if f2 is not None:
                run.add("asfreqinst", "(%s, %s, %s, %s)" % (coq_readings(rs), coq_zs(bs), ilit(f2), coq_list(
                    ["(%s, %s)" % (qvlit(v), qvlit(c)) for _, v, c in o2[1]])), {"case": cs, "impl": str(o2[1][:6])})
            for sig, msg in oracle_asfreq_inst(rs, bs, {m: (v, c) for m, v, c in o2[1]}):
                run.violation(sig, "C09 " + msg, case=cs, observation=str(o2[1][:8]), generator=gen)


# =====================================================================================================
# witnesses of the refuted theorems, and the probe that tells which variant of the model the code follows
# =====================================================================================================

def witness_case():
    """half-hourly 30.0 F over four UTC days, 12 of the 48 readings of 2024-01-02 missing (06:00-11:30)"""
    t0 = 28401120          # 2024-01-01 00:00 UTC
    temps = [120] * (4 * 48)
    for i in range(48 + 12, 48 + 24):
        temps[i] = None
    b = [t0 + 1440 * i for i in range(5)]
    return {"kind": "frame", "zone": "UTC", "step": 30, "t0": t0, "temps": temps, "meter": "subdaily", "meter_hour": 0,
            "skip_days": [], "how": "df", "klass": "baseline", "feed_zone": "UTC", "patterns": ["quarter"],
            "on_dst": False, "bounds": b}


def witness_last_day_dst():
    """US/Pacific hourly frame 2024-10-30 .. 2024-11-03 23:00 (the last day has 25 hours), temperatures 0, 1, 2, ..."""
    z = "US/Pacific"
    b = [tzdays.day_start(dt.date(2024, 10, 30) + dt.timedelta(days=i), z) for i in range(6)]
    n = (b[5] - b[0]) // 60
    return {"kind": "frame", "zone": z, "step": 60, "t0": b[0], "temps": [4 * i for i in range(n)], "meter": "subdaily",
            "meter_hour": 0, "skip_days": [], "how": "df", "klass": "baseline", "feed_zone": "UTC", "patterns": [],
            "on_dst": True, "bounds": b}


def witness_billing_short_day():
    """US/Pacific billing frame 2024-02-01 .. 2024-04-01, 12 of the 23 readings of 2024-03-10 present"""
    z = "US/Pacific"
    days = [dt.date(2024, 2, 1), dt.date(2024, 3, 2), dt.date(2024, 4, 2)]
    nd = (days[-1] - days[0]).days
    b = [tzdays.day_start(days[0] + dt.timedelta(days=i), z) for i in range(nd + 1)]
    n = (b[nd] - b[0]) // 60
    temps = [200] * n
    lo = (tzdays.day_start(dt.date(2024, 3, 10), z) - b[0]) // 60
    for i in range(lo, lo + 11):
        temps[i] = None
    return {"kind": "billing", "zone": z, "step": 60, "t0": b[0], "temps": temps,
            "reads": [tzdays.day_start(d, z) for d in days], "bills": [300, 310], "patterns": ["half"], "bounds": b}


def witness_zero_fahrenheit(how):
    """America/Chicago, electricity, daily meter, whole-degree hourly feed -3..3 F (exact zeros every day); on the third
    day 13 of 24 readings are present, two of them 0.0 F: the zeros are readings (mean over 13, counts 13 / 11)"""
    z = "America/Chicago"
    b = [tzdays.day_start(dt.date(2024, 1, 8) + dt.timedelta(days=i), z) for i in range(7)]
    n = (b[6] - b[0]) // 60
    temps = [4 * ((i * 5) % 7 - 3) for i in range(n)]
    for i in range(48, 48 + 24):
        temps[i] = None
    for i, v in zip(range(48, 48 + 13), [0, 4, -8, 0, 12, 8, -4, 4, 8, -12, 4, 8, -4]):
        temps[i] = v
    return {"kind": "frame", "zone": z, "step": 60, "t0": b[0], "temps": temps, "meter": "daily0", "meter_hour": 0,
            "skip_days": [], "how": how, "klass": "baseline", "feed_zone": "UTC", "patterns": ["half"], "on_dst": False,
            "bounds": b, "elec": True, "zero_usage": []}


def witness_weather_only(cls, how):
    """America/New_York reporting object from weather alone: hourly feed delivered in UTC from 2021-06-01 00:00Z (20:00
    local of 31 May) for 6 days, 13 readings of 3 June (local) missing"""
    z = "America/New_York"
    t0 = tzdays.date_to_minute_utc(2021, 6, 1)
    n = 6 * 24
    temps = [4 * (40 + (i * 7) % 31) for i in range(n)]
    lo = (tzdays.day_start(dt.date(2021, 6, 3), z) - t0) // 60
    for i in range(lo + 3, lo + 16):
        temps[i] = None
    b = tzdays.boundaries(t0, t0 + 60 * (n - 1), z)
    return {"kind": "frame", "zone": z, "step": 60, "t0": t0, "temps": temps, "meter": "none", "meter_hour": 0,
            "skip_days": [], "how": how, "klass": "reporting", "feed_zone": "UTC", "patterns": ["half"], "on_dst": False,
            "bounds": b, "elec": False, "zero_usage": [], "cls": cls}


def witness_spring_start():
    """America/New_York, hourly feed and gap-free daily meter from 2023-03-12 (a 23-hour day) to 2023-11-20: the span
    contains the 25-hour day 2023-11-05, whose 25 readings all belong to it"""
    z = "America/New_York"
    d0, d1 = dt.date(2023, 3, 12), dt.date(2023, 11, 20)
    nd = (d1 - d0).days
    b = [tzdays.day_start(d0 + dt.timedelta(days=j), z) for j in range(nd + 1)]
    n = (b[nd] - b[0]) // 60
    temps = [4 * (35 + (i * 11) % 47) for i in range(n)]
    lo = (tzdays.day_start(dt.date(2023, 11, 5), z) - b[0]) // 60
    for q in (3, 9, 17):
        temps[lo + q] = None
    return {"kind": "frame", "zone": z, "step": 60, "t0": b[0], "temps": temps, "meter": "daily0", "meter_hour": 0,
            "skip_days": [], "how": "df", "klass": "baseline", "feed_zone": "UTC", "patterns": ["long-span/spring"],
            "on_dst": True, "bounds": b, "elec": False, "zero_usage": [], "cls": "daily"}


def probe():
    """scale: is the sub-hourly mean divided by its coverage (code as it is) or not (repaired)?
    exact: are the sub-hourly counts per-day counts (repaired) or the flag of the day-start reading (code as it is)?"""
    obs = run_class(witness_case())
    if "err" in obs:
        return {"scale": True, "exact": False, "probe": obs}
    v = obs["temperature"][1]
    a, c = obs["not_null"][1], obs["null"][1]
    return {"scale": not fclose(v, F(30)), "exact": (a, c) == (36, 12),
            "probe": {"day2_temperature": None if v is None else float(v), "counts": [None if a is None else float(a), None if c is None else float(c)]}}


def work(job):
    i, seed, kind, payload, flags = job
    rec = Rec(vlib.sha([seed, i]))
    try:
        process_case(rec, payload, flags)
    except Exception:  # noqa
        import traceback
        rec.events.append(("crash", traceback.format_exc()[-1500:], payload))
    return rec.events


def work_indexed(job):
    return job[0], work(job)


def warm_imports():
    import opendsm.eemeter.models.daily.data  # noqa
    import opendsm.eemeter.models.billing.data  # noqa


N_HOURLY = (140, 2500)
N_SUB = (90, 1500)
N_BILL = (24, 250)
N_LONG = (4, 60)


def main():
    run = Run("C09")
    run.cov["rule"] = (
        "frames of hourly / 30-minute / 15-minute temperatures (quarter degrees, -20..110 F; 40 % whole-degree winter feeds "
        "around 0 F with exact 0.0 readings) for electricity and gas meters (usage with exact zeros) over 3-12 local days around a "
        "DST change (75 %) in 13 zones (incl. :30/:45 offsets), starting at local midnight or at another slot, NaN patterns: "
        "whole day, exactly half of the day's readings +-1 (23/24/25-hour days), a quarter, runs across midnight, random 10-70 %, "
        "leading / trailing; meter column sub-daily, daily at local midnight, or daily at another hour (06:00 / 18:00 / 01:00: "
        "the meter's own day) with missing meter days, or no meter value at all (reporting objects from weather alone: "
        "from_series(None, feed in UTC / at a fixed offset, tzinfo=site), frames without usage; daily and billing class; feeds "
        "that do not start at local midnight); Daily baseline / reporting classes through the frame constructor and "
        "from_series with the feed in the meter zone or at a fixed UTC offset (-12 .. +14, +5:30, +5:45); billing class on an "
        "hourly frame of 2-4 periods; hourly frames of 8-12 months that START on a spring-forward / fall-back day and contain the "
        "opposite transition, gap-free daily meter (calendar-day frequency set on the meter index). distinct = (path, case hash); non-trivial = the class returned a frame")
    run.assumptions += [
        "pandas (merge_asof backward, groupby mean/count, asfreq/ffill, resample) is re-specified in Model/TempAgg.v and tied by "
        "the correspondence only; the meter index (data.df.index) and the frame handed to the constructor are observed and "
        "given to the model as data",
        "a meter day is closed by the next meter day; the last one by the same wall-clock time one calendar day later",
        "a day without a single present reading may carry NaN counts (the whole feature row is blanked): the sufficiency "
        "test reads NaN counts as an invalid temperature day, the same verdict as (0, n) - theorem C09_blank_row_is_invalid_day",
        "sub-hourly feeds: the final day is excluded (the last reading is held for one minute by the 1-minute grid)",
        "zones whose DST change is at local midnight are left to C08 (finding C08-F5 is on the meter side of the same classes)",
        "temperatures are quarter degrees; implementation means are compared within 1e-9 relative",
        "correspondence is sampled: agreement is established on the cases run",
    ]
    run.cov["trusted_base"] += ["harness/c09.py, harness/corrlib.py, harness/tzdays.py (generators, adapters, capture subclass, oracle)",
                                "harness/translate_resample.py (ast extraction of the tests and constants of "
                                "_compute_temperature_features; fail-closed)",
                                "pandas semantics re-specified in Model/TempAgg.v / Model/Resample.v; tz database"]
    gen = None
    try:
        import translate_resample
        gen = translate_resample.generate(run, which=("temp",))
        run.cov["translated"] = {"daily": str(gen["temp_daily"]), "billing": str(gen["temp_billing"])}
    except Exception as e:  # noqa  - fail closed
        run.proof_ok = False
        run.proof_log += "translator failed: %s: %s" % (type(e).__name__, e)
        run.log("TRANSLATOR FAILED: %s: %s" % (type(e).__name__, e))
    run.check_proofs("Properties/C09.v", ["Proofs/TempAggProofs.v", "Proofs/TempAggGenProofs.v"],
                     generated=["Generated/TempAggGen.v"])
    run.log("theorems re-checked: %d/%d" % (run.cov["discharged"], run.cov["obligations"]))
    run.ensure_models(["Model/TempAggRun.v", "Model/CasesLib.v"])
    run.log("models built")
    st = Streams(run, IMPORTS, CASE_TYPE, CHECK_FN)
    warm_imports()
    flags = probe()
    run.cov["model_variant"] = flags
    run.log("probe: %s" % flags)
    if gen is not None and (bool(gen["temp_daily"]["scaled"]) != bool(flags["scale"])
                            or bool(gen["temp_billing"]["scaled"]) != bool(flags["scale"])):
        run.corr_failures.append({"stream": "variant", "case": {"probe": flags["probe"], "translated_scaled":
                                                                 [gen["temp_daily"]["scaled"], gen["temp_billing"]["scaled"]]},
                                  "impl": "probe", "model": "Generated/TempAggGen.v gen_*_scaled"})
    flags = {"scale": flags["scale"], "exact": flags["exact"]}
    scale = float(os.environ.get("VERIF_SCALE", "1"))      # development aid only

    def nn(pair):
        return max(1, int(run.n(*pair) * scale))
    cases = []
    if run.replay:
        cases.append(json.load(open(run.replay))["case"])
    else:
        corpus = os.path.join(vlib.VERIF, "corpus", "C09.json")
        if os.path.exists(corpus):
            cases += json.load(open(corpus))
        cases += [witness_case(), witness_last_day_dst(), witness_billing_short_day(),
                  witness_zero_fahrenheit("df"), witness_zero_fahrenheit("series-offset"),
                  witness_weather_only("billing", "series-none"), witness_weather_only("billing", "df-nocol"),
                  witness_weather_only("daily", "series-none"), witness_spring_start()]
        for k in range(nn(N_HOURLY)):
            cases.append(gen_frame(run.rng, k, 60))
        for k in range(nn(N_SUB)):
            cases.append(gen_frame(run.rng, k, run.rng.choice([30, 30, 15])))
        for k in range(nn(N_BILL)):
            cases.append(gen_billing_temp(run.rng, k))
        for k in range(nn(N_LONG)):
            cases.append(gen_long_span(run.rng, k, ["spring", "fall", "spring", "any"][k % 4]))
    jobs = [(i, run.seed, "case", c, flags) for i, c in enumerate(cases)]
    import multiprocessing as mp
    nproc = int(os.environ.get("VERIF_PROCS", "14"))
    if len(jobs) == 1 or nproc <= 1:
        for j in jobs:
            st.replay(work(j))
    else:
        order = sorted(jobs, key=lambda j: -len(j[3]["temps"]))
        with mp.get_context("fork").Pool(nproc) as pool:
            res = dict(pool.imap_unordered(work_indexed, order, chunksize=1))
        for i in sorted(res):
            st.replay(res[i])
    run.log("implementation done: %d evaluations" % run.cov["evaluations"])
    st.flush()
    run.finish()


if __name__ == "__main__":
    vlib.run_main(main, "C09")
