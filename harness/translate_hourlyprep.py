"""Translator for C17: reads the STRUCTURE of the hourly preparation pipeline from the source in vlib.repo_root() with `ast`
and writes it as a table into coq/Generated/HourlyPrepGen.v (type `pipeline` of coq/Model/HourlyPrepTable.v).

  opendsm/eemeter/models/hourly/data.py      _HourlyData._set_data: order of the zero rule and remove_duplicates, followed by
                                             _get_contiguous_datetime and _interpolate; the zero rule itself (column, comparison,
                                             constant, electricity guard); _get_contiguous_datetime: replace(hour=..) of the
                                             first / last stamp, freq of the date_range
  opendsm/eemeter/common/data_processor_utilities.py   remove_duplicates: keep=
  opendsm/common/hourly_interpolation.py     interpolate: the length under which the autocorrelation stage is skipped, the list
                                             of fall-back methods (order!) with what each branch calls, limit_direction of the
                                             time method, the flag assignment

Nothing is guessed: a construct that is not recognised makes the whole table `None` (with the reasons as a comment and in
the evidence: "structural tie not established" — the behavioural correspondence of harness/c17.py still applies).  A
construct that IS recognised but differs (keep="last", another method order, another threshold, `> 0` instead of `== 0`,
flag without the "now present" conjunct, another hour ...) gives a table that is not `accepted`, and the obligation
C17_source_pipeline_accepted of Properties/C17.v no longer checks."""
import ast
import os

import vlib


class Unread(Exception):
    pass


def _need(cond, msg):
    if not cond:
        raise Unread(msg)


def _parse(rel):
    path = os.path.join(vlib.repo_root(), rel)
    return ast.parse(open(path).read(), filename=path)


def _func(tree, name, cls=None):
    nodes = tree.body
    if cls is not None:
        cl = [n for n in tree.body if isinstance(n, ast.ClassDef) and n.name == cls]
        _need(len(cl) == 1, "class %s not found" % cls)
        nodes = cl[0].body
    fs = [n for n in nodes if isinstance(n, ast.FunctionDef) and n.name == name]
    _need(len(fs) == 1, "function %s not found" % name)
    return fs[0]


def _const_int(node):
    """integer value of a constant expression made of integer literals, * and +"""
    if isinstance(node, ast.Constant) and isinstance(node.value, int) and not isinstance(node.value, bool):
        return node.value
    if isinstance(node, ast.Constant) and isinstance(node.value, float) and node.value == int(node.value):
        return int(node.value)
    if isinstance(node, ast.UnaryOp) and isinstance(node.op, ast.USub):
        return -_const_int(node.operand)
    if isinstance(node, ast.BinOp) and isinstance(node.op, (ast.Mult, ast.Add)):
        a, b = _const_int(node.left), _const_int(node.right)
        return a * b if isinstance(node.op, ast.Mult) else a + b
    raise Unread("not an integer constant: %s" % ast.unparse(node))


def _u(node):
    return ast.unparse(node).replace('"', "'")


OPS = {ast.Eq: "CmpEq", ast.NotEq: "CmpNe", ast.Lt: "CmpLt", ast.LtE: "CmpLe", ast.Gt: "CmpGt", ast.GtE: "CmpGe"}
NEG = {"CmpEq": "CmpNe", "CmpNe": "CmpEq", "CmpLt": "CmpGe", "CmpLe": "CmpGt", "CmpGt": "CmpLe", "CmpGe": "CmpLt"}
COLS = {"temperature": "Temp", "observed": "Obs", "ghi": "Ghi"}


def _col_compare(node):
    """df['col'] <op> const  ->  (col, op, const)"""
    _need(isinstance(node, ast.Compare) and len(node.ops) == 1, "zero rule: not a single comparison: %s" % _u(node))
    left = node.left
    _need(isinstance(left, ast.Subscript) and isinstance(left.value, ast.Name) and left.value.id == "df"
          and isinstance(left.slice, ast.Constant) and left.slice.value in COLS, "zero rule: left side is not df[<column>]: %s" % _u(left))
    _need(type(node.ops[0]) in OPS, "zero rule: operator %s" % type(node.ops[0]).__name__)
    return COLS[left.slice.value], OPS[type(node.ops[0])], _const_int(node.comparators[0])


def _zero_rule(stmt):
    """the statement that blanks usage readings; returns (col, op, const) meaning `cells with col <op> const become NaN`"""
    # df.loc[df["observed"] == 0, "observed"] = np.nan
    if (isinstance(stmt, ast.Assign) and len(stmt.targets) == 1 and isinstance(stmt.targets[0], ast.Subscript)
            and _u(stmt.targets[0].value) == "df.loc" and isinstance(stmt.targets[0].slice, ast.Tuple)
            and len(stmt.targets[0].slice.elts) == 2):
        cond, tgt = stmt.targets[0].slice.elts
        _need(_u(stmt.value) in ("np.nan", "numpy.nan", "float('nan')"), "zero rule assigns %s" % _u(stmt.value))
        col, op, k = _col_compare(cond)
        _need(isinstance(tgt, ast.Constant) and COLS.get(tgt.value) == col, "zero rule writes another column than it tests")
        return col, op, k
    # df["observed"] = df["observed"].where(<keep condition>)  /  .mask(<blank condition>)
    if (isinstance(stmt, ast.Assign) and len(stmt.targets) == 1 and isinstance(stmt.value, ast.Call)
            and isinstance(stmt.value.func, ast.Attribute) and stmt.value.func.attr in ("where", "mask")
            and len(stmt.value.args) == 1 and not stmt.value.keywords):
        col, op, k = _col_compare(stmt.value.args[0])
        _need(_u(stmt.targets[0]) == "df['%s']" % [n for n, c in COLS.items() if c == col][0]
              and _u(stmt.value.func.value) == _u(stmt.targets[0]), "zero rule: where/mask on another column")
        return col, (NEG[op] if stmt.value.func.attr == "where" else op), k
    raise Unread("zero rule: statement not recognised: %s" % _u(stmt))


def read_set_data():
    tree = _parse("opendsm/eemeter/models/hourly/data.py")
    f = _func(tree, "_set_data", "_HourlyData")
    steps, zero, after = [], None, []
    for stmt in f.body:
        src = _u(stmt)
        if isinstance(stmt, ast.If) and "is_electricity_data" in _u(stmt.test):
            _need(_u(stmt.test) == "self.is_electricity_data" and not stmt.orelse and len(stmt.body) == 1,
                  "electricity guard of another shape: %s" % _u(stmt.test))
            _need(zero is None, "two zero rules")
            zero = _zero_rule(stmt.body[0]) + (True,)
            steps.append("RZero")
        elif isinstance(stmt, ast.Assign) and "observed" in src and ("nan" in src or ".where(" in src or ".mask(" in src) \
                and "datetime" not in src:
            _need(zero is None, "two zero rules")
            zero = _zero_rule(stmt) + (False,)
            steps.append("RZero")
        elif "remove_duplicates(" in src:
            _need(src == "df = remove_duplicates(df)", "duplicate removal of another shape: %s" % src)
            steps.append("RDedup")
        elif "_get_contiguous_datetime(" in src:
            _need(src == "df = self._get_contiguous_datetime(df)", "contiguous step of another shape: %s" % src)
            after.append("contiguous")
        elif "_interpolate(" in src:
            _need(src == "df = self._interpolate(df)", "interpolation step of another shape: %s" % src)
            after.append("interpolate")
        elif "sort_index" in src or "sort_values" in src or ".floor(" in src or ".round(" in src or ".ceil(" in src \
                or "drop_duplicates" in src or "dropna" in src or "fillna" in src or "interpolate" in src:
            raise Unread("_set_data contains a row-changing statement outside the table: %s" % src)
    _need(zero is not None, "no zero rule found in _set_data")
    _need(all(s in ("RZero", "RDedup") for s in steps), "steps")
    # row-level steps must all come before the contiguous step: recompute by position
    order = []
    for stmt in f.body:
        src = _u(stmt)
        if "remove_duplicates(" in src:
            order.append("RDedup")
        elif "_get_contiguous_datetime(" in src:
            order.append("contiguous")
        elif "_interpolate(" in src:
            order.append("interpolate")
        elif (isinstance(stmt, ast.If) and "is_electricity_data" in _u(stmt.test)) or \
                (isinstance(stmt, ast.Assign) and "observed" in src and ("nan" in src or ".where(" in src or ".mask(" in src)
                 and "datetime" not in src):
            order.append("RZero")
    tail_ok = order[-2:] == ["contiguous", "interpolate"] and all(s in ("RZero", "RDedup") for s in order[:-2])
    return {"row_steps": [s for s in order if s in ("RZero", "RDedup")], "tail_ok": tail_ok, "zero": zero}


def read_contiguous():
    tree = _parse("opendsm/eemeter/models/hourly/data.py")
    f = _func(tree, "_get_contiguous_datetime", "_HourlyData")
    hours = {}
    freq = None
    for node in ast.walk(f):
        if isinstance(node, ast.Assign) and isinstance(node.value, ast.Call) and isinstance(node.value.func, ast.Attribute) \
                and node.value.func.attr == "replace":
            base = _u(node.value.func.value)
            kw = {k.arg: k.value for k in node.value.keywords}
            _need(set(kw) == {"hour", "minute", "second", "microsecond"} and not node.value.args, "replace(...) keywords: %s" % sorted(kw))
            _need(all(_const_int(kw[k]) == 0 for k in ("minute", "second", "microsecond")), "replace(...) of minute/second is not 0")
            if base == "df.index.min()":
                hours["first"] = _const_int(kw["hour"])
            elif base == "df.index.max()":
                hours["last"] = _const_int(kw["hour"])
            else:
                raise Unread("replace(...) applied to %s" % base)
        if isinstance(node, ast.Call) and _u(node.func) == "pd.date_range":
            kw = {k.arg: k.value for k in node.keywords}
            _need(set(kw) == {"start", "end", "freq"} and not node.args, "date_range arguments")
            _need(_u(kw["start"]) == "earliest_datetime" and _u(kw["end"]) == "latest_datetime", "date_range start/end")
            _need(isinstance(kw["freq"], ast.Constant) and str(kw["freq"].value).lower() in ("h", "1h", "60min", "30min", "15min", "2h"),
                  "date_range freq %s" % _u(kw["freq"]))
            freq = {"h": 60, "1h": 60, "60min": 60, "30min": 30, "15min": 15, "2h": 120}[str(kw["freq"].value).lower()]
    _need(set(hours) == {"first", "last"} and freq is not None, "first/last stamp or date_range not found")
    _need(any(_u(n) == "df = df.reindex(complete_dt)" for n in ast.walk(f) if isinstance(n, ast.Assign)), "reindex(complete_dt) not found")
    return hours["first"], hours["last"], freq


def read_keep():
    tree = _parse("opendsm/eemeter/common/data_processor_utilities.py")
    f = _func(tree, "remove_duplicates")
    rets = [n for n in f.body if isinstance(n, ast.Return)]
    _need(len(rets) == 1 and len([n for n in f.body if not (isinstance(n, ast.Expr) and isinstance(n.value, ast.Constant))]) == 1,
          "remove_duplicates has more than a return statement")
    src = _u(rets[0].value)
    for k, tag in (("first", "KeepFirst"), ("last", "KeepLast")):
        if src == "df_or_series[~df_or_series.index.duplicated(keep='%s')]" % k:
            return tag
    if src == "df_or_series[~df_or_series.index.duplicated()]":
        return "KeepFirst"
    raise Unread("remove_duplicates returns %s" % src)


def read_interpolate():
    tree = _parse("opendsm/common/hourly_interpolation.py")
    f = _func(tree, "interpolate")
    # --- the if / elif chain deciding skip_autocorr_interpolation: the else branch skips, the last elif gives the bound
    chain = [n for n in f.body if isinstance(n, ast.If) and "len(df)" in _u(n.test)]
    _need(len(chain) == 1, "length chain not found")
    node, bounds = chain[0], []
    while True:
        test = node.test
        first = test.values[0] if isinstance(test, ast.BoolOp) and isinstance(test.op, ast.And) else test
        _need(isinstance(first, ast.Compare) and _u(first.left) == "len(df)" and len(first.ops) == 1 and isinstance(first.ops[0], ast.Gt),
              "length test of another shape: %s" % _u(test))
        bounds.append(_const_int(first.comparators[0]))
        _need(any(_u(s).startswith("lags =") for s in node.body), "branch without lags")
        if len(node.orelse) == 1 and isinstance(node.orelse[0], ast.If):
            node = node.orelse[0]
            continue
        _need(len(node.orelse) == 1 and _u(node.orelse[0]) == "skip_autocorr_interpolation = True", "else branch does not skip")
        break
    _need(bounds == sorted(bounds, reverse=True), "length bounds not descending")
    min_rows = bounds[-1]
    # --- the column loop
    loops = [n for n in f.body if isinstance(n, ast.For) and _u(n.iter) == "interp_cols"]
    _need(len(loops) == 1, "column loop not found")
    body = loops[0].body
    srcs = [_u(s) for s in body]
    i_missing = [i for i, s in enumerate(srcs) if s == "idx_missing = df.loc[df[col].isna()].index"]
    _need(len(i_missing) == 1, "idx_missing of another shape")
    i_auto = [i for i, s in enumerate(body) if isinstance(s, ast.If) and _u(s.test) == "not skip_autocorr_interpolation"]
    _need(len(i_auto) == 1 and [_u(s) for s in body[i_auto[0]].body] == ["df[col] = _interpolate_col(df[col].copy(), lags)"]
          and not body[i_auto[0]].orelse, "autocorrelation stage of another shape")
    i_for = [i for i, s in enumerate(body) if isinstance(s, ast.For) and _u(s.target) == "method"]
    _need(len(i_for) == 1, "fall-back loop not found")
    _need(i_missing[0] < i_auto[0] < i_for[0], "order: idx_missing, autocorrelation stage, fall-backs")
    fl = body[i_for[0]]
    _need(isinstance(fl.iter, (ast.List, ast.Tuple)) and all(isinstance(e, ast.Constant) and isinstance(e.value, str) for e in fl.iter.elts),
          "fall-back list is not a literal list of strings")
    methods = [e.value for e in fl.iter.elts]
    fsrc = [_u(s) for s in fl.body]
    _need(len(fl.body) == 3 and fsrc[0] == "na_datetime = df.loc[df[col].isna()].index"
          and fsrc[1] == "if len(na_datetime) == 0:\n    break", "fall-back loop: missing-check / break of another shape")
    branches = {}
    node = fl.body[2]
    while isinstance(node, ast.If):
        t = node.test
        _need(isinstance(t, ast.Compare) and _u(t.left) == "method" and isinstance(t.ops[0], ast.Eq)
              and isinstance(t.comparators[0], ast.Constant), "fall-back branch test %s" % _u(t))
        _need(len(node.body) == 1, "fall-back branch with several statements")
        branches[t.comparators[0].value] = node.body[0]
        _need(len(node.orelse) <= 1, "fall-back branch else")
        node = node.orelse[0] if node.orelse else None
    _need(node is None, "fall-back chain ends in an else")
    table = []
    for m in methods:
        _need(m in branches, "fall-back method %r has no branch" % m)
        st = branches[m]
        _need(isinstance(st, ast.Assign) and _u(st.targets[0]) == "df[col]" and isinstance(st.value, ast.Call)
              and isinstance(st.value.func, ast.Attribute) and _u(st.value.func.value) == "df[col]", "branch %r: %s" % (m, _u(st)))
        call = st.value
        kw = {k.arg: k.value for k in call.keywords}
        if call.func.attr == "interpolate":
            _need(not call.args and set(kw) == {"method", "limit_direction"} and _u(kw["method"]) == "'time'", "interpolate(...) arguments: %s" % _u(call))
            d = {"'both'": "LBoth", "'forward'": "LForward", "'backward'": "LBackward"}.get(_u(kw["limit_direction"]))
            _need(d is not None, "limit_direction %s" % _u(kw["limit_direction"]))
            table.append("FTime %s" % d)
        elif call.func.attr in ("ffill", "bfill"):
            _need(not call.args and not kw, "%s with arguments" % call.func.attr)
            table.append("FFfill" if call.func.attr == "ffill" else "FBfill")
        else:
            raise Unread("branch %r calls %s" % (m, call.func.attr))
    # --- flags
    rest = srcs[i_for[0] + 1:]
    _need(len(rest) == 2 and rest[0] == "df[interp_bool_col] = False", "flag statements of another shape: %s" % rest)
    if rest[1] == "df.loc[df.index.isin(idx_missing) & ~df[col].isna(), interp_bool_col] = True":
        flag = "FlagMissingAndPresent"
    elif rest[1] == "df.loc[df.index.isin(idx_missing), interp_bool_col] = True":
        flag = "FlagMissing"
    else:
        raise Unread("flag assignment: %s" % rest[1])
    return min_rows, table, flag


def read_table():
    sd = read_set_data()
    first, last, freq = read_contiguous()
    keep = read_keep()
    min_rows, fallbacks, flag = read_interpolate()
    col, op, k, guarded = sd["zero"]
    return {"min_rows": min_rows, "fallbacks": fallbacks, "keep": keep, "row_steps": sd["row_steps"], "tail_ok": sd["tail_ok"],
            "zero_col": col, "zero_op": op, "zero_const": k, "zero_guarded": guarded,
            "first_hour": first, "last_hour": last, "freq": freq, "flag": flag}


def coq_text(tab, why):
    head = ("(* GENERATED by harness/translate_hourlyprep.py from the source under verification — do not edit. *)\n"
            "From Coq Require Import ZArith List Bool.\nFrom V Require Import Model.HourlyPrep Model.HourlyPrepTable.\n"
            "Import ListNotations.\nOpen Scope Z_scope.\n\n")
    if tab is None:
        return head + "(* structure not recognised: %s *)\nDefinition gen_pipeline : option pipeline := None.\n" % why.replace("*)", "* )")
    b = lambda x: "true" if x else "false"
    return head + (
        "Definition gen_pipeline : option pipeline := Some (mkpipeline\n"
        "  %s (* rows at or under which the autocorrelation stage is skipped *)\n"
        "  [%s] (* fall-back methods, in source order *)\n"
        "  %s [%s] %s (* keep; row-level steps of _set_data in source order; then contiguous, then interpolate *)\n"
        "  %s %s %s %s (* zero rule: column, comparison, constant, guarded by is_electricity_data *)\n"
        "  %s %s %s (* hour of the first stamp, hour of the last stamp, grid step in minutes *)\n"
        "  %s).\n" % (
            vlib.zlit(tab["min_rows"]), "; ".join(tab["fallbacks"]), tab["keep"], "; ".join(tab["row_steps"]), b(tab["tail_ok"]),
            tab["zero_col"], tab["zero_op"], vlib.zlit(tab["zero_const"]), b(tab["zero_guarded"]),
            vlib.zlit(tab["first_hour"]), vlib.zlit(tab["last_hour"]), vlib.zlit(tab["freq"]), tab["flag"]))


def generate(run):
    """writes coq/Generated/HourlyPrepGen.v; returns (table or None, reason)"""
    try:
        tab, why = read_table(), ""
    except Unread as e:
        tab, why = None, str(e)
    except (SyntaxError, OSError) as e:
        tab, why = None, "%s: %s" % (type(e).__name__, e)
    text = coq_text(tab, why)
    if run is not None:
        run.write_generated("Generated/HourlyPrepGen.v", text)
    else:
        p = os.path.join(vlib.COQ, "Generated", "HourlyPrepGen.v")
        old = open(p).read() if os.path.exists(p) else None
        if old != text:
            open(p, "w").write(text)
    return tab, why


if __name__ == "__main__":
    print(generate(None))
