"""C19 — billing aggregation of predictions conserves totals.
Model: coq/Model/BillingAgg.v; theorems: coq/Properties/C19.v; tie: correspondence (this file).

For every generated reporting data set the implementation is run with aggregation None, a spelling of "none",
"monthly", "bimonthly" and a few undocumented arguments.  The un-aggregated frame is the *input* of the Gallina
model (rows: local civil day number + the aggregated columns, exact binary64 values as rationals); the model's
aggregate (calendar computed in Coq) is compared inside coqc with what the implementation returned.  The property
oracle below is a literal transcription of the statement on the implementation's frames (exact rational sums)."""
import contextlib
import datetime as dt
import io
import json
import math
import os
import warnings
from fractions import Fraction

import numpy as np
import pandas as pd

import synth_daily as sd
import vlib
from vlib import Run, zlit, qlit, coq_list, coq_bool, coq_opt, coq_string

warnings.simplefilter("ignore")

IMPORTS = "From Coq Require Import QArith.\nFrom V Require Import Model.BillingAgg Model.BillingAggRun."
ZONES = ["US/Pacific", "UTC", "Europe/Berlin", "Australia/Sydney", "America/New_York", "Asia/Kolkata",
         "Pacific/Auckland", "America/St_Johns",
         # zones whose DST change happens at local midnight (a month can start at 01:00)
         "America/Asuncion", "America/Sao_Paulo", "Asia/Beirut", "America/Havana"]
CLASS_ZONES = ZONES[:7]
SEASON_CODE = {"summer": 0, "shoulder": 1, "winter": 2}
MTYPE_CODE = {"tidd": 0, "hdd_tidd_cdd": 1, "hdd_tidd": 2, "tidd_cdd": 3, "hdd_tidd_cdd_smooth": 4,
              "hdd_tidd_smooth": 5, "tidd_cdd_smooth": 6}
ERR_CODE = {"ValueError": "ValueErr", "AttributeError": "AttributeErr", "KeyError": "KeyErr"}
NONE_SPELLINGS = ["none", "None", "NONE", "nOnE", "noNE"]
BAD_STRINGS = ["quarterly", "Monthly", "MONTHLY", "Bimonthly", "BIMONTHLY", "month", "months", "", " ", "yearly", "annual",
               "MS", "2MS", "ME", "monthly ", " monthly", "weekly", "daily", "bi-monthly", "bi_monthly", "bimonth",
               "semimonthly", "nonee", "non", "null", "nil", "no", "3MS", "QS", "M", "2M", "billing", "trimonthly"]
BAD_OBJECTS = [5, 0, 1, 2, 1.5, True, False, ["monthly"], ("monthly",), ("bimonthly",), {"monthly": 1}]
MODE_NAMES = {0: "ObsRequired (aggregating reporting data without an observed column raises KeyError: unchanged code)",
              1: "ObsOptional (the observed column is aggregated only when present)"}
COLS = ["observed", "predicted", "heating_load", "cooling_load"]


# ------------------------------------------------------------------ generator

def gen_cells(rng, n, p_nan, lo, hi, den):
    out = []
    for _ in range(n):
        if rng.random() < p_nan:
            out.append("nan")
        else:
            fr = sd.dy(rng, lo, hi, den)
            out.append([fr.numerator, fr.denominator])
    return out


def gen_case(rng, k):
    u = rng.random()
    kind = "weighted" if u < 0.12 else "billing"
    stream = "injected" if (kind == "weighted" or rng.random() < 0.65) else "class"
    tz = rng.choice(CLASS_ZONES if stream == "class" else ZONES)
    subs = sd.gen_submodels(rng)
    n = rng.choice([1, 2, 5, 20, 31, 45, 62, 90, 150, 250, 400] if kind != "weighted" else [120, 200, 300, 400])
    if stream == "class" and n < 40:
        n = rng.choice([45, 62, 90, 150])
    shape = k % 6
    base = dt.date(2015, 1, 1) + dt.timedelta(days=rng.randrange(0, 5000))
    if shape == 0:      # starts on the first day of a month
        base = base.replace(day=1)
    elif shape == 1:    # starts on the last day of a month
        base = (base.replace(day=1) - dt.timedelta(days=1))
    elif shape == 2:    # starts in December: the span crosses a year
        base = base.replace(month=12, day=rng.randrange(1, 29))
    elif shape == 3 and tz in ("America/Asuncion", "America/Sao_Paulo", "Asia/Beirut", "America/Havana"):
        # spans a month whose first midnight does not exist
        base = {"America/Asuncion": dt.date(2017, 9, rng.randrange(1, 29)), "America/Sao_Paulo": dt.date(2018, 10, rng.randrange(5, 29)),
                "Asia/Beirut": dt.date(2021, 3, rng.randrange(1, 27)), "America/Havana": dt.date(2021, 2, rng.randrange(15, 28))}[tz]
        n = max(n, 45)
    gaps = set()
    if stream == "injected" and kind == "billing" and n > 3:
        if rng.random() < 0.4:
            gaps |= set(rng.sample(range(n), rng.randrange(0, max(1, n // 5))))
        if n >= 90 and rng.random() < 0.45:     # a hole longer than a month: an empty period
            a = rng.randrange(5, n - 60)
            gaps |= set(range(a, a + rng.randrange(32, 75)))
        gaps.discard(0)
    has_obs = True if kind == "weighted" else (rng.random() < 0.75)
    p_tnan = rng.choice([0.0, 0.05, 0.3] if k % 9 else [1.0])
    p_onan = rng.choice([0.0, 0.05, 0.3] if k % 11 else [1.0])
    m = n - len(gaps)
    if kind == "weighted":      # piecewise-constant usage (bills of 25..35 days), no missing cells
        obs, j = [], 0
        while len(obs) < m:
            v = sd.dy(rng, 1, 200, 8)
            obs += [[v.numerator, v.denominator]] * rng.randrange(25, 36)
        obs = obs[:m]
        temp = gen_cells(rng, m, 0.0, -40, 120, 4)
    else:
        obs = gen_cells(rng, m, p_onan, -50, 200, 8)
        temp = gen_cells(rng, m, p_tnan, -40, 120, 4)
    pool = [rng.choice(BAD_STRINGS) for _ in range(2)] + [rng.choice(BAD_OBJECTS)]
    if rng.random() < 0.3:
        pool.append("".join(rng.choice("abcdefghijklmnopqrstuvwxyzMNOE _-2") for _ in range(rng.randrange(1, 10))))
    if k % 4 == 0 and "quarterly" not in pool:
        pool[0] = "quarterly"
    return {"model": kind, "stream": stream, "tz": tz, "start": base.isoformat(), "n": n, "gaps": sorted(gaps),
            "has_obs_col": has_obs, "electricity": rng.random() < 0.5,
            "submodels": [{k2: (v if not isinstance(v, Fraction) else [v.numerator, v.denominator]) for k2, v in s.items()}
                          for s in subs],
            "temperature": temp, "observed": obs,
            "none_spelling": rng.choice(NONE_SPELLINGS), "bad_args": pool}


def subs_of(case):
    out = []
    for s in case["submodels"]:
        out.append({k: (Fraction(v[0], v[1]) if isinstance(v, list) and len(v) == 2 and all(isinstance(x, int) for x in v)
                        and k not in ("seasons",) else v) for k, v in s.items()})
    return out


# ------------------------------------------------------------------ implementation adapter

def local_days_index(start, n, tz, gaps):
    naive = pd.date_range(start=start, periods=n, freq="D")
    if gaps:
        g = set(gaps)
        naive = naive[[i for i in range(n) if i not in g]]
    idx = naive.tz_localize(tz, nonexistent="shift_forward", ambiguous=True)
    return idx


def build(case):
    subs = subs_of(case)
    with contextlib.redirect_stdout(io.StringIO()):
        model = sd.build_model("billing", subs, case["tz"])
        if case["model"] == "weighted":
            from opendsm.eemeter.models.billing import BillingWeightedModel
            model = BillingWeightedModel.from_dict(model.to_dict())
    idx = local_days_index(case["start"], case["n"], case["tz"], case["gaps"])
    fr = pd.DataFrame({"temperature": [sd.dec(v) for v in case["temperature"]],
                       "observed": [sd.dec(v) for v in case["observed"]]}, index=idx, dtype=float)
    fr = fr[~fr.index.duplicated()]
    if not case["has_obs_col"]:
        fr = fr[["temperature"]]
    if case["stream"] == "injected":
        return model, sd.inject("billing", sd.layout(fr, case["has_obs_col"]), case["tz"]), subs
    cls = sd.data_classes("billing")
    return model, cls(fr, is_electricity_data=case["electricity"]), subs


def local_date_parts(idx):
    """(day number since 1970-01-01 of the local date, year, month, day) per label"""
    loc = idx.tz_localize(None) if idx.tz is not None else idx
    out = []
    for t in loc:
        d = dt.date(t.year, t.month, t.day)
        out.append((d.toordinal() - 719163, t.year, t.month, t.day))
    return out


def cells(frame, col):
    if col not in frame.columns:
        return None
    return [sd.enc(v) for v in frame[col].to_numpy(dtype=float)]


def codes(frame, col, table):
    if col not in frame.columns:
        return [None] * len(frame)
    out = []
    for v in frame[col].tolist():
        if v is None or (isinstance(v, float) and v != v) or v is pd.NA:
            out.append(None)
        else:
            out.append(table[v] if not callable(table) else table(v))
    return out


def observe_frame(fr, split_keys):
    parts = local_date_parts(fr.index)
    return {"n": len(fr), "day": [p[0] for p in parts], "ymd": [list(p[1:]) for p in parts],
            "ts": sd.index_seconds(fr.index), "unique": bool(fr.index.is_unique), "sorted": bool(fr.index.is_monotonic_increasing),
            "temperature": cells(fr, "temperature"), "observed": cells(fr, "observed"), "predicted": cells(fr, "predicted"),
            "predicted_unc": cells(fr, "predicted_unc"), "heating_load": cells(fr, "heating_load"),
            "cooling_load": cells(fr, "cooling_load"),
            "season": codes(fr, "season", SEASON_CODE), "model_split": codes(fr, "model_split", lambda v: split_keys.index(v)),
            "model_type": codes(fr, "model_type", MTYPE_CODE),
            "columns": list(fr.columns)}


def arg_repr(a):
    return a if isinstance(a, str) or a is None else {"py": repr(a)}


def run_impl(case):
    try:
        model, data, subs = build(case)
        df_in = getattr(data, model._data_df_name)
    except Exception as e:
        return {"ctor_error": type(e).__name__ + ": " + str(e)[:120]}
    split_keys = [s["key"] for s in subs]
    obs = {"has_obs": "observed" in df_in.columns, "tz": case["tz"], "runs": []}
    args = [None, case["none_spelling"], "monthly", "bimonthly"] + list(case["bad_args"])
    daily = None
    for a in args:
        a_py = a
        if isinstance(a, dict) and "py" in a:       # replayed case: non-string objects are stored by their repr
            a_py = eval(a["py"], {"__builtins__": {}}, {"True": True, "False": False})
        rec = {"arg": arg_repr(a_py)}
        try:
            out = model.predict(data, aggregation=a_py)
        except Exception as e:
            rec.update(kind="err", err=type(e).__name__, msg=str(e)[:100])
            obs["runs"].append(rec)
            continue
        if a is None:
            daily = out
            rec.update(kind="frame", same_as_daily=True, frame=observe_frame(out, split_keys))
        elif isinstance(a_py, str) and a_py in ("monthly", "bimonthly"):
            rec.update(kind="agg", frame=observe_frame(out, split_keys), first_ts=None)
            rec["label_ok"] = label_instants_ok(out.index, case["tz"])
        else:
            same = daily is not None and out.shape == daily.shape and list(out.columns) == list(daily.columns) and out.equals(daily)
            rec.update(kind="frame", same_as_daily=bool(same), n=len(out))
        obs["runs"].append(rec)
    return obs


def label_instants_ok(idx, tz):
    """every label is the first instant of a local calendar month"""
    for t in idx:
        first = pd.Timestamp(year=t.year, month=t.month, day=1).tz_localize(tz, nonexistent="shift_forward", ambiguous=True)
        if t != first:
            return False
    return True


def detect_mode():
    """how does the implementation aggregate reporting data without an observed column?"""
    case = {"model": "billing", "stream": "injected", "tz": "UTC", "start": "2021-03-20", "n": 20, "gaps": [],
            "has_obs_col": False, "electricity": False,
            "submodels": [{"key": "fw-su_sh_wi", "seasons": ["su", "sh", "wi"], "days": "fw", "type": "tidd",
                           "intercept": [7, 1], "hdd_bp": [50, 1], "cdd_bp": [60, 1], "hdd_beta": [0, 1], "cdd_beta": [0, 1],
                           "f_unc": [1, 2]}],
            "temperature": [[50, 1]] * 20, "observed": [[1, 1]] * 20, "none_spelling": "none", "bad_args": ["quarterly"],
            "comment": "witness of C19_statement_refuted_as_coded: reporting data without usage, aggregation='monthly'"}
    obs = run_impl(case)
    r = [x for x in obs["runs"] if x["arg"] == "monthly"][0]
    if r["kind"] == "err" and r["err"] == "KeyError":
        return 0, case, obs
    if r["kind"] == "agg" and r["frame"]["observed"] is None and r["frame"]["n"] == 2:
        return 1, case, obs
    return None, case, obs


# ------------------------------------------------------------------ property oracle (statement, literally)

def fr_of(v):
    return None if isinstance(v, str) else Fraction(v[0], v[1])


def close(a, b, tol=Fraction(1, 10**9)):
    return abs(a - b) <= tol * max(1, abs(a), abs(b))


def fsum(vals):
    return sum((fr_of(v) for v in vals if not isinstance(v, str)), Fraction(0))


def oracle(case, obs):
    """-> list of (signature, message, detail)"""
    fails = []
    base = {"model": case["model"]}
    runs = obs["runs"]
    daily = runs[0]["frame"] if runs and runs[0]["kind"] == "frame" and "frame" in runs[0] else None
    if daily is None:
        fails.append((dict(base, defect="aggregation=None raises", error=runs[0].get("err")), "predict(aggregation=None) raised", runs[0]))
        return fails
    for r in runs[1:]:
        a = r["arg"]
        documented_none = isinstance(a, str) and a.lower() == "none"
        if documented_none:
            if r["kind"] != "frame" or not r["same_as_daily"]:
                fails.append((dict(base, defect="a spelling of 'none' does not return the un-aggregated frame"),
                              "aggregation=%r did not return the daily frame" % (a,), {k: r[k] for k in r if k != "frame"}))
            continue
        if a not in ("monthly", "bimonthly"):
            if r["kind"] != "err":
                fails.append((dict(base, defect="undocumented aggregation argument accepted", arg=str(a)),
                              "aggregation=%r was accepted (returned a frame of %s rows)" % (a, r.get("n", r.get("frame", {}).get("n"))),
                              {"arg": a}))
            continue
        k = 1 if a == "monthly" else 2
        if r["kind"] != "agg":
            if r.get("err") == "KeyError" and not obs["has_obs"]:
                cause = "observed column absent"
            elif "nonexistent time" in (r.get("msg") or "") or "Cannot infer dst time" in (r.get("msg") or ""):
                cause = "first or closing bin edge is a nonexistent or ambiguous local midnight"
            else:
                cause = "other"
            fails.append((dict(base, defect="documented aggregation raises", error=r.get("err"), cause=cause),
                          "aggregation=%r raised %s: %s" % (a, r.get("err"), r.get("msg")),
                          {"arg": a, "has_observed": obs["has_obs"], "tz": case["tz"], "run": a}))
            continue
        out = r["frame"]
        months = [12 * y + (m - 1) for y, m, _ in daily["ymd"]]
        if not months:
            continue
        m0, m1 = months[0], months[-1]       # the daily frame is sorted by time
        exp_labels = list(range(m0, m1 + 1, k))
        got_labels = [12 * y + (m - 1) for y, m, _ in out["ymd"]]
        if got_labels != exp_labels or any(d != 1 for _, _, d in out["ymd"]) or not r["label_ok"] or not out["unique"]:
            fails.append((dict(base, defect="not one row per calendar period", agg=a),
                          "aggregation=%r: labels %s, expected the first instants of months %s" % (a, out["ymd"][:6], exp_labels[:6]),
                          {"arg": a, "labels": out["ymd"], "expected_month_indices": exp_labels}))
            continue
        for col in COLS + ["predicted_unc", "temperature"]:
            if out[col] is None:
                if col == "observed" and not obs["has_obs"]:
                    continue
                fails.append((dict(base, defect="column missing in the aggregated frame", column=col, agg=a), "column %s missing" % col, {}))
                continue
            dcol = daily[col] if daily[col] is not None else ["nan"] * daily["n"]
            for j, lab in enumerate(exp_labels):
                grp = [v for v, mi in zip(dcol, months) if lab <= mi < lab + k]
                got = out[col][j]
                if col in COLS:
                    want = fsum(grp)
                    ok = not isinstance(got, str) and close(fr_of(got), want)
                elif col == "predicted_unc":
                    want = sum((fr_of(v) ** 2 for v in grp if not isinstance(v, str)), Fraction(0))
                    ok = not isinstance(got, str) and fr_of(got) >= 0 and close(fr_of(got) ** 2, want)
                else:
                    vals = [fr_of(v) for v in grp if not isinstance(v, str)]
                    want = (sum(vals, Fraction(0)) / len(vals)) if vals else None
                    ok = (got == "nan") if want is None else (not isinstance(got, str) and close(fr_of(got), want))
                if not ok:
                    fails.append((dict(base, defect="period value is not the aggregate of its days", column=col, agg=a),
                                  "aggregation=%r, period starting month %d-%02d: %s = %s, the %d daily rows give %s" % (
                                      a, lab // 12, lab % 12 + 1, col, sd.dec(got) if got is not None else None, len(grp),
                                      None if want is None else (float(want) if col != "predicted_unc" else math.sqrt(float(want)))),
                                  {"arg": a, "period_month_index": lab, "column": col, "returned": got,
                                   "expected": None if want is None else [want.numerator, want.denominator]}))
                    break
            if col in COLS or col == "predicted_unc":
                if col == "predicted_unc":
                    tot_d = sum((fr_of(v) ** 2 for v in dcol if not isinstance(v, str)), Fraction(0))
                    tot_a = sum((fr_of(v) ** 2 for v in out[col] if not isinstance(v, str)), Fraction(0))
                else:
                    tot_d, tot_a = fsum(dcol), fsum(out[col])
                if any(isinstance(v, str) for v in out[col]) or not close(tot_a, tot_d):
                    fails.append((dict(base, defect="totals differ between aggregation levels", column=col, agg=a),
                                  "aggregation=%r: total %s = %s, daily total %s" % (a, col, float(tot_a), float(tot_d)),
                                  {"arg": a, "column": col, "aggregated_total": float(tot_a), "daily_total": float(tot_d)}))
    return fails


# ------------------------------------------------------------------ Coq terms

def cell(v):
    if v is None or v == "nan":
        return "qn"
    if isinstance(v, str):
        raise ValueError("infinite cell")
    return "(qs %s)" % qlit(Fraction(v[0], v[1]))


def zopt(v):
    return coq_opt(v, zlit)


def col_or_nan(fr, col):
    return fr[col] if fr[col] is not None else ["nan"] * fr["n"]


def coq_rows(fr):
    cols = [col_or_nan(fr, c) for c in ("temperature", "observed", "predicted", "predicted_unc", "heating_load", "cooling_load")]
    rows = []
    for i in range(fr["n"]):
        rows.append("(mkdrow %s %s %s %s %s)" % (zlit(fr["day"][i]), " ".join(cell(c[i]) for c in cols),
                                              zopt(fr["season"][i]), zopt(fr["model_split"][i]), zopt(fr["model_type"][i])))
    return coq_list(rows)


def coq_xrows(fr):
    cols = [col_or_nan(fr, c) for c in ("temperature", "observed", "predicted", "predicted_unc", "heating_load", "cooling_load")]
    rows = []
    for i in range(fr["n"]):
        y, m, _ = fr["ymd"][i]
        rows.append("(mkxrow %s %s %s %s %s %s)" % (zlit(12 * y + (m - 1)), zlit(fr["day"][i]), " ".join(cell(c[i]) for c in cols),
                                                 zopt(fr["season"][i]), zopt(fr["model_split"][i]), zopt(fr["model_type"][i])))
    return coq_list(rows)


def coq_arg(a):
    if a is None:
        return "ArgNone"
    if isinstance(a, str):
        return "(ArgStr %s)" % coq_string(a)
    return "ArgOther"


def coq_expected(r):
    if r["kind"] == "err":
        code = ERR_CODE.get(r["err"])
        return None if code is None else "(ExpErr %s)" % code
    if r["kind"] == "agg":
        return "(ExpAgg %s)" % coq_xrows(r["frame"])
    return "(ExpDaily %s)" % coq_bool(r["same_as_daily"])


def has_inf(fr):
    return any(isinstance(v, str) and v != "nan" for c in ("temperature", "observed", "predicted", "predicted_unc",
                                                            "heating_load", "cooling_load") if fr[c] for v in fr[c])


# ------------------------------------------------------------------ main

def process(run, cases, mode):
    terms, meta = [], []
    for case in cases:
        obs = run_impl(case)
        key = vlib.sha(case)
        if "ctor_error" in obs:
            run.dist("data_object", "refused: " + obs["ctor_error"].split(":")[0])
            run.count(key, nontrivial=False)
            continue
        runs = obs["runs"]
        daily = runs[0].get("frame") if runs[0]["kind"] == "frame" else None
        run.dist("stream", "%s/%s" % (case["model"], case["stream"]))
        run.dist("has_observed", obs["has_obs"])
        run.dist("zone", case["tz"])
        if daily is not None:
            months = sorted({12 * y + m - 1 for y, m, _ in daily["ymd"]})
            span = (months[-1] - months[0] + 1) if months else 0
            run.dist("months_spanned", span)
            run.dist("empty_months", min(3, span - len(months)))
            run.dist("rows", 10 ** len(str(max(1, daily["n"]))))
            run.dist("starts_on_day_1", bool(daily["ymd"] and daily["ymd"][0][2] == 1))
        nontrivial = daily is not None and daily["n"] >= 2 and len({(y, m) for y, m, _ in daily["ymd"]}) >= 2
        seen = {}
        known_raises = set()      # arguments whose exception is a listed known finding: not compared with the model again
        for sig, msg, detail in oracle(case, obs):
            if vlib.sha(sig) not in seen:
                seen[vlib.sha(sig)] = run.violation(
                    sig, "C19 %s model: %s" % (case["model"], msg), case=case, observation=detail,
                    expected="one row per calendar period carrying the sums / mean / root-sum-square of its daily rows; "
                             "totals equal at every level; any other aggregation argument rejected",
                    generator="c19.gen_case")
            if not seen[vlib.sha(sig)] and sig.get("defect") == "documented aggregation raises" and sig.get("cause") != "observed column absent":
                known_raises.add(detail["run"])
        if daily is None or has_inf(daily) or not daily["sorted"]:
            run.count(key, nontrivial=False, n=len(runs))
            if daily is not None:
                run.corr_failures.append({"stream": "predict", "case": case,
                                          "impl": "un-aggregated frame outside the model's alphabet (infinite cell / unsorted index)"})
            continue
        pairs = []
        for r in runs:
            a = r["arg"]
            akey = "None" if a is None else (a if isinstance(a, str) else a["py"])
            run.count((key, akey), nontrivial and a is not None)
            outcome = r["kind"] if r["kind"] != "err" else r["err"]
            cls = "None" if a is None else ("none-spelling" if isinstance(a, str) and a.lower() == "none" else
                                            (a if a in ("monthly", "bimonthly") else ("other string" if isinstance(a, str) else "non-string")))
            run.dist("argument -> outcome", "%s -> %s" % (cls, outcome))
            if r["kind"] == "err" and isinstance(a, str) and a in known_raises:
                run.dist("known finding, not compared with the model", "%s -> %s" % (a, r["err"]))
                continue
            if r["kind"] == "agg" and has_inf(r["frame"]):
                run.corr_failures.append({"stream": "predict", "case": case, "arg": a, "impl": "infinite cell in the aggregated frame"})
                continue
            exp = coq_expected(r)
            if exp is None:
                run.corr_failures.append({"stream": "predict", "case": case, "arg": a, "impl": {k: r[k] for k in ("err", "msg")},
                                          "model": "exception class outside the model's alphabet"})
                continue
            pairs.append("(%s, %s)" % (coq_arg(a if not isinstance(a, dict) else 0), exp))
        terms.append("(%s, %s, %s, %s)" % (zlit(mode), coq_bool(obs["has_obs"]), coq_rows(daily), coq_list(pairs)))
        meta.append((case, obs))
        run.sample({"model": case["model"], "stream": case["stream"], "tz": case["tz"], "first_day": daily["ymd"][0] if daily["ymd"] else None,
                    "rows": daily["n"], "has_observed": obs["has_obs"],
                    "outcomes": {str(r["arg"]): (r["kind"] if r["kind"] != "err" else r["err"]) for r in runs},
                    "monthly_rows": next((r["frame"]["n"] for r in runs if r["arg"] == "monthly" and r["kind"] == "agg"), None),
                    "bimonthly_rows": next((r["frame"]["n"] for r in runs if r["arg"] == "bimonthly" and r["kind"] == "agg"), None)})
    if not terms:
        return
    run.log("implementation runs done (%d data sets), evaluating the model in Coq" % len(terms))
    bad = run.coq_cases("aggregate", IMPORTS, "", terms, "check_dataset", shard=max(6, min(40, len(terms) // 14 + 1)),
                        case_type="dataset")
    if bad is None:
        run.proof_ok = False
        return
    for i in bad[:4]:
        case, obs = meta[i]
        run.corr_failures.append({"stream": "aggregate", "case": case,
                                  "impl": [{k: r.get(k) for k in ("arg", "kind", "err")} for r in obs["runs"]],
                                  "model": run.coq_eval(IMPORTS, "", "show_dataset %s" % terms[i])[-2500:]})
    for i in bad[4:]:
        run.corr_failures.append({"stream": "aggregate", "case": meta[i][0]})


def calendar_cases(run):
    """ties the Gallina calendar to Python's datetime on random days + every month boundary of 2000..2049"""
    days = set()
    for y in range(2000, 2050):
        for m in range(1, 13):
            d = dt.date(y, m, 1).toordinal() - 719163
            days |= {d - 1, d}
    for _ in range(run.n(600, 6000)):
        days.add(run.rng.randrange(10957, 29220))
    terms = []
    for d in sorted(days):
        t = dt.date.fromordinal(d + 719163)
        terms.append("(%s, %s, %s, %s)" % (zlit(d), zlit(t.year), zlit(t.month), zlit(t.day)))
    bad = run.coq_cases("calendar", IMPORTS, "", terms, "check_calendar", shard=400)
    run.count("calendar", nontrivial=False, n=0)
    if bad is None:
        run.proof_ok = False
    else:
        for i in bad[:5]:
            run.corr_failures.append({"stream": "calendar", "case": terms[i], "impl": "datetime.date", "model": "civil_from_days differs"})


def main():
    run = Run("C19")
    run.cov["rule"] = (
        "synthetic billing models (1-6 sub-models, tidd / hdd_tidd_cdd, dyadic coefficients; 12% through BillingWeightedModel) x "
        "reporting sets of 1-400 local days starting on any day 2015-2028 (forced shapes: first/last day of a month, December, "
        "months whose first midnight does not exist) in 12 zones, day gaps and holes longer than a month, with/without observed "
        "column, NaN density 0/.05/.3/1 in temperature and usage; stream 'class' goes through BillingReportingData, 'injected' "
        "places the frame in the data object; each set is predicted with None, a spelling of 'none', 'monthly', 'bimonthly' and 3-4 "
        "undocumented arguments (strings and non-strings). distinct = (data set hash, argument); non-trivial = the frame spans "
        ">= 2 calendar months and the argument is not None")
    run.assumptions += [
        "the rows of the un-aggregated frame (aggregation=None) are the input of the model: C19 is about the aggregation stage; "
        "how that frame is produced is the subject of C06/C07/C11/C13",
        "the local calendar date of an index label is read through pandas (tz_localize(None)); the calendar arithmetic on day "
        "numbers is done by the model (civil_from_days, proved consistent for 2000-2049 by computation and compared with "
        "datetime.date on every run)",
        "cells are finite or NaN (+-inf cells are C07's subject); 1e-9 relative tolerance on sums (binary64 vs exact rationals)",
        "stream 'injected' bypasses the data-class constructor (frame placed in the private attribute _df)",
        "the treatment of a missing observed column the model is run with (obs_mode) is detected on the implementation by a "
        "probe; the property oracle, not the model, decides violations",
        "correspondence is sampled: agreement is established on the cases run",
    ]
    run.cov["trusted_base"] += ["harness/translate_billing_agg.py (ast reading of the aggregation chain and of the column/reducer table of "
                                "BillingModel.predict and BillingWeightedModel.predict; fail-closed; output in the samples)",
                                "harness/c19.py, harness/synth_daily.py (generator, adapter, canonicalisation, local-date extraction)",
                                "pandas semantics (resample('MS'/'2MS') bins on a tz-aware index, sum/mean/first NaN conventions, "
                                "np.sum on a Series) re-specified in Model/BillingAgg.v",
                                "Python str.lower agrees with the model's ASCII lower on the question `== 'none'`"]
    # step 0: the source's own tables (argument chain, column -> reducer) -> Generated/BillingAggGen.v
    import translate_billing_agg
    tables, terr = translate_billing_agg.generate(run)
    why = translate_billing_agg.unrecognised(tables, terr)
    run.cov["translated_from_source"] = {
        tag: {"argument_chain": ["%s%s -> %s%s" % (k, "" if lit is None else " %r" % lit, r, "" if rule is None else " %r" % rule)
                                 for (k, lit), (r, rule) in t["chain"]] + ["else -> raise " + t["else"]],
              "aggregation_table": ["%s: %s%s" % (c, red, " (only when present)" if opt else "") for c, red, opt in t["table"]]}
        for tag, t in tables.items()}
    run.sample({"translated_from_source": run.cov["translated_from_source"]})
    if why:
        # The aggregation block is algorithmic Python: a rewrite that keeps the behaviour may take a shape the translator does
        # not read.  That alone is not a violation (DESIGN 2.1: behavioural ties survive refactors): the source-table tie is
        # declared NOT established, the obligations are checked against the model's own tables, and the verdict rests on
        # the correspondence and the oracle below.  Tables that ARE read and say something else break C19_source_* for real.
        run.log("SOURCE TABLES NOT READ (obligations C19_source_argument_chain / C19_source_aggregation_table not established "
                "on this run; verdict from correspondence + oracle): " + why)
        run.cov["source_tables_tie"] = "NOT ESTABLISHED on this run: " + why
        translate_billing_agg.generate(run, fallback=True)
    else:
        run.cov["source_tables_tie"] = ("established: the if/elif chain on `aggregation` and the column/reducer table of BillingModel.predict "
                                        "and BillingWeightedModel.predict were read from the source and C19_source_* re-checked against them")
    run.check_proofs("Properties/C19.v", ["Proofs/BillingAggProofs.v", "Proofs/BillingAggRoot.v", "Proofs/BillingAggGenProofs.v"],
                     generated=["Generated/BillingAggGen.v"])
    run.ensure_models(["Model/BillingAggRun.v", "Model/CasesLib.v"])
    mode, pcase, pobs = detect_mode()
    run.cov["missing_observed_column_behaviour_detected"] = MODE_NAMES.get(mode, "unrecognised")
    run.log("aggregation of reporting data without observed column:", run.cov["missing_observed_column_behaviour_detected"])
    if mode is None:
        run.corr_failures.append({"stream": "mode-probe", "case": pcase, "impl": [{k: r.get(k) for k in ("arg", "kind", "err")} for r in pobs["runs"]],
                                  "model": "no obs_mode of Model/BillingAgg.v explains the probe"})
        mode = 0
    ans = run.coq_eval(IMPORTS, "", "obs_mode_satisfies_statement (mode_of %s)" % zlit(mode))
    verdict = {"true": True, "false": False}.get(ans.split(":")[0].replace("=", " ").split()[-1] if ans else "", None)
    if verdict is None:
        run.proof_ok = False
        run.proof_log += "\nobs_mode_satisfies_statement did not evaluate: " + ans[-500:]
    elif verdict:
        run.cov["theorem_path"] = ("the full statement is a THEOREM for the observed behaviour (C19_mode_verdict, C19_statement_repaired)")
    else:
        run.cov["theorem_path"] = ("the full statement is REFUTED for the observed behaviour (C19_mode_verdict, C19_statement_refuted_as_coded: "
                                   "reporting data without usage); C19_statement_with_observed_holds covers data that carried usage; "
                                   "the witness is replayed on the implementation (mode probe + corpus)")
    run.log(run.cov.get("theorem_path", "no verdict"))
    cases = []
    if run.replay:
        rep = json.load(open(run.replay))
        cases.append(rep["case"] if "model" in rep["case"] else rep["case"]["first"][0]["case"])
    else:
        calendar_cases(run)
        corpus = os.path.join(vlib.VERIF, "corpus", "C19.json")
        if os.path.exists(corpus):
            cases += json.load(open(corpus))
        cases.append(pcase)
        for k in range(run.n(220, 4000)):
            cases.append(gen_case(run.rng, k))
    step = 1500
    for s0 in range(0, len(cases), step):
        process(run, cases[s0:s0 + step], mode)
    run.finish()


if __name__ == "__main__":
    vlib.run_main(main, "C19")
