"""C02 helpers: caller-owned frames, data objects, fitted models, deep digests, execution of one operation
history on the implementation and the literal oracle of the property text.

Everything a history needs is built once in the parent process (module globals) and inherited by fork."""
import copy
import hashlib
import json
import logging
import random
import warnings

import numpy as np
import pandas as pd

import fitlib as F

warnings.simplefilter("ignore")
logging.getLogger("eemeter").setLevel(logging.CRITICAL)

FAMS = ["Daily", "Billing", "Hourly", "Caltrack"]
SENTINEL = 12345.678


# ------------------------------------------------------------------ digests

def _upd(h, x):
    h.update(x if isinstance(x, (bytes, bytearray)) else repr(x).encode())


def _col_bytes(h, arr):
    if arr.dtype.kind in "fiub":
        _upd(h, np.ascontiguousarray(arr).tobytes())
    elif arr.dtype.kind in "mM":
        _upd(h, np.ascontiguousarray(arr.view("i8")).tobytes())
    else:
        _upd(h, [None if (isinstance(v, float) and v != v) else str(v) for v in arr])


def digest(obj):
    """deep, order- and bit-sensitive digest of a DataFrame / Series (values, dtypes, column labels, index values,
    index name, tz, freq, attrs) or of any other object through repr"""
    h = hashlib.sha256()
    if isinstance(obj, (pd.DataFrame, pd.Series)):
        _upd(h, type(obj).__name__)
        idx = obj.index
        _upd(h, (type(idx).__name__, str(idx.dtype), list(idx.names)))
        if isinstance(idx, pd.DatetimeIndex):
            _upd(h, np.ascontiguousarray(idx.asi8).tobytes())
            _upd(h, str(idx.tz))
        else:
            _upd(h, [str(v) for v in idx])
        if isinstance(obj, pd.Series):
            _upd(h, ("name", str(obj.name), str(obj.dtype)))
            _col_bytes(h, obj.to_numpy())
        else:
            _upd(h, [(str(c), str(t)) for c, t in zip(obj.columns, obj.dtypes)])
            for i in range(obj.shape[1]):
                _col_bytes(h, obj.iloc[:, i].to_numpy())
        _upd(h, sorted((str(k), str(v)) for k, v in obj.attrs.items()))
    else:
        _upd(h, obj)
    return h.hexdigest()[:16]


def meta(obj):
    """attributes of the index object that are not data (pandas shares the index array between a frame and its copy,
    so writing them on a copy writes them on the caller's frame too)"""
    idx = getattr(obj, "index", None)
    return str(getattr(idx, "freq", None))


def serial(fam, m):
    """the serialised form; where to_json() itself fails (reloaded CalTRACK hourly model: C01's finding) the inner
    model's document is used so that state changes stay observable"""
    try:
        return m.to_json()
    except Exception as e:  # noqa
        try:
            if fam == "Hourly":
                hs = hourly_state(m)
                doc = {"temporal_clusters": hs.get("table"), "ts_features": hs.get("ts"), "categorical_features": hs.get("cat"),
                       "info": {"warnings": hs.get("warnings")}}
            else:
                doc = {"inner": m.model.model.json(), "unc": m._autocorr_unc_vars}
            return "TOJSON-EXC:%s:" % exn_name(e) + json.dumps(doc, default=str, sort_keys=True)
        except Exception:  # noqa
            return "TOJSON-EXC:%s:" % exn_name(e)


def _doc(js):
    if js.startswith("TOJSON-EXC:"):
        return json.loads(js.split(":", 2)[2] or "{}"), True
    return json.loads(js), False


def warn_digest(ws):
    return digest([(w.qualified_name, w.description, json.dumps(w.data, sort_keys=True, default=str)) for w in ws])


def how_changed(before, after):
    """classify the difference between two frames/series (for the signature of a finding)"""
    try:
        if type(before) is not type(after):
            return "type changed"
        if isinstance(before, pd.DataFrame):
            if list(map(str, before.columns)) != list(map(str, after.columns)):
                extra = [str(c) for c in after.columns if c not in before.columns]
                gone = [str(c) for c in before.columns if c not in after.columns]
                if extra and not gone:
                    return "column added: " + ",".join(extra)
                if gone and not extra:
                    return "column removed: " + ",".join(gone)
                return "columns changed"
        if len(before) != len(after):
            return "rows removed" if len(after) < len(before) else "rows added"
        if not before.index.equals(after.index):
            return "index changed"
        if isinstance(before, pd.Series):
            b, a = before.to_frame("v"), after.to_frame("v")
        else:
            b, a = before, after
        for c in b.columns:
            x, y = b[c], a[c]
            if str(x.dtype) != str(y.dtype):
                return "dtype changed: " + str(c)
            if not x.equals(y):
                if x.dtype.kind == "f":
                    xz = (x == 0) & y.isna()
                    rest = ~xz
                    if xz.any() and x[rest].equals(y[rest]):
                        return "zeros replaced by NaN: " + str(c)
                return "values changed: " + str(c)
        return "metadata changed"
    except Exception as e:  # noqa
        return "changed (%s)" % type(e).__name__


def json_fields_changed(a, b, depth=2):
    """top-level (to the given depth) paths at which two JSON texts differ"""
    if a == b:
        return []
    try:
        (x, fx), (y, fy) = _doc(a), _doc(b)
    except Exception:  # noqa
        return ["<unparseable>"]
    if fx != fy:
        # one side is the reduced document used when to_json() raises: compare what both show, by content
        full, red = (y, x) if fx else (x, y)
        out = []
        if "temporal_clusters" in red:
            t1 = [[int(r[0]), int(r[1]), None if (r[2] is None or r[2] != r[2]) else int(r[2])] for r in full.get("temporal_clusters", [])]
            t2 = [[r[0], r[1], r[2]] for r in (red.get("temporal_clusters") or [])]
            if t1 != t2:
                out.append("temporal_clusters")
            if list(full.get("ts_features", [])) != list(red.get("ts_features") or []):
                out.append("ts_features")
            if list(full.get("categorical_features", [])) != list(red.get("categorical_features") or []):
                out.append("categorical_features")
            w1 = [w.get("qualified_name") for w in full.get("info", {}).get("warnings", [])]
            if w1 != list((red.get("info") or {}).get("warnings") or []):
                out.append("info.warnings")
        return out or ["<to_json raises>"]
    out = []

    def rec(u, v, path, d):
        if isinstance(u, dict) and isinstance(v, dict) and d > 0:
            for k in sorted(set(u) | set(v)):
                if k not in u or k not in v:
                    out.append(".".join(path + [k]))
                else:
                    rec(u[k], v[k], path + [k], d - 1)
        else:
            if json.dumps(u, sort_keys=True) != json.dumps(v, sort_keys=True):
                out.append(".".join(path) or "<root>")
    rec(x, y, [], depth)
    return out or ["<formatting>"]


def exn_name(e):
    return type(e).__name__


# ------------------------------------------------------------------ the world: templates, objects, models

TPL = {}       # name -> pristine caller-side frame / series (never handed to the package; copies are)
OBJ = {}       # name -> dict(obj, fam, cls, role, span, observed, ghi, spec)
SPECS = {}     # fam -> list of constructor specs usable by "construct" ops
MODELS = {}    # (fam, profile) -> dict(obj, json, json_reloaded, base)
REF = {}       # (fam, profile, lineage, dataset) -> prediction digest or "EXC:<name>"
OBJ_ORDER = {}  # fam -> list of names in creation order (locations of the store model)


def classes():
    from opendsm import eemeter as E
    return {
        "DailyBaselineData": E.DailyBaselineData, "DailyReportingData": E.DailyReportingData,
        "BillingBaselineData": E.BillingBaselineData, "BillingReportingData": E.BillingReportingData,
        "HourlyBaselineData": E.HourlyBaselineData, "HourlyReportingData": E.HourlyReportingData,
        "HourlyCaltrackBaselineData": E.HourlyCaltrackBaselineData,
        "HourlyCaltrackReportingData": E.HourlyCaltrackReportingData,
    }


def model_class(fam):
    from opendsm import eemeter as E
    return {"Daily": E.DailyModel, "Billing": E.BillingModel, "Hourly": E.HourlyModel, "Caltrack": E.HourlyCaltrackModel}[fam]


def new_model(fam, profile):
    M = model_class(fam)
    if fam in ("Daily", "Billing") and profile == "lowthr":
        return M(settings={"developer_mode": True, "silent_developer_mode": True, "cvrmse_threshold": 0.001})
    if fam == "Billing" and profile == "weighted":
        import contextlib
        import io
        from opendsm.eemeter.models.billing import BillingWeightedModel
        with contextlib.redirect_stdout(io.StringIO()):
            return BillingWeightedModel()
    if fam == "Hourly" and profile == "lowthr":
        return M(settings={"cvrmse_threshold": 1e-6, "pnrmse_threshold": 1e-6})
    if fam == "Hourly" and profile == "ghi":
        return M(settings={"train_features": ["temperature", "ghi"]})
    if fam == "Hourly" and profile == "supp":
        return M(settings={"supplemental_time_series_columns": ["occ"]})
    if fam == "Hourly" and profile == "suppcat":
        return M(settings={"supplemental_categorical_columns": ["flag"]})
    return M()


def private_frame(o):
    """the frame a data object owns"""
    if hasattr(o, "_df"):
        return o._df
    return o.__dict__.get("df")


def handout(o, attr="df"):
    return getattr(o, attr)


def stored_frames(o):
    """every frame the data object keeps (private frame, plain public attribute, cache of a cached property)"""
    return {k: v for k, v in o.__dict__.items() if isinstance(v, (pd.DataFrame, pd.Series))}


def accessors_of(o):
    """names of the public attributes / properties of a data object through which a frame is handed out"""
    import functools
    names = []
    for k in type(o).__mro__:
        for n, v in k.__dict__.items():
            if not n.startswith("_") and isinstance(v, (property, functools.cached_property)) and n not in names:
                names.append(n)
    names += [n for n in o.__dict__ if not n.startswith("_") and n not in names]
    out = []
    for n in names:
        try:
            v = getattr(o, n)
        except Exception:  # noqa
            continue
        if isinstance(v, (pd.DataFrame, pd.Series)):
            out.append(n)
    return sorted(out, key=lambda n: (n != "df", n))


def construct(spec, args):
    """spec = dict(cls, ctor, elec, src=[template names]); args = the caller-owned inputs (already copied)"""
    C = classes()[spec["cls"]]
    if spec["ctor"] == "init":
        return C(args[0], is_electricity_data=spec["elec"])
    a = args[0] if spec["src"][0] is not None else None
    return C.from_series(a, args[1], is_electricity_data=spec["elec"])


def caller_copy(spec):
    """fresh caller-owned inputs for a constructor spec (deep copies of the pristine templates)"""
    out = []
    for n in spec["src"]:
        out.append(None if n is None else private_copy(n))
    return out


TPL_FREQ = {}


def private_copy(name):
    """a copy of a template that shares nothing with it: DataFrame.copy() shares the index array (and with it the freq
    attribute), so the index is copied separately and gets the freq the template was created with"""
    t = TPL[name]
    if name not in TPL_FREQ:
        TPL_FREQ[name] = getattr(t.index, "freq", None)
    c = t.copy(deep=True)
    if isinstance(t.index, pd.DatetimeIndex):
        idx = t.index.copy(deep=True)
        try:
            idx.freq = TPL_FREQ[name]
        except Exception:  # noqa
            pass
        c.index = idx
    return c


def _add_obj(fam, name, spec, role, span, observed=True, ghi=False, problems=None):
    args = caller_copy(spec)
    before = [None if a is None else digest(a) + meta(a) for a in args]
    keep = [None if a is None else a.copy(deep=True) for a in args]
    try:
        o = construct(spec, args)
    except Exception as e:  # noqa
        if problems is not None:
            problems.append({"fam": fam, "name": name, "spec": spec, "exc": "%s: %s" % (exn_name(e), str(e)[:120])})
        return None
    after = [None if a is None else digest(a) + meta(a) for a in args]
    changed = []
    for n, a, k, b1, b2 in zip(spec["src"], args, keep, before, after):
        if b1 != b2:
            changed.append({"src": n, "how": how_changed(k, a) if digest(a) != digest(k) else "index freq attribute set"})
    OBJ[name] = {"obj": o, "fam": fam, "cls": spec["cls"], "role": role, "span": span, "observed": observed,
                 "ghi": ghi, "spec": spec, "name": name, "ctor_changed": changed,
                 "tpl_flags": [None if n is None else tpl_flags(TPL[n]) for n in spec["src"]]}
    OBJ_ORDER.setdefault(fam, []).append(name)
    SPECS.setdefault(fam, []).append(spec)
    return o


def tpl_flags(fr):
    """what the constructors' in-place normalisation looks at (Model/Store.v `frame`)"""
    if isinstance(fr, pd.Series):
        return {"has_obs": True, "zeros": bool((fr == 0).any()) if fr.name != "temperature" else False, "dtcol": False,
                "series": True}
    return {"has_obs": "observed" in fr.columns,
            "zeros": bool((fr["observed"] == 0).any()) if "observed" in fr.columns else False,
            "dtcol": "datetime" in fr.columns, "series": False}


def build_world(seed, quick=True):
    """templates, data objects of the four families; returns a list of construction problems"""
    rng = random.Random(seed)
    problems = []
    TPL.clear(); TPL_FREQ.clear(); OBJ.clear(); SPECS.clear(); MODELS.clear(); REF.clear(); OBJ_ORDER.clear()
    tz = "US/Pacific"

    def spec(cls, ctor, src, elec=True):
        return {"cls": cls, "ctor": ctor, "src": list(src), "elec": elec}

    # ---------------- daily
    for k, nm in enumerate(["base", "other1", "other2"]):
        TPL["D." + nm] = F.daily_frame(rng, tz=tz, base=20.0 + 6 * k, bh=1.2 - 0.2 * k, bc=0.8 + 0.3 * k)
        if nm == "other2":
            TPL["D." + nm].iloc[rng.sample(range(365), 4), 0] = 0.0        # zero readings of an electricity meter
        _add_obj("Daily", "D." + nm, spec("DailyBaselineData", "init", ["D." + nm]), "baseline", "full year", problems=problems)
    noisy = F.daily_frame(rng, tz=tz, noise=0.6)
    TPL["D.noisy"] = noisy
    _add_obj("Daily", "D.noisy", spec("DailyBaselineData", "init", ["D.noisy"]), "baseline", "full year", problems=problems)
    rep = F.daily_frame(rng, tz=tz, start="2023-01-01", ndays=365)
    zi = rng.sample(range(365), 6)
    rep.iloc[zi, 0] = 0.0                      # zero readings: electricity data turns them into NaN (inside the copy)
    for span, a, n in [("1 day", rng.randrange(0, 300), 1), ("1 week", rng.randrange(0, 300), 7),
                       ("1 month", rng.randrange(0, 300), 30), ("partial year", rng.randrange(0, 100), 200),
                       ("full year", 0, 365)]:
        key = span.replace(" ", "")
        TPL["D.rep_" + key] = rep.iloc[a:a + n].copy()
        _add_obj("Daily", "D.rep_" + key, spec("DailyReportingData", "init", ["D.rep_" + key]), "reporting", span, problems=problems)
        TPL["D.rep_" + key + "_noobs"] = rep.iloc[a:a + n][["temperature"]].copy()
        _add_obj("Daily", "D.rep_" + key + "_noobs", spec("DailyReportingData", "init", ["D.rep_" + key + "_noobs"]),
                 "reporting", span, observed=False, problems=problems)
    # series constructors: daily meter + hourly temperature; a frame that carries its index as a `datetime` column
    hr = F.hourly_frame(rng, tz=tz, start="2023-03-01", ndays=60)
    TPL["D.ser_meter"] = rep["observed"].iloc[59:119].copy()
    TPL["D.ser_temp"] = hr["temperature"].copy()
    _add_obj("Daily", "D.rep_series", spec("DailyReportingData", "from_series", ["D.ser_meter", "D.ser_temp"]),
             "reporting", "2 months", problems=problems)
    _add_obj("Daily", "D.rep_series_noobs", spec("DailyReportingData", "from_series", [None, "D.ser_temp"]),
             "reporting", "2 months", observed=False, problems=problems)
    dtc = rep.iloc[100:160].copy()
    dtc.insert(0, "datetime", dtc.index)
    dtc = dtc.reset_index(drop=True)
    TPL["D.dtcol"] = dtc
    _add_obj("Daily", "D.rep_dtcol", spec("DailyReportingData", "init", ["D.dtcol"]), "reporting", "2 months", problems=problems)

    # the same kind of input with an index that carries no freq attribute (e.g. read from a file)
    nf = rep.iloc[200:260].copy()
    nf.index = pd.DatetimeIndex(list(nf.index))
    TPL["D.nofreq"] = nf
    _add_obj("Daily", "D.rep_nofreq", spec("DailyReportingData", "init", ["D.nofreq"]), "reporting", "2 months", problems=problems)
    sm, st = TPL["D.ser_meter"].copy(), TPL["D.ser_temp"].copy()
    sm.index, st.index = pd.DatetimeIndex(list(sm.index)), pd.DatetimeIndex(list(st.index))
    TPL["D.ser_meter_nf"], TPL["D.ser_temp_nf"] = sm, st
    _add_obj("Daily", "D.rep_series_nofreq", spec("DailyReportingData", "from_series", ["D.ser_meter_nf", "D.ser_temp_nf"]),
             "reporting", "2 months", problems=problems)

    # from_series with DataFrames: the temperature frame already carries the column name and lives in another time zone
    TPL["D.fr_meter"] = rep[["observed"]].iloc[59:119].copy()
    tu = hr[["temperature"]].copy()
    tu.index = tu.index.tz_convert("UTC")
    TPL["D.fr_temp_utc"] = tu
    _add_obj("Daily", "D.rep_frames_utc", spec("DailyReportingData", "from_series", ["D.fr_meter", "D.fr_temp_utc"]),
             "reporting", "2 months", problems=problems)

    # ---------------- billing
    for k, nm in enumerate(["base", "other1"]):
        m, t = F.billing_series(rng, tz=tz)
        TPL["B.%s_m" % nm], TPL["B.%s_t" % nm] = m, t
        _add_obj("Billing", "B." + nm, spec("BillingBaselineData", "from_series", ["B.%s_m" % nm, "B.%s_t" % nm]),
                 "baseline", "12 periods", problems=problems)
    m, t = F.billing_series(rng, tz=tz, noise=0.6)
    TPL["B.noisy_m"], TPL["B.noisy_t"] = m, t
    _add_obj("Billing", "B.noisy", spec("BillingBaselineData", "from_series", ["B.noisy_m", "B.noisy_t"]), "baseline",
             "12 periods", problems=problems)
    for span, npd in [("1 period", 1), ("3 periods", 3), ("6 periods", 6), ("12 periods", 12)]:
        key = span.replace(" ", "")
        m, t = F.billing_series(rng, tz=tz, start="2023-01-%02d" % rng.randrange(5, 25), nperiods=npd)
        TPL["B.rep_%s_m" % key], TPL["B.rep_%s_t" % key] = m, t
        _add_obj("Billing", "B.rep_" + key, spec("BillingReportingData", "from_series", ["B.rep_%s_m" % key, "B.rep_%s_t" % key]),
                 "reporting", span, problems=problems)
        _add_obj("Billing", "B.rep_" + key + "_noobs", spec("BillingReportingData", "from_series", [None, "B.rep_%s_t" % key]),
                 "reporting", span, observed=False, problems=problems)
    if "B.rep_6periods_m" in TPL:
        TPL["B.fr_meter"] = TPL["B.rep_6periods_m"].to_frame("observed")
        tb = TPL["B.rep_6periods_t"].to_frame("temperature")
        tb.index = tb.index.tz_convert("UTC")
        TPL["B.fr_temp_utc"] = tb
        _add_obj("Billing", "B.rep_frames_utc", spec("BillingReportingData", "from_series", ["B.fr_meter", "B.fr_temp_utc"]),
                 "reporting", "6 periods", problems=problems)
    # the frame constructor of the billing classes: take the daily frame a data object exposes
    if "B.rep_6periods" in OBJ:
        fr = OBJ["B.rep_6periods"]["obj"].df[["observed", "temperature"]]
        fr.iloc[3, 0] = 0.0
        TPL["B.frame"] = fr
        _add_obj("Billing", "B.rep_frame", spec("BillingReportingData", "init", ["B.frame"]), "reporting", "6 periods",
                 problems=problems)

    # ---------------- hourly
    for k, nm in enumerate(["base", "other1"]):
        TPL["H." + nm] = F.hourly_frame(rng, tz=tz, scale=1.0 + 0.5 * k)
        if nm == "other1":
            TPL["H." + nm].iloc[rng.sample(range(365 * 24), 8), 0] = 0.0
        _add_obj("Hourly", "H." + nm, spec("HourlyBaselineData", "init", ["H." + nm]), "baseline", "full year", problems=problems)
    TPL["H.base_ghi"] = F.hourly_frame(rng, tz=tz, ghi=True)
    _add_obj("Hourly", "H.base_ghi", spec("HourlyBaselineData", "init", ["H.base_ghi"]), "baseline", "full year", ghi=True,
             problems=problems)
    TPL["H.noisy"] = F.hourly_frame(rng, tz=tz, noise=1.5)
    _add_obj("Hourly", "H.noisy", spec("HourlyBaselineData", "init", ["H.noisy"]), "baseline", "full year", problems=problems)
    hrep = F.hourly_frame(rng, tz=tz, start="2023-01-01", ndays=365, ghi=True)
    hz = rng.sample(range(365 * 24), 12)
    hrep.iloc[hz, 0] = 0.0
    d0 = rng.randrange(100, 250)          # inside the DST-free part of the year
    spans = [("1 day", rng.randrange(0, 364), 1), ("1 week", rng.randrange(0, 355), 7), ("1 month", rng.randrange(0, 330), 30),
             ("partial year", 95, 200), ("full year", 0, 365), ("1 week b", d0, 7)]
    for span, a, n in spans:
        key = span.replace(" ", "")
        sl = hrep.iloc[a * 24:(a + n) * 24]
        TPL["H.rep_" + key] = sl[["observed", "temperature"]].copy()
        _add_obj("Hourly", "H.rep_" + key, spec("HourlyReportingData", "init", ["H.rep_" + key]), "reporting", span, problems=problems)
        TPL["H.rep_" + key + "_noobs"] = sl[["temperature"]].copy()
        _add_obj("Hourly", "H.rep_" + key + "_noobs", spec("HourlyReportingData", "init", ["H.rep_" + key + "_noobs"]),
                 "reporting", span, observed=False, problems=problems)
        if span in ("1 week", "1 month", "full year"):
            TPL["H.rep_" + key + "_ghi"] = sl.copy()
            _add_obj("Hourly", "H.rep_" + key + "_ghi", spec("HourlyReportingData", "init", ["H.rep_" + key + "_ghi"]),
                     "reporting", span, ghi=True, problems=problems)

    # a column the settings of the "supp" profile declare as supplemental time series, absent from the baseline
    occ = hrep.iloc[d0 * 24:(d0 + 7) * 24][["observed", "temperature"]].copy()
    occ["occ"] = (occ.index.hour >= 8).astype(float)
    TPL["H.rep_1weekb_occ"] = occ
    _add_obj("Hourly", "H.rep_1weekb_occ", spec("HourlyReportingData", "init", ["H.rep_1weekb_occ"]), "reporting", "1 week b",
             problems=problems)

    # a column the "suppcat" profile declares as supplemental CATEGORICAL column, present in its baseline
    hb = F.hourly_frame(rng, tz=tz)
    hb["flag"] = (hb.index.dayofweek >= 5).astype(float)
    TPL["H.base_flag"] = hb
    _add_obj("Hourly", "H.base_flag", spec("HourlyBaselineData", "init", ["H.base_flag"]), "baseline", "full year", problems=problems)
    for span, a0, n0 in [("1 week b", d0, 7), ("1 month", 150, 30)]:
        key = span.replace(" ", "")
        fl = hrep.iloc[a0 * 24:(a0 + n0) * 24][["observed", "temperature"]].copy()
        fl["flag"] = (fl.index.dayofweek >= 5).astype(float)
        TPL["H.rep_%s_flag" % key] = fl
        _add_obj("Hourly", "H.rep_%s_flag" % key, spec("HourlyReportingData", "init", ["H.rep_%s_flag" % key]), "reporting", span,
                 problems=problems)

    # a baseline that lacks some month / day-of-week combinations (June-December only; fitted with
    # ignore_disqualification=True by the "partial" profile) and three reporting sets over ONE index that spans known and
    # unknown months, differing only in the observed usage (as measured / absent / another load shape)
    TPL["H.base_partial"] = TPL["H.base"].loc["2022-06-01":].copy()          # June-December
    _add_obj("Hourly", "H.base_partial", spec("HourlyBaselineData", "init", ["H.base_partial"]), "baseline", "partial year",
             problems=problems)
    an = hrep.loc["2023-05-01":"2023-12-31"][["observed", "temperature"]].copy()
    TPL["H.rep_augnov"] = an
    alt = an.copy()
    # the month the baseline never saw (May) with the load shape of December instead of one close to June
    alt.loc["2023-05-01":"2023-05-31", "observed"] = an.loc["2023-12-01":"2023-12-31", "observed"].to_numpy()
    TPL["H.rep_augnov_alt"] = alt
    TPL["H.rep_augnov_noobs"] = an[["temperature"]].copy()
    for nm, ob in (("H.rep_augnov", True), ("H.rep_augnov_alt", True), ("H.rep_augnov_noobs", False)):
        _add_obj("Hourly", nm, spec("HourlyReportingData", "init", [nm]), "reporting", "partial year", observed=ob, problems=problems)

    # ---------------- CalTRACK hourly
    cb = F.hourly_frame(rng, tz=tz)
    cb.iloc[rng.sample(range(len(cb)), 10), 0] = 0.0
    TPL["C.base"] = cb[["observed", "temperature"]].copy()
    TPL["C.base_m"], TPL["C.base_t"] = cb["observed"].copy(), cb["temperature"].copy()
    _add_obj("Caltrack", "C.base", spec("HourlyCaltrackBaselineData", "from_series", ["C.base_m", "C.base_t"]), "baseline",
             "full year", problems=problems)
    _add_obj("Caltrack", "C.base_frame", spec("HourlyCaltrackBaselineData", "init", ["C.base"]), "baseline", "full year",
             problems=problems)
    # a gas meter: zero readings are data, nothing is written
    _add_obj("Caltrack", "C.base_frame_gas", spec("HourlyCaltrackBaselineData", "init", ["C.base"], elec=False), "baseline",
             "full year", problems=problems)
    crep = F.hourly_frame(rng, tz=tz, start="2023-01-01", ndays=365)
    crep.iloc[rng.sample(range(len(crep)), 10), 0] = 0.0
    for span, a, n in [("1 week", rng.randrange(0, 355), 7), ("1 month", rng.randrange(0, 330), 30), ("full year", 0, 365)]:
        key = span.replace(" ", "")
        sl = crep.iloc[a * 24:(a + n) * 24]
        TPL["C.rep_%s_m" % key], TPL["C.rep_%s_t" % key] = sl["observed"].copy(), sl["temperature"].copy()
        _add_obj("Caltrack", "C.rep_" + key, spec("HourlyCaltrackReportingData", "from_series", ["C.rep_%s_m" % key, "C.rep_%s_t" % key]),
                 "reporting", span, problems=problems)
        _add_obj("Caltrack", "C.rep_" + key + "_noobs", spec("HourlyCaltrackReportingData", "from_series", [None, "C.rep_%s_t" % key]),
                 "reporting", span, observed=False, problems=problems)
        if span != "full year":
            TPL["C.rep_%s_f" % key] = sl[["observed", "temperature"]].copy()
            _add_obj("Caltrack", "C.rep_%s_frame" % key, spec("HourlyCaltrackReportingData", "init", ["C.rep_%s_f" % key]),
                     "reporting", span, problems=problems)
            TPL["C.rep_%s_fn" % key] = sl[["temperature"]].copy()
            _add_obj("Caltrack", "C.rep_%s_frame_noobs" % key, spec("HourlyCaltrackReportingData", "init", ["C.rep_%s_fn" % key]),
                     "reporting", span, observed=False, problems=problems)
    return problems


MAIN_BASE = {"Daily": "D.base", "Billing": "B.base", "Hourly": "H.base", "Caltrack": "C.base"}
PROFILES = {"Daily": ["default"], "Billing": ["default"], "Hourly": ["default", "ghi", "supp", "suppcat", "partial"], "Caltrack": ["default"]}


def fit_main(fam, profile):
    base = {("Hourly", "ghi"): "H.base_ghi", ("Hourly", "suppcat"): "H.base_flag",
            ("Hourly", "partial"): "H.base_partial"}.get((fam, profile), MAIN_BASE[fam])
    m = new_model(fam, profile)
    if fam == "Caltrack":
        m.fit(OBJ[base]["obj"])
    else:
        m.fit(OBJ[base]["obj"], ignore_disqualification=True)
    js = serial(fam, m)
    jr = serial(fam, model_class(fam).from_json(js))
    return {"obj": m, "json": js, "json_reloaded": jr, "base": base}


def fit_job(key):
    """pool worker: fit one main model and send it back pickled (falls back to JSON only)"""
    import pickle
    fam, profile = key
    r = fit_main(fam, profile)
    try:
        blob = pickle.dumps(r["obj"])
    except Exception:  # noqa
        blob = None
    return key, blob, r["json"], r["json_reloaded"], r["base"]


def predict_call(fam, m, d):
    if fam == "Caltrack":
        return m.predict(d)
    return m.predict(d, ignore_disqualification=True)


def datasets_of(fam, profile="default"):
    out = []
    for n in OBJ_ORDER.get(fam, []):
        out.append(n)
    return out


def fresh_model(fam, profile, lineage):
    mm = MODELS[(fam, profile)]
    if lineage == "fitted":
        return copy.deepcopy(mm["obj"])
    return model_class(fam).from_json(mm["json"])


def pred_digest(fam, m, name):
    try:
        res = predict_call(fam, m, OBJ[name]["obj"])
        return digest(res), res
    except Exception as e:  # noqa
        return "EXC:" + exn_name(e), None


def ref_job(job):
    fam, profile, lineage, name = job
    m = fresh_model(fam, profile, lineage)
    d, _ = pred_digest(fam, m, name)
    return job, d


# ------------------------------------------------------------------ one history on the implementation

MUTATIONS = ["cell", "column", "drop", "index", "fill", "buffer"]


def _cols(fr):
    if isinstance(fr, pd.Series):
        return {"<series>": fr}
    return {str(c): fr.iloc[:, i] for i, c in enumerate(fr.columns)}


def shared_columns(a, b):
    """columns of two frames / series whose VALUE buffers are the same memory (np.shares_memory): a write through numpy
    into one is a write into the other, whatever pandas' copy-on-write does for .loc/.iloc assignments.
    (The index is not looked at: pandas shares the immutable index array between a frame and its copy.)"""
    out = []
    ca, cb = _cols(a), _cols(b)
    for c in ca:
        if c in cb:
            try:
                x, y = ca[c].to_numpy(), cb[c].to_numpy()
                if x.size and y.size and np.shares_memory(x, y):
                    out.append(c)
            except Exception:  # noqa
                pass
    return out


def _writable_buffer(series):
    buf = series.to_numpy()
    if buf.dtype.kind != "f" or buf.size == 0:
        return None
    if not buf.flags.writeable:
        try:
            buf.setflags(write=True)
        except ValueError:
            return None
    return buf


def buffer_write_reaches(fr, frames):
    """write one value through the numpy buffer of every float column of `fr`, look whether any of `frames` (name -> frame)
    changed, and put the old values back.  Returns the names of the frames that changed."""
    before = {k: digest(v) for k, v in frames.items()}
    saved = []
    for c, col in _cols(fr).items():
        buf = _writable_buffer(col)
        if buf is not None:
            saved.append((buf, buf[0]))
            buf[0] = -SENTINEL if not (buf[0] == -SENTINEL) else SENTINEL
    hit = sorted(k for k, v in frames.items() if digest(v) != before[k])
    for buf, old in saved:
        buf[0] = old
    return hit


def shared_containers(returned, owner, max_depth=6):
    """paths inside a returned dict/list structure at which sits a mutable container (dict / list / set) that is also
    reachable from the owner object's attributes: editing the returned value there edits the owner"""
    owned = {}

    def reach(x, depth):
        if depth > max_depth or isinstance(x, (str, bytes, int, float, bool, type(None), pd.DataFrame, pd.Series, pd.Index, np.ndarray)):
            return
        if isinstance(x, (dict, list, set)):
            if id(x) in owned:
                return
            owned[id(x)] = x
            for y in (x.values() if isinstance(x, dict) else x):
                reach(y, depth + 1)
        elif hasattr(x, "__dict__"):
            for y in vars(x).values():
                reach(y, depth + 1)

    for v in vars(owner).values():
        reach(v, 0)
    hits = []

    def walk(x, path, depth):
        if depth > 12:
            return
        if isinstance(x, (dict, list, set)):
            if id(x) in owned and owned[id(x)] is x and len(x):
                hits.append(".".join(path) or "<root>")
                return
            if isinstance(x, dict):
                for k, y in x.items():
                    walk(y, path + [str(k)], depth + 1)
            elif isinstance(x, list):
                for i, y in enumerate(x[:50]):
                    walk(y, path + ["[]"], depth + 1)

    walk(returned, [], 0)
    return sorted(set(hits))


def mutate_in_place(fr, how, salt=0):
    """what a caller may do to a frame it holds; `salt` makes every write different from the previous ones, so that a
    repeated mutation changes the frame again"""
    v = SENTINEL + salt
    if isinstance(fr, pd.Series):
        if how == "buffer":
            buf = _writable_buffer(fr)
            if buf is not None:
                buf[0] = v
                return
        if how in ("drop",) and len(fr) > 2:
            fr.drop(fr.index[:2], inplace=True)
        elif how == "index":
            fr.index = fr.index + pd.Timedelta(hours=1)
        else:
            fr.iloc[0] = v
            if len(fr) > 3:
                fr.iloc[-1] = -v
        return
    floats = [j for j in range(fr.shape[1]) if fr.dtypes.iloc[j].kind == "f"]
    if how == "buffer":
        # a write through the numpy buffers (np.asarray(df[c]) made writeable): copy-on-write does not see it
        done = False
        for j in floats:
            buf = _writable_buffer(fr.iloc[:, j])
            if buf is not None:
                buf[0] = v
                buf[-1] = -v
                done = True
        if done:
            return
        how = "cell"
    if how == "drop" and len(fr) <= 2:
        how = "column"
    if how in ("cell", "fill") and not floats:
        how = "column"
    if how == "cell":
        for j in floats:
            fr.iloc[0, j] = v
            fr.iloc[-1, j] = -v
    elif how == "column":
        fr["__caller_column__"] = 1.0 + salt
        if "temperature" in fr.columns:
            fr["temperature"] = fr["temperature"] + 1000.0
    elif how == "drop":
        fr.drop(fr.index[:2], inplace=True)
    elif how == "index":
        if isinstance(fr.index, pd.DatetimeIndex):
            fr.index = fr.index + pd.Timedelta(hours=1)
        else:
            fr.index = fr.index + 1
    else:
        for j in floats:
            fr.isetitem(j, float(salt))


class Snap:
    """digests of everything the history may not change behind the caller's back"""

    def __init__(self, fam, locals_, raws, hands):
        self.d = {}
        for n in OBJ_ORDER.get(fam, []):
            self._obj("O:" + n, OBJ[n]["obj"])
        for k, L in enumerate(locals_):
            self._obj("L:%d" % k, L["obj"])
        for k, R in enumerate(raws):
            self.d["R:%d" % k] = digest(R["v"])
            self.d["R:%d:meta" % k] = meta(R["v"])
        for k, H in enumerate(hands):
            self.d["H:%d" % k] = digest(H["v"])

    def _obj(self, key, o):
        self.d[key + ":frame"] = digest(private_frame(o))
        pf = private_frame(o)
        for n, v in stored_frames(o).items():            # caches of cached properties, further stored frames
            if v is not pf:
                self.d[key + ":frame:" + n] = digest(v)
        self.d[key + ":warnings"] = warn_digest(o.warnings)
        self.d[key + ":disqualification"] = warn_digest(o.disqualification)

    def changed(self, other):
        return sorted(k for k in self.d if k in other.d and self.d[k] != other.d[k])


def run_history(job):
    """execute one history; returns dict(trace=[...], fails=[(signature, message, step)])"""
    fam, profile, lineage, ops = job["fam"], job["profile"], job["lineage"], job["ops"]
    mm = MODELS[(fam, profile)]
    M = model_class(fam)
    names = datasets_of(fam)
    locals_, raws, hands = [], [], []      # data objects built in this history; caller frames; frames handed out
    live = lineage == "live"
    others = []                            # other model objects alive in this process: dict(obj, fam, js, v)
    live_refs = {}
    if live:
        # the object under test is fitted HERE and used as it is (no copy, no pickling): whatever it shares with its
        # class or with other objects stays shared
        obj = new_model(fam, profile)
        if fam == "Caltrack":
            obj.fit(OBJ[mm["base"]]["obj"])
        else:
            obj.fit(OBJ[mm["base"]]["obj"], ignore_disqualification=True)
        live_js0 = serial(fam, obj)
        js_ref = live_js0
        lineage = "fitted"
    else:
        obj = fresh_model(fam, profile, lineage)
        js_ref = mm["json"] if lineage == "fitted" else mm["json_reloaded"]
    js = serial(fam, obj)

    def reference(lin, name):
        """prediction of a fresh copy: for a model fitted in this process, of a model restored from the document it
        produced right after its fit"""
        if not live:
            return REF.get((fam, profile, lin, name))
        if (lin, name) not in live_refs:
            if live_js0.startswith("TOJSON-EXC"):
                return None
            live_refs[(lin, name)] = pred_digest(fam, M.from_json(live_js0), name)[0]
        return live_refs[(lin, name)]
    snap = Snap(fam, locals_, raws, hands)
    trace, fails = [], []
    h0 = hourly_state(obj) if fam == "Hourly" else None

    def fail(sig, msg, step):
        s = {"family": fam}
        s.update(sig)
        fails.append((s, msg, step))

    def obj_of(ref):
        kind, k = ref
        if kind == "O":
            return OBJ[names[k % len(names)]]["obj"], "O:" + names[k % len(names)], OBJ[names[k % len(names)]]["cls"]
        if not locals_:
            return None, None, None
        L = locals_[k % len(locals_)]
        return L["obj"], "L:%d" % (k % len(locals_)), L["spec"]["cls"]

    for step, op in enumerate(ops):
        rec = {"op": list(op), "skipped": False}
        kind = op[0]
        expect_changed = set()          # keys the caller itself changes in this step
        call = kind
        pre_copies = {}
        try:
            if kind == "predict":
                name = names[op[1] % len(names)]
                rec["dataset"] = name
                call = M.__name__ + ".predict"
                d, res = pred_digest(fam, obj, name)
                rec["pred"] = d
                ref = reference(lineage, name)
                rec["ref"] = ref
                if res is not None:
                    hands.append({"v": res, "from": "predict:" + name, "alias_of": None})
                    rec["new_hand"] = len(hands) - 1
                    pf = private_frame(OBJ[name]["obj"])
                    if res is pf:
                        fail({"call": call, "broken": "result is the data object's own frame"},
                             "predict returned the data object's private frame", step)
                    st = stored_frames(OBJ[name]["obj"])
                    sh = sorted({c for v in st.values() for c in shared_columns(res, v)})
                    reach = buffer_write_reaches(res, st)
                    if sh or reach:
                        hands[-1]["shares"] = True
                        rec["shares"] = sh
                        fail({"call": call, "broken": "result shares value buffers with the data object"},
                             "the frame returned by predict shares the value buffers of %s with the data object %s%s" % (
                                 ",".join(sh) or "?", name,
                                 " (a write through numpy into the result changed the data object's %s)" % ",".join(reach)
                                 if reach else ""), step)
                    for H in hands[:-1]:
                        if H["from"] == "predict:" + name and not H.get("shares") and shared_columns(res, H["v"]):
                            fail({"call": call, "broken": "two results share value buffers"},
                                 "two frames returned by predict(%s) share value buffers" % name, step)
                            break
            elif kind == "to_json":
                call = M.__name__ + ".to_json"
                obj.to_json()
                if hasattr(obj, "to_dict"):
                    dd = obj.to_dict()
                    # informational only: the statement of C02 speaks of frames handed out, not of dicts; a dict output that
                    # shares a container with the model is counted in the evidence, never reported
                    rec["to_dict_shared"] = len(shared_containers(dd, obj))
                    try:                                  # a caller may do what it likes with the returned dict
                        for k in list(dd)[:2]:
                            dd[k] = None
                    except Exception:  # noqa
                        pass
            elif kind == "reload":
                call = M.__name__ + ".from_json"
                obj = M.from_json(obj.to_json())          # a reloaded CalTRACK model cannot be stored again (C01): op fails
                lineage = "reloaded"
                js_ref = mm["json_reloaded"] if not live else serial(fam, M.from_json(live_js0))
                rec["reloaded"] = True
            elif kind == "fit_other":
                ofam = op[3] if len(op) > 3 and op[3] in OBJ_ORDER else fam       # a model of another family (Billing inherits Daily)
                rec["other_family"] = ofam
                onames = datasets_of(ofam)
                bases = [n for n in onames if OBJ[n]["role"] == "baseline" and n != mm["base"]]
                name = bases[op[1] % len(bases)]
                prof = op[2]
                rec["dataset"] = name
                call = model_class(ofam).__name__ + ".fit"
                other = new_model(ofam, prof if not (ofam == "Hourly" and prof in ("ghi", "supp", "suppcat") and not OBJ[name]["ghi"]) else "default")
                call = type(other).__name__ + ".fit"
                d = OBJ[name]["obj"]
                rec["data_dq_before"] = len(d.disqualification)
                try:
                    if ofam == "Caltrack":
                        other.fit(d)
                    else:
                        other.fit(d, ignore_disqualification=True)
                    rec["fit"] = "Fitted"
                    rec["new_other"] = {"fam": ofam, "data": name, "profile": prof}
                    others.append({"obj": other, "fam": ofam, "js": serial(ofam, other), "data": name})
                    rec["model_dq"] = len(getattr(other, "disqualification", []))
                    rec["data_dq"] = len(d.disqualification)
                    rec["model_w"] = len(getattr(other, "warnings", []))
                    rec["data_w"] = len(d.warnings)
                    rec["alias_dq"] = getattr(other, "disqualification", None) is d.disqualification
                    rec["alias_w"] = getattr(other, "warnings", None) is d.warnings
                    if rec["alias_dq"] or rec["alias_w"]:
                        fail({"call": call, "broken": "model shares the data object's warning lists"},
                             "after fit the model's warnings/disqualification list is the data object's list itself", step)
                except Exception as e:  # noqa
                    rec["fit"] = "EXC:" + exn_name(e)
            elif kind == "use_other":
                if not others:
                    rec["skipped"] = True
                else:
                    oo = others[op[1] % len(others)]
                    onames = [n for n in datasets_of(oo["fam"]) if OBJ[n]["role"] == "reporting"]
                    nm = onames[op[2] % len(onames)]
                    call = type(oo["obj"]).__name__ + ".predict (another object)"
                    rec["dataset"] = nm
                    try:
                        predict_call(oo["fam"], oo["obj"], OBJ[nm]["obj"])
                        oo["obj"].to_json()
                    except Exception as e:  # noqa
                        rec["other_exc"] = exn_name(e)
            elif kind == "construct":
                specs = SPECS[fam]
                spec = specs[op[1] % len(specs)]
                rec["spec"] = spec
                call = spec["cls"] + (".__init__" if spec["ctor"] == "init" else ".from_series")
                args = caller_copy(spec)
                ridx = []
                for a, n in zip(args, spec["src"]):
                    if a is not None:
                        raws.append({"v": a, "tpl": n, "orig": a.copy(deep=True)})
                        ridx.append(len(raws) - 1)
                    else:
                        ridx.append(None)
                rec["new_raws"] = ridx
                snap = Snap(fam, locals_, raws, hands)          # the new caller frames are watched from here on
                try:
                    o = construct(spec, args)
                    locals_.append({"obj": o, "spec": spec, "raws": ridx})
                    rec["new_local"] = len(locals_) - 1
                except Exception as e:  # noqa
                    rec["exc"] = exn_name(e)
            elif kind == "df":
                o, key, cls = obj_of(op[1])
                if o is None:
                    rec["skipped"] = True
                else:
                    accs = accessors_of(o)
                    attr = accs[(op[2] if len(op) > 2 else 0) % len(accs)]
                    call = cls + "." + attr
                    rec["target"] = key
                    rec["attr"] = attr
                    h = handout(o, attr)
                    pf = private_frame(o)
                    again = handout(o, attr)
                    alias = (h is again) or any(h is v for v in stored_frames(o).values())
                    rec["alias"] = bool(alias)
                    if digest(h) != digest(again):
                        fail({"call": call, "broken": "two accesses hand out different content"},
                             "%s.%s: two successive accesses differ" % (cls, attr), step)
                    if attr == "df" and digest(h) != digest(pf):
                        fail({"call": call, "broken": "hand-out differs from the stored frame"},
                             "%s.%s does not equal the stored frame" % (cls, attr), step)
                    if not alias:
                        st = stored_frames(o)
                        sh = sorted({c for v in st.values() for c in shared_columns(h, v)})
                        reach = buffer_write_reaches(h, st)
                        sh2 = shared_columns(h, again)
                        if sh or reach:
                            rec["shares"] = sh
                            fail({"call": call, "broken": "hand-out shares value buffers with the data object"},
                                 "%s.%s is a new frame object but shares the value buffers of %s with the frame the object keeps%s" % (
                                     cls, attr, ",".join(sh) or "?",
                                     " (a write through numpy into the hand-out changed the object's %s; a second read and a later "
                                     "fit/predict see it)" % ",".join(reach) if reach else ""), step)
                        elif sh2:
                            rec["shares"] = sh2
                            fail({"call": call, "broken": "two hand-outs share value buffers"},
                                 "two successive reads of %s.%s share the value buffers of %s" % (cls, attr, ",".join(sh2)), step)
                    if alias:
                        fail({"call": call, "broken": "hand-out is not a copy"},
                             "%s.%s hands out a frame the object keeps (every access returns the same object; mutating it "
                             "changes the data object)" % (cls, attr), step)
                    for k2, H in enumerate(hands):
                        if H["v"] is h and not alias:
                            fail({"call": call, "broken": "two hand-outs are the same frame"},
                                 "%s.%s returned the same frame twice" % (cls, attr), step)
                    hands.append({"v": h, "from": key, "alias_of": key if alias else None, "shares": bool(rec.get("shares"))})
                    rec["new_hand"] = len(hands) - 1
            elif kind == "mutate":
                where, k, how = op[1], op[2], MUTATIONS[op[3] % len(MUTATIONS)]
                pool = hands if where == "H" else raws
                if not pool:
                    rec["skipped"] = True
                else:
                    k = k % len(pool)
                    rec["target"] = "%s:%d" % (where, k)
                    rec["how"] = how
                    call = "caller mutates a frame %s" % ("handed out by " + pool[k]["from"].split(":")[0] if where == "H"
                                                          else "it passed to a constructor")
                    expect_changed.add("%s:%d" % (where, k))
                    expect_changed.add("%s:%d:meta" % (where, k))
                    if where == "H" and how == "buffer" and pool[k].get("shares"):
                        how = "cell"
                        rec["how"] = how
                    if where == "H" and pool[k].get("alias_of"):
                        # the hand-out IS the object's frame (reported at the hand-out): writing into it would damage
                        # the data object for the rest of the run
                        rec["skipped"] = True
                        rec["alias_target"] = True
                    else:
                        d0 = digest(pool[k]["v"])
                        mutate_in_place(pool[k]["v"], how, salt=step + 1)
                        if digest(pool[k]["v"]) == d0:
                            # the write had nothing to change (an EMPTY frame, e.g. billing_df of a single billing period:
                            # cell / fill / buffer / drop writes are no-ops there): a caller's write that always shows
                            tgt = pool[k]["v"]
                            if isinstance(tgt, pd.Series):
                                tgt.rename("__caller_name_%d__" % (step + 1), inplace=True)
                            else:
                                tgt["__caller_column_%d__" % (step + 1)] = 1.0
                            rec["how"] = how + "->column (nothing to change)"
            else:
                rec["skipped"] = True
        except Exception as e:  # noqa
            rec["exc"] = exn_name(e) + ": " + str(e)[:100]
        # ---------------- observe
        new = Snap(fam, locals_, raws, hands)
        js_new = serial(fam, obj)
        changed = [k for k in new.changed(snap)]
        rec["changed"] = changed
        unexpected = [k for k in changed if k not in expect_changed]
        rec["js_changed"] = (js_new != js) and kind != "reload"
        rec["js_fields"] = json_fields_changed(js, js_new) if rec["js_changed"] else []
        if rec["js_changed"] and js_new.startswith("TOJSON-EXC") and not js.startswith("TOJSON-EXC"):
            rec["to_json_raises"] = js_new.split(":")[1]
            rec["js_fields"] = [("to_json raises " + js_new.split(":")[1]) if f == "<to_json raises>" else f for f in rec["js_fields"]]
        rec["state_vs_ref"] = json_fields_changed(js_ref, js) if (kind == "predict" and js != js_ref) else []
        if kind == "hourly_state" or fam == "Hourly":
            rec["hstate"] = hourly_state(obj)
        # ---------------- every other model object alive: its serialised form must not move either
        rec["others_changed"] = []
        for k2, oo in enumerate(others):
            if kind == "fit_other" and oo is others[-1] and "new_other" in rec:
                continue                                   # the object that was just fitted
            j2 = serial(oo["fam"], oo["obj"])
            if j2 != oo["js"]:
                flds = json_fields_changed(oo["js"], j2)
                rec["others_changed"].append([k2, flds])
                for fld in flds:
                    fail({"call": call, "broken": "serialised form of another model object changed", "field": fld},
                         "%s changed to_json() of another %s object (fitted on %s): %s" % (
                             call, model_class(oo["fam"]).__name__, oo["data"], fld), step)
                oo["js"] = j2
        rec["n_others"] = len(others)
        # ---------------- literal oracle
        if rec["js_changed"]:
            for fld in rec["js_fields"]:
                fail({"call": call, "broken": "serialised form changed", "field": fld},
                     "to_json() differs before/after %s%s: %s%s" % (
                         kind, (" (" + rec["dataset"] + ")") if "dataset" in rec else "", fld,
                         (" (and to_json now raises %s)" % rec["to_json_raises"]) if "to_json_raises" in rec else ""), step)
        if kind == "reload" and not live and js_new != mm["json_reloaded"] and js == js_ref:
            fail({"call": call, "broken": "reload of an unchanged model differs from a fresh reload"},
                 "from_json(to_json()) of an unchanged object does not serialise like a fresh reload", step)
        if kind == "predict" and rec.get("ref") is not None and rec["pred"] != rec["ref"]:
            cause = [f for f in rec["state_vs_ref"] if f != "info.warnings"] or rec["state_vs_ref"] or ["not visible in to_json"]
            for st in cause:
                fail({"call": call, "broken": "prediction depends on history", "state": st},
                     "predict(%s) after this history differs from predict on a fresh copy (model state differs in: %s)" % (
                         rec["dataset"], ",".join(cause)), step)
        for k in unexpected:
            part = k.split(":")
            if part[0] in ("O", "L") and "frame" in part:
                i = part.index("frame")
                fail({"call": call, "broken": "data object modified", "part": "frame"},
                     "%s changed the frame %s of data object %s" % (
                         call, ("." + part[i + 1]) if len(part) > i + 1 else "(private)", ":".join(part[:i])), step)
                continue
            if part[0] == "R" and part[-1] == "meta":
                R = raws[int(part[1])]
                fail({"call": call, "broken": "caller frame modified", "how": "index freq attribute set"},
                     "%s set index.freq of the caller's %s (now %s)" % (call, type(R["v"]).__name__, meta(R["v"])), step)
            elif part[0] == "R":
                R = raws[int(part[1])]
                how = how_changed(R["orig"], R["v"])
                fail({"call": call, "broken": "caller frame modified", "how": how.split(":")[0]},
                     "%s changed the caller's %s (%s)" % (call, type(R["v"]).__name__, how), step)
                R["orig"] = R["v"].copy(deep=True)
            elif part[0] == "H":
                fail({"call": call, "broken": "a frame handed out earlier changed", "from": hands[int(part[1])]["from"].split(":")[0]},
                     "%s changed a frame handed out earlier (%s)" % (call, hands[int(part[1])]["from"]), step)
            else:
                what = part[-1]
                oname = ":".join(part[:-1])
                fail({"call": call, "broken": "data object modified", "part": what},
                     "%s changed the %s of data object %s" % (call, what, oname), step)
        snap, js = new, js_new
        trace.append(rec)
    damaged = any(k.startswith("O:") for r in trace for k in r["changed"])
    return {"trace": trace, "fails": fails, "h0": h0, "damaged": damaged}


def hourly_state(m):
    """the fields of an HourlyModel the state machine of Model/HourlyState.v talks about"""
    try:
        t = m._df_temporal_clusters
        rows = []
        for (mo, dw), v in zip(t.index, t["temporal_cluster"].to_numpy()):
            rows.append((int(mo), int(dw), None if v != v else int(v)))
        return {"table": rows, "ts": list(m._ts_features), "cat": list(m._categorical_features or []),
                "norm": list(m._ts_feature_norm or []), "warnings": [w.qualified_name for w in m.warnings]}
    except Exception as e:  # noqa
        return {"error": exn_name(e)}
