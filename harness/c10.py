"""C10 — sufficiency verdicts are exactly the published criteria.
Model: coq/Model/Sufficiency.v (+ SufficiencyRun.v); theorems: coq/Properties/C10.v (Proofs/SufficiencyProofs.v);
tie: translator (harness/translate_sufficiency.py -> Generated/SufficiencyGen.v: check sequences, thresholds, flags the
data classes pass) + correspondence (this file): scenarios -> six data classes -> captured sufficiency frame ->
Gallina model in coqc; a literal oracle of the statement (harness/c10lib.py, exact integers, from the scenario's ground
truth only) decides violations."""
import datetime as dt
import json
import multiprocessing as mp
import os
from fractions import Fraction

import vlib
from vlib import Run, zlit, coq_list, coq_opt, coq_bool
import c10lib as L
import translate_sufficiency

IMPORTS = "From Coq Require Import QArith.\nFrom V Require Import Model.Sufficiency Model.SufficiencyRun."
FAM = {"daily": "Daily", "billing": "Billing", "hourly": "Hourly"}
COVER = {"TooManyDaysMissingData", "TooManyDaysMissingMeter", "TooManyDaysMissingTemperature"}


# ------------------------------------------------------------------ generator

def ceil_div(a, b):
    return -((-a) // b)


def pick_span(rng, period):
    r = rng.random()
    if r < 0.40:
        return rng.choice([328, 329, 330, 364, 365, 366])
    if r < 0.65:
        return rng.choice([330, 340, 350, 360, 250, 260, 300, 370, 400, 420])     # 0.9 * span is a whole number
    return rng.randrange(250, 421)


def cell_months(sc):
    """(month of every cell of the class's grid, number of cells per local day for the hourly grid)"""
    tz = sc["tz"]
    ts = L.hour_starts(sc) if sc["family"] == "hourly" else L.day_starts(sc)
    return [L.local_month(t, tz) for t in ts]


def groups_by_month(months, lo, hi):
    """month -> interior cell indices lo..hi-1, in calendar order of first appearance"""
    g = {}
    for i in range(lo, hi):
        g.setdefault(months[i], []).append(i)
    return g


def choose_cells(rng, cand, k, style):
    """k cells out of the sorted candidate list: one block, several blocks, or scattered"""
    k = max(0, min(k, len(cand)))
    if k == 0:
        return []
    if style == "scatter" and k > 120:
        style = "blocks"             # thousands of single-cell gaps only inflate the case literals
    if style == "block":
        s = rng.randrange(0, len(cand) - k + 1)
        return cand[s:s + k]
    if style == "scatter":
        return sorted(rng.sample(cand, k))
    out = set()
    left = k
    tries = 0
    while left > 0 and tries < 200:
        tries += 1
        b = min(left, rng.randrange(1, max(2, k // 2 + 1)))
        s = rng.randrange(0, len(cand) - b + 1)
        blk = [c for c in cand[s:s + b] if c not in out]
        out.update(blk)
        left = k - len(out)
    rest = [c for c in cand if c not in out]
    out.update(rng.sample(rest, k - len(out)) if len(out) < k else [])
    return sorted(out)


def place(rng, months, lo, hi, k, caps=True, frac_den=10, avoid=()):
    """k interior cells; with caps at most floor(L_m / 10) per month of L_m cells (so that no month drops under 90 %),
    as far as that is possible"""
    avoid = set(avoid)
    g = groups_by_month(months, lo, hi)
    allm = {}
    for i, m in enumerate(months):
        allm[m] = allm.get(m, 0) + 1
    chosen = []
    style = rng.choice(["block", "blocks", "scatter"])
    order = list(g)
    rng.shuffle(order)
    left = k
    if caps:
        quota = {m: min(allm[m] // frac_den, len([c for c in g[m] if c not in avoid])) for m in order}
        tot = sum(quota.values())
        take = {m: 0 for m in order}
        # fill proportionally, then top up
        for m in order:
            take[m] = min(quota[m], (quota[m] * k) // tot if tot else 0)
        rem = k - sum(take.values())
        for m in order:
            while rem > 0 and take[m] < quota[m]:
                take[m] += 1
                rem -= 1
        for m in order:
            chosen += choose_cells(rng, [c for c in g[m] if c not in avoid], take[m], style)
        left = rem
    if left > 0:
        rest = [c for m in order for c in g[m] if c not in avoid and c not in set(chosen)]
        chosen += choose_cells(rng, sorted(rest), left, style)
    return sorted(chosen)


def to_runs(cells):
    runs = []
    for c in cells:
        if runs and runs[-1][0] + runs[-1][1] == c:
            runs[-1][1] += 1
        else:
            runs.append([c, 1])
    return runs


def gen_scenario(rng, k, force=None):
    force = force or {}
    fam = force.get("family") or rng.choice(["daily", "daily", "hourly", "billing", "hourly", "daily", "billing"])
    period = force.get("period") or rng.choice(["baseline", "baseline", "reporting"])
    sc = {"family": fam, "period": period, "electric": rng.random() < 0.5, "tz": rng.choice(L.ZONES)}
    if sc["tz"] == "UTC":
        sc["utc_kind"] = rng.choice(L.UTC_KINDS)      # the index carries one of five kinds of UTC tzinfo
    d0 = dt.date(2018, 1, 1) + dt.timedelta(days=rng.randrange(0, 1200))
    sc["start"] = [d0.year, d0.month, d0.day]
    sc["span"] = force.get("span") or pick_span(rng, period)
    if fam == "hourly":
        sc["entry"] = "frame"
        sc["temp_source"] = "hourly"
        if rng.random() < 0.3:
            sc["ghi_missing"] = []
    else:
        sc["entry"], sc["temp_source"] = rng.choice([("frame", "daily"), ("from_series", "hourly"), ("frame", "hourly"),
                                                     ("from_series", "daily")])
    if period == "reporting":
        sc["observed_column"] = rng.random() < 0.5
    if fam == "daily" and sc["temp_source"] == "hourly" and L.has_meter(sc) and rng.random() < 0.3:
        # the daily meter reads sit at another hour than the first (midnight) row of the hourly temperature
        sc["read_hour"] = rng.choice([6, 7, 12, 18])
    if fam == "billing":
        return gen_billing(rng, sc)
    months = cell_months(sc)
    n = len(months)
    per_day = 24 if fam == "hourly" else 1
    T = sc["span"]
    target = force.get("target") or rng.choice(
        ["usage", "temp", "both", "month_temp", "month_temp", "usage", "temp", "negative", "extreme", "zero", "nodata",
         "ends", "random", "clean", "month_usage", "month_ghi"])
    if fam == "daily" and period == "reporting" and sc.get("observed_column") and not force.get("target") and rng.random() < 0.2:
        target = "rep_partial"       # usage on the first part of the reporting period only
    if fam == "daily" and sc["entry"] == "from_series" and not force.get("target") and rng.random() < 0.12:
        target = "edges"             # readings without a value at the outer edges (from_series trims them)
    if target == "nodata":
        sc.pop("read_hour", None)      # without any read the class falls back to the midnight grid
    delta = rng.choice([-1, 0, 0, 1])
    sc["target"] = [target, delta]
    n_star = ceil_div(9 * T, 10)                     # fewest valid whole days that are not "under 90 %"
    lo, hi = per_day, n - per_day                    # interior: first and last day stay complete
    if fam == "hourly":
        r = rng.choice([0, 0, 1, 23])
        kmiss = (n - 1) - (24 * (n_star - delta) + r)  # valid hours = 24 (n_star - delta) + r
    else:
        kmiss = (n - 1) - (n_star - delta)
    kmiss = max(0, kmiss)
    um, tmiss = [], []
    if target == "usage":
        um = place(rng, months, lo, hi, kmiss, caps=(fam == "hourly" and rng.random() < 0.7))
        tmiss = place(rng, months, lo, hi, rng.choice([0, 0, 1, 2]) * per_day, caps=True, avoid=um)
    elif target == "temp":
        tmiss = place(rng, months, lo, hi, kmiss, caps=rng.random() < 0.7)
        um = place(rng, months, lo, hi, rng.choice([0, 0, 1, 2]) * per_day, caps=True, avoid=tmiss)
    elif target == "both":
        ku = rng.randrange(0, kmiss + 1)
        um = place(rng, months, lo, hi, ku, caps=(fam == "hourly"))
        tmiss = place(rng, months, lo, hi, kmiss - ku, caps=True, avoid=um)
    elif target in ("month_temp", "month_usage", "month_ghi"):
        g = groups_by_month(months, 0, n)
        m = rng.choice(list(g))
        Lm = len(g[m])
        allowed = Lm - ceil_div(9 * Lm, 10)           # most cells a month may miss without dropping under 90 %
        kk = max(0, allowed + (1 if delta < 0 else 0 if delta == 0 else -1))
        cand = [c for c in g[m] if lo <= c < hi] or g[m]
        cells = choose_cells(rng, cand, kk, rng.choice(["block", "blocks", "scatter"]))
        if target == "month_temp":
            tmiss = cells
        elif target == "month_usage":
            um = cells
        else:
            sc["ghi_missing"] = to_runs(cells)
    elif target == "edges":
        # leading / trailing cells without temperature and / or usage; partial edge days come from the hour conversion
        a, b = rng.choice([0, 1, 2, 3]), rng.choice([0, 1, 2])
        tmiss = list(range(0, a)) + list(range(n - b, n))
        a2, b2 = rng.choice([0, 0, 1, 4]), rng.choice([0, 0, 1, 3])
        um = list(range(0, a2)) + list(range(n - b2, n))
        um += place(rng, months, lo + 5, hi - 5, rng.choice([0, 3, 30, 36]), caps=False)
    elif target == "rep_partial":
        if sc["entry"] == "from_series":
            sc["entry"] = "frame"                      # from_series trims to the rows that have usage
        k = rng.randrange(60, max(61, n // 2))
        um = list(range(k, n))
        # temperature gaps after the usage stops: between 85 % and 95 % of the whole span stays valid
        tmiss = place(rng, months, k + 1, hi, (n * rng.choice([5, 9, 11, 13])) // 100, caps=False)
    elif target == "nodata":
        if rng.random() < 0.5:
            um = list(range(n))
        else:
            tmiss = list(range(n))
    elif target == "ends":
        # usage missing at the ends (temperature present): the span runs between the first and last complete row
        if sc["entry"] == "from_series":
            sc["entry"] = "frame"
        a = rng.choice([0, 1, 2, 36, 37]) * per_day
        b = rng.choice([0, 1, 36]) * per_day
        um = list(range(0, a)) + list(range(n - b, n))
    elif target == "random":
        edge = per_day if sc["entry"] == "from_series" else 0      # from_series trims to the common range of both series
        for _ in range(rng.randrange(1, 6)):
            s = rng.randrange(edge, n - edge)
            ln = rng.randrange(1, 12 * per_day)
            (um if rng.random() < 0.5 else tmiss).extend(range(s, min(n - edge, s + ln)))
        um, tmiss = sorted(set(um)), sorted(set(tmiss))
    else:
        um = place(rng, months, lo, hi, rng.choice([0, 1, 3]) * per_day, caps=True)
        tmiss = place(rng, months, lo, hi, rng.choice([0, 1, 2]) * per_day, caps=True, avoid=um)
    sc["usage_missing"] = to_runs(um)
    ov = []
    if target == "negative":
        for _ in range(rng.choice([1, 1, 3])):
            ov.append([rng.randrange(0, n), rng.choice([1, per_day]), rng.choice([-0.5, -3.0, -100.0])])
    if target == "extreme":
        ov.append([rng.randrange(0, n), rng.choice([1, per_day]), rng.choice([64.0, 1000.0])])
    if target == "zero":
        s = rng.randrange(lo, hi)
        ov.append([s, rng.choice([1, 5, 40]) * per_day, 0.0])
    if ov:
        sc["usage_override"] = ov
    # temperature: in cells of the class grid (daily source / hourly family) or in hours (daily class, hourly source)
    if fam != "hourly" and sc["temp_source"] == "hourly":
        hs = L.hour_starts(sc)
        ds = L.day_starts(sc, extra=1)
        first = {}
        j = 0
        while j < len(hs) and hs[j] < ds[0]:
            j += 1
        for i in range(sc["span"]):
            first[i] = j
            while j < len(hs) and hs[j] < ds[i + 1]:
                j += 1
        first[sc["span"]] = j
        runs = []
        tset = set(tmiss)
        # from_series with a meter series: a leading day with only part of its temperature hours missing makes the
        # joined index irregular (the meter row at midnight precedes the first temperature row) and sends the class
        # down its pre-aggregated-temperature path - not generated (see the report); leading days are missing whole
        whole_leading = set()
        if sc["entry"] == "from_series" and L.has_meter(sc) and target != "nodata":
            d = 0
            while d in tset:
                whole_leading.add(d)
                d += 1
        for d in tmiss:
            tot = first[d + 1] - first[d]
            kk = rng.choice([3, 3, tot // 2, tot // 2 + 1, tot, tot - 21])       # invalid day: under 90 % of its hours
            kk = max(3, min(tot, kk))
            off = rng.randrange(0, tot - kk + 1)
            if target == "nodata":      # no day keeps more than half of its hours; the series itself is not all-NaN
                kk = rng.randrange(tot - tot // 2, tot - 1)
                off = 1
            if target == "edges":       # the outermost missing day may be partial, the block touches the edge
                kk = tot if 0 < d < sc["span"] - 1 and (d + 1 in tmiss or d - 1 in tmiss) and rng.random() < 0.6 else \
                    rng.choice([tot, 13, 3, 1])
                kk = min(kk, tot)
                off = 0 if d < sc["span"] // 2 else tot - kk
            if d in whole_leading:
                kk, off = tot, 0
            runs.append([first[d] + off, kk])
        for _ in range(rng.choice([0, 0, 2, 5])):                                # still-valid days missing 1-2 hours
            d = rng.randrange(1 if (sc["entry"] == "from_series" and L.has_meter(sc)) else 0, sc["span"])
            if d not in tset:
                runs.append([first[d] + rng.randrange(0, 20), rng.choice([1, 2])])
        sc["temp_missing"] = sorted(runs)
    else:
        sc["temp_missing"] = to_runs(tmiss)
    if fam == "hourly" and rng.random() < 0.15 and sc["usage_missing"] and sc["usage_missing"][0][1] <= n // 3 \
            and sc["usage_missing"][0][0] > 0 and sum(sc["usage_missing"][0]) < n:
        sc["rows_absent"] = [sc["usage_missing"][0]]     # rows that are not in the input at all
    return sc


def gen_billing_rows(rng, sc):
    """daily or hourly meter rows handed to a billing class (it sums them per calendar month): whole calendar months,
    with 0-3 months without any meter value at the start, in the interior or at the end of the span.
    Not generated: spans that are not whole calendar months (the monthly total is spread over the days before the first
    row), days missing inside a month (the month's total hides them) and - frame constructor - a trailing month without
    values (the preceding month becomes a 61-day off-cycle period and is dropped); see the report."""
    import calendar
    for _ in range(20):
        y, m = rng.randrange(2018, 2022), rng.randrange(1, 13)
        k = rng.choice([12, 12, 12, 11, 11, 10, 13, 9])
        lens = [calendar.monthrange(y + (m - 1 + j) // 12, (m - 1 + j) % 12 + 1)[1] for j in range(k)]
        sc["start"], sc["span"] = [y, m, 1], sum(lens)
        ts = L.day_starts(sc, extra=2)
        # no clock change on the last days of any month: from_series trims trailing months without values, and the
        # closing stamp (end + 24 h) of the class loses the usage of a final 23 / 25-hour day (C08's subject)
        ends = [sum(lens[:j + 1]) for j in range(k)]
        if all(ts[i + 1] - ts[i] == L.DAY for e in ends for i in range(e - 3, e + 1)):
            break
    sc["meter_source"] = rng.choice(["daily", "daily", "hourly"])
    if sc["meter_source"] == "hourly":
        sc["temp_source"] = "hourly"
    nmiss = rng.choice([0, 1, 1, 2, 2, 3])
    where = rng.choice(["start", "interior", "end", "mixed"])
    if where == "end" and sc["entry"] == "frame":
        where = "interior"
    if where == "start":
        miss = list(range(nmiss))
    elif where == "end":
        miss = list(range(k - nmiss, k))
    elif where == "interior":
        miss = sorted(rng.sample(range(1, k - 1), nmiss))
    else:
        pool = list(range(0, k - 1)) if sc["entry"] == "frame" else list(range(k))
        miss = sorted(rng.sample(pool, nmiss))
    sc["usage_missing"] = [[sum(lens[:j]), lens[j]] for j in miss]
    sc["target"] = ["billing_rows", nmiss]
    n = sc["span"]
    months = [L.local_month(t, sc["tz"]) for t in L.day_starts(sc)]
    tmiss = place(rng, months, 1, n - 1, rng.choice([0, 0, 2, 20, 40]), caps=rng.random() < 0.6)
    if sc["temp_source"] == "hourly":
        hs = L.hour_starts(sc)
        ds = L.day_starts(sc, extra=1)
        first, j = {}, 0
        for i in range(n):
            first[i] = j
            while j < len(hs) and hs[j] < ds[i + 1]:
                j += 1
        first[n] = j
        sc["temp_missing"] = sorted([first[d], first[d + 1] - first[d]] for d in tmiss)
    else:
        sc["temp_missing"] = to_runs(tmiss)
    if sc["period"] == "reporting":
        sc["observed_column"] = True
    return sc


def gen_billing(rng, sc):
    """billing periods: a monthly (27-34 days) or bimonthly (56-65) cycle, a few stamps without a reading, at most two
    off-cycle periods; temperature gaps in days / hours"""
    if rng.random() < 0.3:
        return gen_billing_rows(rng, sc)
    T = sc["span"]
    # a final billing day with a clock change shifts the closing stamp (end + 24 h) by an hour and the class loses that
    # day's usage: usage conservation is C08's subject, so the last days here are plain 24-hour days
    for _ in range(4):
        ts = L.day_starts(sc, extra=2)
        if all(ts[i + 1] - ts[i] == L.DAY for i in range(T - 3, T + 1)):
            break
        d0 = L.start_date(sc) - dt.timedelta(days=5)
        sc["start"] = [d0.year, d0.month, d0.day]
    bim = rng.random() < 0.25
    target = rng.choice(["clean", "offcycle_short", "offcycle_long", "missing_value", "temp", "month_temp", "negative",
                         "extreme", "clean", "temp"])
    sc["target"] = [target, 0]
    # an even partition of the span into periods of a monthly (26-34 days) or bimonthly (50-69) cycle, then perturbed;
    # lengths stay clear of the 25 / 35 / 70 day limits (elapsed-day rounding across a clock change is C08's subject)
    lo_len, hi_len = (50, 69) if bim else (26, 34)
    k = max(1, round(T / (60.0 if bim else 30.0)))
    while T // k > hi_len - 1:
        k += 1
    while T // k < lo_len + 1 and k > 1:
        k -= 1
    q, r = divmod(T, k)
    lens = [q + 1] * r + [q] * (k - r)
    rng.shuffle(lens)
    for _ in range(2 * k):
        i, j = rng.randrange(k), rng.randrange(k)
        d = rng.randrange(0, 4)
        if i != j and lens[i] + d <= hi_len and lens[j] - d >= lo_len:
            lens[i] += d
            lens[j] -= d
    vals = [float(rng.choice([200, 300, 400, 500, 640, 800])) + 10 * i for i in range(len(lens))]
    if target == "offcycle_short" and len(lens) > 3:
        i = rng.randrange(1, len(lens) - 1)
        cut = rng.randrange(5, 9) if not bim else rng.randrange(8, 20)
        # split period i into a short read and the rest (the rest stays on-cycle)
        rest = lens[i] - cut
        if rest >= lo_len:
            lens[i:i + 1] = [cut, rest]
            vals[i:i + 1] = [vals[i] / 2, vals[i] / 2]
    if target == "offcycle_long" and len(lens) > 3:
        i = rng.randrange(0, len(lens) - 2)
        if lens[i] + lens[i + 1] >= hi_len + 4 and (not bim or lens[i] + lens[i + 1] >= 73):
            lens[i:i + 2] = [lens[i] + lens[i + 1]]
            vals[i:i + 2] = [vals[i] + vals[i + 1]]
    if target == "missing_value" and len(lens) > 3:
        i = rng.randrange(1, len(lens) - 1)
        vals[i] = 0.0 if (sc["electric"] and rng.random() < 0.5) else None
    if target == "negative":
        vals[rng.randrange(0, len(vals))] = -50.0
    if target == "extreme":
        vals[rng.randrange(0, len(vals))] = 20000.0
    sc["periods"] = [[ln, v] for ln, v in zip(lens, vals)]
    n = T
    months = [L.local_month(t, sc["tz"]) for t in L.day_starts(sc)]
    tmiss = []
    if target == "temp":
        n_star = ceil_div(9 * T, 10)
        extra = 1 if sc["entry"] == "frame" else 0          # the closing stamp gives the last day a period
        kmiss = max(0, (n - 1 + extra) - (n_star - rng.choice([-1, 0, 0, 1])))
        tmiss = place(rng, months, 1, n - 1, kmiss, caps=rng.random() < 0.7)
    elif target == "month_temp":
        g = groups_by_month(months, 0, n)
        m = rng.choice(list(g))
        Lm = len(g[m])
        allowed = Lm - ceil_div(9 * Lm, 10)
        tmiss = choose_cells(rng, [c for c in g[m] if 1 <= c < n - 1], max(0, allowed + rng.choice([0, 1])), "blocks")
    else:
        tmiss = place(rng, months, 1, n - 1, rng.choice([0, 0, 2]), caps=True)
    if sc["temp_source"] == "hourly":
        hs = L.hour_starts(sc)
        ds = L.day_starts(sc, extra=1)
        first = {}
        j = 0
        for i in range(n):
            first[i] = j
            while j < len(hs) and hs[j] < ds[i + 1]:
                j += 1
        first[n] = j
        sc["temp_missing"] = sorted([first[d], first[d + 1] - first[d]] for d in tmiss)
    else:
        sc["temp_missing"] = to_runs(tmiss)
    return sc


# ------------------------------------------------------------------ judging an observation with the oracle

def variant_oracle(sc, cells, usage_counted=False, bias=None, span_over_usage=False):
    """the oracle evaluated under a *named defect* (only used to attribute a discrepancy to a recorded finding):
    usage_counted: the usage rules of baseline data applied to the completeness / valid-day count of reporting data;
    bias: whole-day counts lowered by one (binary64 accumulation)"""
    base = sc["period"] == "baseline"
    o = L.oracle(sc, cells)
    if not usage_counted and not bias and not span_over_usage:
        return o["dq"]
    has_ghi = any(c["ghi"] is not None for c in cells)
    um = base or usage_counted

    def complete(c):
        return ((not (um or span_over_usage)) or c["usage"] is not None) and c["temp_present"] and (not has_ghi or c["ghi"])
    comp = [c for c in cells if complete(c)]
    total = None if not comp else (comp[-1]["t"] - comp[0]["t"]) // L.DAY + 1
    bias = bias or {}
    n_temp = L.whole_days(cells, lambda c: c["temp_valid"], None)[0] - bias.get("temp", 0)
    n_use = L.whole_days(cells, lambda c: c["usage"] is not None, None)[0] - bias.get("use", 0)
    n_both = (L.whole_days(cells, lambda c: c["usage"] is not None and c["temp_valid"], None)[0] if um else
              L.whole_days(cells, lambda c: c["temp_valid"], None)[0]) - bias.get("both", 0)
    dq = set(o["dq"]) - COVER - {"NoData", "IncorrectNumberOfTotalDays"}

    def under(x):
        return True if total is None else 10 * x < 9 * total
    if total is None:
        dq.add("NoData")
    if base and total is not None and not (329 <= total <= 365):
        dq.add("IncorrectNumberOfTotalDays")
    if under(n_both):
        dq.add("TooManyDaysMissingData")
    if base and under(n_use):
        dq.add("TooManyDaysMissingMeter")
    if under(n_temp):
        dq.add("TooManyDaysMissingTemperature")
    return dq


def exact_counts(sc, cells, usage_counted):
    """key -> (exact whole days, the exact sum is a whole number of days, a non-dyadic period length takes part)"""
    um = sc["period"] == "baseline" or usage_counted
    preds = {"temp": lambda c: c["temp_valid"],
             "both": (lambda c: c["usage"] is not None and c["temp_valid"]) if um else (lambda c: c["temp_valid"])}
    if um:
        preds["use"] = lambda c: c["usage"] is not None
    out = {}
    for k, p in preds.items():
        n, secs = L.whole_days(cells, p, None)
        nd = any(p(c) and (cells[i + 1]["t"] - c["t"]) % 675 != 0 for i, c in enumerate(cells[:-1]))
        out[k] = (n, secs % L.DAY == 0, nd)
    return out


def same_verdict(impl, want):
    """set equality; with no data at all the coverage fractions are undefined and not compared"""
    if "NoData" in want or "NoData" in impl:
        return ("NoData" in want) == ("NoData" in impl) and (impl - COVER) == (want - COVER)
    return impl == want


def judge(sc, cells, obs, exp=None):
    """-> list of (signature, message, expected); empty when the statement holds on this observation"""
    exp = L.oracle(sc, cells) if exp is None else exp
    sig0 = {"family": sc["family"], "period": sc["period"]}
    fails = []
    if obs["kind"] == "harness-error":
        raise RuntimeError("input builder failed: " + obs["msg"])
    if obs["kind"] == "err":
        no_usage = all(c["usage"] is None for c in cells)
        if obs["cls"] == "AttributeError" and sc["period"] == "baseline" and sc["family"] in ("daily", "billing") and no_usage:
            fails.append((dict(sig0, cause="baseline without any usage raises", raised="AttributeError"),
                          "a %s baseline whose usage is entirely missing raises AttributeError instead of being reported as "
                          "disqualified (no_data)" % sc["family"], sorted(exp["dq"])))
        else:
            fails.append((dict(sig0, cause="well-formed input rejected", raised=obs["cls"], where=obs.get("where")),
                          "well-formed input raised %s: %s" % (obs["cls"], obs.get("msg")), sorted(exp["dq"])))
        return fails
    unknown = [x for x in obs["dq"] if x not in L.DQ_NAMES]
    if unknown:
        fails.append((dict(sig0, cause="disqualification outside the published criteria", names=unknown),
                      "disqualification(s) %s are not among the published criteria" % unknown, sorted(exp["dq"])))
    impl = {L.DQ_NAMES[x] for x in obs["dq"] if x in L.DQ_NAMES}
    want = set(exp["dq"])
    warn = {L.WARN_NAMES[x] for x in obs["warnings"] if x in L.WARN_NAMES}
    offc = sc["family"] == "billing" and L.has_meter(sc) and bool(L.billing_offcycle(sc))
    if "OffcycleReads" in impl:
        if offc:
            fails.append((dict(family="billing", cause="off-cycle reads reported as disqualification"),
                          "off-cycle billing reads are appended to .disqualification (the statement: a warning that never "
                          "changes the verdict)", sorted(want)))
        else:
            fails.append((dict(sig0, cause="spurious off-cycle disqualification"), "off-cycle disqualification without an "
                          "off-cycle period", sorted(want)))
        impl = impl - {"OffcycleReads"}
        warn = warn | {"OffcycleWarning"}
    if not same_verdict(impl, want):
        explained = False
        cap = obs.get("captured") or {}
        counts = cap.get("counts")
        # (a) usage rules applied to hourly reporting data
        if sc["family"] == "hourly" and sc["period"] == "reporting":
            if same_verdict(impl, variant_oracle(sc, cells, usage_counted=True)):
                fails.append((dict(family="hourly", period="reporting", cause="usage criteria applied to reporting data"),
                              "HourlyReportingData does not pass is_reporting_data=True: rows without usage are not complete "
                              "and not valid, reported %s, the criteria give %s" % (sorted(impl), sorted(want)), sorted(want)))
                explained = True
        # (a') span of reporting data measured over the rows that have usage
        if not explained and sc["period"] == "reporting" and sc["family"] != "hourly" and L.has_meter(sc) \
                and any(c["usage"] is None for c in cells) and any(c["usage"] is not None for c in cells):
            if same_verdict(impl, variant_oracle(sc, cells, span_over_usage=True)):
                fails.append((dict(period="reporting", cause="span of reporting data measured over rows with usage"),
                              "%s reporting data with usage on part of the days: the span (n_days_total %s) is taken between "
                              "the first and last row that has usage, reported %s, the criteria give %s" % (
                                  sc["family"], counts[0] if counts else "?", sorted(impl), sorted(want)), sorted(want)))
                explained = True
        # (b) binary64 accumulation of the valid-day sums (alone, or on top of (a) for hourly reporting data)
        if not explained and counts and counts[0] not in (None, "nan"):
            for uc in ([False, True] if (sc["family"] == "hourly" and sc["period"] == "reporting") else [False]):
                ex = exact_counts(sc, cells, uc)
                got = {"both": counts[1], "use": counts[2], "temp": counts[3]}
                bias = {k: 1 for k, (n_exact, whole, nd) in ex.items() if whole and nd and got[k] == n_exact - 1}
                if bias and same_verdict(impl, variant_oracle(sc, cells, usage_counted=uc, bias=bias)):
                    fails.append((dict(cause="valid-day sum truncated below a whole number", period_seconds="non-dyadic",
                                       family=sc["family"]),
                                  "int(float sum of period lengths) under-counts: exact whole days %s, counted %s; reported %s, "
                                  "the criteria give %s" % ({k: v[0] for k, v in ex.items()}, got, sorted(impl), sorted(want)),
                                  sorted(want)))
                    if uc:
                        fails.append((dict(family="hourly", period="reporting", cause="usage criteria applied to reporting data"),
                                      "HourlyReportingData does not pass is_reporting_data=True (together with the truncated "
                                      "day sum): reported %s, the criteria give %s" % (sorted(impl), sorted(want)), sorted(want)))
                    explained = True
                    break
        if not explained:
            extra, missing = sorted(impl - want), sorted(want - impl)
            fails.append((dict(sig0, cause="verdict differs", extra=extra, missing=missing, entry=sc["entry"]),
                          "reported %s, the published criteria give %s (spurious %s, missing %s)" % (
                              sorted(impl), sorted(want), extra, missing), sorted(want)))
    for w in sorted(exp["warn_must"] - warn):
        sig = dict(sig0, cause="warning missing", warning=w)
        if w == "UtcIndex":
            sig.update(utc_kind=sc.get("utc_kind", "stdlib"), tz_str_is_UTC=L.utc_by_name(sc), entry=sc["entry"])
        fails.append((sig, "warning %s is not reported%s" % (w, (" (index in UTC, tzinfo kind %s)" % sig["utc_kind"]) if w == "UtcIndex" else ""),
                      sorted(exp["warn_must"])))
    if "UtcIndex" in warn and sc["tz"] != "UTC":
        fails.append((dict(sig0, cause="spurious warning", warning="UtcIndex"), "utc_index reported for a local index", []))
    if sc["period"] == "baseline" and "NoData" not in want:
        has, margin = L.extreme_truth(cells)
        if margin is not None and margin > 1e-6 and has != ("ExtremeValues" in warn):
            fails.append((dict(sig0, cause="extreme-value warning", warning="missing" if has else "spurious"),
                          "extreme values %s" % ("not reported" if has else "reported without any"), has))
    return fails


# ------------------------------------------------------------------ pre-processing tie (python): frame vs ground truth

def expand_segs(segs):
    rows = []
    for t0, step, n, off, o, tp, cov, g, a in segs:
        for i in range(n):
            rows.append((t0 + i * step, off, o, tp, cov, g, a))
    return rows


def frame_vs_truth(sc, cells, cap):
    """the frame the data class built must say, cell by cell, what the scenario says (None = agrees)"""
    rows = expand_segs(cap["segs"])
    by_t = {c["t"]: c for c in cells}
    seen = set()
    usage_col = cap["has_obs"]
    for t, off, o, tp, cov, g, a in rows:
        c = by_t.get(t)
        if c is None:
            return "row at %d is not a cell of the scenario" % t
        seen.add(t)
        if usage_col and (o is not None) != (c["usage"] is not None):
            return "usage presence differs at %d" % t
        if usage_col and o is not None and sc["family"] != "billing" and Fraction(o[0], o[1]) != c["usage"]:
            return "usage value differs at %d" % t
        if usage_col and o is not None and sc["family"] == "billing":
            v = Fraction(o[0], o[1])
            # (1 %: a final billing day with a clock change shifts the closing stamp by an hour)
            if abs(v - c["usage"]) > Fraction(1, 100) * max(1, abs(c["usage"])):
                return "usage value differs at %d" % t
        if tp != c["temp_present"]:
            return "temperature presence differs at %d" % t
        valid = cov is not None and 10 * cov[0] > 9 * (cov[0] + cov[1])
        if valid != c["temp_valid"] and not c.get("marker"):
            return "temperature validity differs at %d" % t
        if c["ghi"] is not None and g != c["ghi"]:
            return "ghi presence differs at %d" % t
        if utc_off(sc, t) != off:
            return "utc offset differs at %d" % t
    for c in cells:
        if c["t"] not in seen:
            # rows trimmed by the entry point must carry nothing
            if c["usage"] is not None and cap["has_obs"]:
                return "cell at %d with usage is not in the frame" % c["t"]
            if c["temp_present"] and not cap["has_obs"]:
                return "cell at %d with temperature is not in the frame" % c["t"]
    if not usage_col and any(c["usage"] is not None for c in cells):
        return "frame without usage column although usage exists"
    return None


def utc_off(sc, t):
    return L.utc_offset(t, sc["tz"])


# ------------------------------------------------------------------ Coq terms

def qlit(o):
    num, den = o
    return "(%s # %d)%%Q" % (("(%d)" % num) if num < 0 else str(num), den)


def coq_seg(s):
    t0, step, n, off, o, tp, cov, g, a = s
    return "(%s, %s, %s, %s, %s, %s, %s, %s, %s)" % (
        zlit(t0), zlit(step), zlit(n), zlit(off), coq_opt(o, qlit), coq_bool(tp),
        coq_opt(cov, lambda c: "(%s, %s)" % (zlit(c[0]), zlit(c[1]))), coq_bool(g), coq_bool(a))


def coq_outcome(obs):
    if obs["kind"] == "err":
        return "(Raised %s)" % ("AttributeError" if obs["cls"] == "AttributeError" else "OtherError")
    dq = [L.DQ_NAMES[x] for x in obs["dq"] if x in L.DQ_NAMES]
    wn = [L.WARN_NAMES[x] for x in obs["warnings"] if x in L.WARN_NAMES]
    dq = [x for x in L.DQ_ORDER if x in dq]
    wn = [x for x in L.WARN_ORDER if x in wn]
    return "(Accepted %s %s)" % (coq_list(dq), coq_list(wn))


def coq_case(sc, obs, drop_extreme=False):
    cap = obs.get("captured")
    if not cap or "error" in cap:
        return None
    # x_utc: whether the pre-processing of the code as it is recognises the index as a UTC index
    ctx = "(mkctx %s %s %s)" % (coq_bool(L.utc_as_coded(sc)),
                                coq_bool(sc["family"] != "hourly" and sc["temp_source"] == "daily"),
                                coq_bool(sc["family"] == "billing" and L.has_meter(sc) and bool(L.billing_offcycle(sc))))
    counts = "None"
    c = cap.get("counts")
    if c is not None:
        tot = "None" if c[0] in (None, "nan") else "(Some %s)" % zlit(c[0])
        counts = "(Some (mkcounts %s %s %s %s))" % (tot, zlit(c[1] or 0), zlit(c[2] or 0), zlit(c[3] or 0))
    return "(mkcase %s %s %s %s %s %s %s %s %s %s)" % (
        FAM[sc["family"]], "Baseline" if sc["period"] == "baseline" else "Reporting", coq_bool(sc["electric"]), ctx,
        coq_bool(cap["has_obs"]), coq_bool(cap["has_ghi"]), coq_list([coq_seg(s) for s in cap["segs"]]), counts,
        coq_outcome(obs), coq_bool(drop_extreme))


def coq_billing_rows(sc, cap):
    """daily / hourly rows handed to a billing class: the days of the span with the values supplied (month key, length
    in seconds, sum of the day's values) and what the captured frame carries per day -> term of type brcase"""
    n = sc["span"]
    ts = L.day_starts(sc, extra=1)
    raw = L.usage_cells(sc, n)
    d0 = L.start_date(sc)
    seen = {}
    if cap["has_obs"]:
        for t, off, o, tp, cov, g, a in expand_segs(cap["segs"]):
            seen[t] = o
    else:
        for t, off, o, tp, cov, g, a in expand_segs(cap["segs"]):
            seen[t] = None
    days, obs = [], []
    for i in range(n):
        d = d0 + dt.timedelta(days=i)
        ln = ts[i + 1] - ts[i]
        v = raw[i]
        if v is not None:
            v = Fraction(v) * ((ln // 3600) if sc["meter_source"] == "hourly" else 24) / 24
            if sc["electric"] and v == 0:
                v = None
        days.append("(mkday %s %s %s)" % (zlit(d.year * 12 + d.month), zlit(ln),
                                          coq_opt(v, lambda q: qlit((q.numerator, q.denominator)))))
        if ts[i] in seen:
            obs.append("(Some %s)" % coq_opt(seen[ts[i]], qlit))
        else:
            obs.append("None")
    return "(%s, %s)" % (coq_list(days), coq_list(obs))


# ------------------------------------------------------------------ main

def margins(sc, cells, exp):
    """how close the scenario is to each threshold (for the evidence)"""
    det = exp["detail"]
    out = {}
    T = det["total"]
    if T is not None:
        for key in ("n_both", "n_use", "n_temp"):
            if det.get(key) is not None:
                d = 10 * det[key] - 9 * T
                out[key] = "exactly 90%" if d == 0 else "one day under" if -10 <= d < 0 else "one day over" if 0 < d <= 10 else \
                    "under" if d < 0 else "over"
        if sc["period"] == "baseline":
            out["span"] = str(T) if T in (328, 329, 330, 364, 365, 366) else ("short" if T < 329 else "long" if T > 365 else "in range")
    return out


def month_margin(cells, present):
    best = None
    for m in range(1, 13):
        g = [c for c in cells if c["month"] == m]
        if g:
            d = 10 * sum(1 for c in g if present(c)) - 9 * len(g)
            if best is None or abs(d) < abs(best):
                best = d
    return best


def evaluate(sc):
    """worker: implementation, ground truth, oracle, pre-processing tie and the Coq term of one scenario"""
    obs = L.run_scenario(sc)
    cells = L.truth(sc)
    exp = L.oracle(sc, cells)
    dist = [("class", (sc["family"], sc["period"], sc["entry"], sc["temp_source"])),
            ("outcome", "ok" if obs["kind"] == "ok" else obs.get("cls", obs["kind"])),
            ("target", tuple(sc.get("target", ["replay", 0])))]
    for crit, where in margins(sc, cells, exp).items():
        dist.append(("threshold:" + crit, where))
    mm = month_margin(cells, lambda c: c["temp_present"])
    if mm is not None:
        dist.append(("threshold:month_temp", "exactly 90%" if mm == 0 else "one cell under" if -10 <= mm < 0 else
                     "one cell over" if 0 < mm <= 10 else "under" if mm < 0 else "over"))
    if obs["kind"] == "ok":
        dist += [("dq", x.split(".")[-1]) for x in obs["dq"]] or [("dq", "(none)")]
        dist += [("warning", x.split(".")[-1]) for x in obs["warnings"]]
    fails = judge(sc, cells, obs, exp)
    cap = obs.get("captured")
    why = None
    if cap and "error" not in cap:
        why = frame_vs_truth(sc, cells, cap)
    elif cap:
        why = "capture failed: " + cap["error"]
    drop_extreme = False
    if sc["period"] == "baseline" or sc["family"] == "hourly":
        _, margin = L.extreme_truth(cells)
        drop_extreme = margin is not None and margin <= 1e-6
    term = coq_case(sc, obs, drop_extreme)
    br_term = None
    if sc["family"] == "billing" and sc.get("meter_source") and obs["kind"] == "ok" and cap and "error" not in cap:
        br_term = coq_billing_rows(sc, cap)
    sample = None
    if obs["kind"] == "ok" and cap and "error" not in cap:
        sample = {"scenario": {k: v for k, v in sc.items() if k not in ("usage_missing", "temp_missing", "periods")},
                  "n_missing_runs": [len(sc.get("usage_missing", [])), len(sc.get("temp_missing", []))],
                  "counts": cap["counts"], "disqualification": obs["dq"], "warnings": obs["warnings"],
                  "oracle": sorted(exp["dq"])}
    slim = {k: v for k, v in obs.items() if k != "captured"}
    return {"obs": slim, "fails": fails, "preprocess": why, "term": term, "br_term": br_term, "sample": sample, "dist": dist,
            "counts": (cap or {}).get("counts"),
            "nontrivial": obs["kind"] == "ok" and any(c["usage"] is not None or c["temp_present"] for c in cells)}


def main():
    run = Run("C10")
    run.cov["rule"] = (
        "scenarios = (daily | billing | hourly) x (baseline | reporting) x electric/gas x 8 time zones x span 250-420 days "
        "(weighted to 328/329/330/364/365/366 and to multiples of ten) x entry point (frame, from_series) x temperature "
        "source (daily, hourly) x a target: usage / temperature / both placed so that the whole valid days land on, one "
        "below or one above 90 % of the span (hourly: valid hours = 24 n + {0, 1, 23}), one calendar month at / one cell "
        "past its 90 % (usage, temperature, irradiance), negative values, extreme values, zeros, no data, missing ends, "
        "random gaps, billing cycles with short / long / unread periods, daily / hourly rows handed to the billing classes "
        "with 0-3 whole calendar months without a value. distinct = hash of the scenario; non-trivial = "
        "the data class returned an object on an input with data")
    run.assumptions += [
        "whole days: a day count is the whole number of elapsed days in the summed period lengths (each timestamp's period up "
        "to the next timestamp, the last timestamp has none), the span is the whole elapsed days between the first and the "
        "last complete timestamp + 1 - the unit the statement prescribes for the valid days",
        "a calendar month is a month of the year (rows of the same month number of two years form one group)",
        "usage is optional for reporting data: only the temperature (and irradiance) criteria apply to it",
        "an index is in UTC when its tzinfo has offset 0 and the zone name UTC (datetime.timezone.utc, pytz.UTC, "
        "ZoneInfo('UTC'), dateutil tzutc(), the alias Etc/UTC): the utc_index warning is required for all of them",
        "a day's temperature is valid when more than 90 % of its hours are present and present when more than half are",
        "readings without a value at the outer edges of a series handed to from_series are not data (the entry point "
        "'trims the data to exclude NaNs on the outer edges'): the judged data starts / ends at the first / last reading "
        "that has a value, and an edge day is judged on the hours that were supplied; the frame constructors keep such "
        "rows, there they count as missing",
        "with no complete row at all the span is undefined: no_data is required, the three 90 % criteria are not compared",
        "billing: a stamp without a reading does not start a period; temperature covers [first stamp, closing stamp) "
        "(frame) or up to the closing stamp (from_series)",
        "correspondence is sampled: agreement is established on the scenarios run",
    ]
    run.cov["trusted_base"] += [
        "harness/c10.py, harness/c10lib.py (scenario generator, input builders, capture of the frame handed to the criteria "
        "class by wrapping the three criteria classes' __init__, canonicalisation, literal oracle)",
        "harness/translate_sufficiency.py (ast extraction of check sequences, thresholds, constructor flags, min_count of "
        "the billing classes' monthly sum)",
        "pandas semantics re-specified in Model/Sufficiency.v (dropna, groupby(month).mean of notna, quantile/median, sum "
        "skipping NaN) - validated by the correspondence only",
    ]
    # step 0: translator
    try:
        gen = translate_sufficiency.generate(run)
        L.UTC_RULE = gen["utc_rule"]
        run.cov["translated"] = {k: gen[k] for k in ("baseline", "reporting", "flags", "offcycle_target",
                                                     "min_length_rounding", "min_length_factor", "max_baseline_length",
                                                     "min_fraction_daily_coverage", "span_ignores_usage",
                                                     "day_sum_rounded", "utc_rule", "billing_month_min_count")}
    except Exception as e:  # fail closed: a source the translator no longer recognises is a broken tie
        run.proof_ok = False
        run.proof_log += "translator failed: %s: %s" % (type(e).__name__, e)
        run.log("TRANSLATOR FAILED: %s: %s" % (type(e).__name__, e))
        gen = None
    # step 1: theorems
    if gen is not None:
        run.check_proofs("Properties/C10.v", ["Proofs/SufficiencyProofs.v", "Proofs/BillingRowsProofs.v"],
                         generated=["Generated/SufficiencyGen.v"])
        run.ensure_models(["Model/SufficiencyRun.v", "Model/CasesLib.v"])
    run.log("theorems checked: %s" % run.proof_ok)
    # step 2: scenarios
    scenarios = []
    replayed = False
    if run.replay:
        rep = json.load(open(run.replay))
        case = rep.get("case", {})
        if "scenario" in case:                       # a concrete violation
            scenarios.append(case["scenario"])
        elif "first" in case:                        # model / implementation disagreement without a failing input
            scenarios += [c["case"]["scenario"] for c in case["first"] if "scenario" in c.get("case", {})]
        elif "family" in case:
            scenarios.append(case)
        replayed = bool(scenarios)                   # (a broken proof is replayed by the normal run below)
    if not replayed:
        corpus = os.path.join(vlib.VERIF, "corpus", "C10.json")
        if os.path.exists(corpus):
            scenarios += json.load(open(corpus))
        n = int(os.environ.get("VERIF_C10_N", run.n(300, 6000)))     # VERIF_C10_N: development aid only
        k = 0
        forced = [{"family": f, "period": p, "target": t, "span": s}
                  for f in ("daily", "hourly") for p in ("baseline",) for t, s in
                  (("usage", 340), ("temp", 350), ("both", 330), ("month_temp", 365), ("ends", 365), ("usage", 329))]
        for fo in forced:
            scenarios.append(gen_scenario(run.rng, k, fo))
            k += 1
        while len(scenarios) < n:
            scenarios.append(gen_scenario(run.rng, k))
            k += 1
    run.log("%d scenarios generated" % len(scenarios))
    ctx = mp.get_context("fork")
    shown_models = 0
    batch = 720
    with ctx.Pool(min(16, max(1, len(scenarios)))) as pool:
        for b0 in range(0, len(scenarios), batch):
            part = scenarios[b0:b0 + batch]
            results = pool.map(evaluate, part, chunksize=2)
            terms, kept = [], []
            br_terms, br_kept = [], []
            for sc, res in zip(part, results):
                if res.get("br_term"):
                    br_terms.append(res["br_term"])
                    br_kept.append(sc)
                obs = res["obs"]
                run.count(vlib.sha(sc), res["nontrivial"])
                for k, v in res["dist"]:
                    run.dist(k, v)
                case = {"scenario": sc}
                for sig, msg, expected in res["fails"]:
                    run.violation(sig, "C10 %s %s: %s" % (sc["family"], sc["period"], msg), case=case, observation=obs,
                                  expected=expected, generator="c10.gen_scenario")
                if res["preprocess"] is not None:
                    run.corr_failures.append({"stream": "preprocess", "case": case, "impl": res["preprocess"],
                                              "model": "the frame handed to the criteria class does not say what the scenario says"})
                if res["term"] is None:
                    if obs["kind"] == "err" and obs["cls"] != "AttributeError":
                        run.corr_failures.append({"stream": "dataclass", "case": case, "impl": obs,
                                                  "model": "the model accepts every well-formed input"})
                    elif obs["kind"] == "ok":
                        run.corr_failures.append({"stream": "dataclass", "case": case,
                                                  "impl": "criteria class was not constructed", "model": "no frame captured"})
                    continue
                terms.append(res["term"])
                kept.append((sc, obs, res["counts"]))
                if res["sample"] is not None:
                    run.sample(res["sample"])
            run.log("%d scenarios executed and judged, %d case terms" % (b0 + len(part), len(terms)))
            if gen is not None and br_terms:
                bad = run.coq_cases("billing_rows", IMPORTS + "\nFrom V Require Import Model.BillingRows.", "", br_terms,
                                    "check_billing_rows", shard=run.n(12, 60), case_type="brcase")
                if bad is None:
                    run.proof_ok = False
                else:
                    for i in bad:
                        run.corr_failures.append({"stream": "billing_rows", "case": {"scenario": br_kept[i]},
                                                  "model": "Model/BillingRows.v spread: monthly total (min_count as in "
                                                           "the source) spread over the days differs from the frame"})
            if br_terms:
                run.log("%d billing-rows cases compared" % len(br_terms))
            if gen is not None and terms:
                bad = run.coq_cases("dataclass", IMPORTS, "", terms, "check_case", shard=run.n(26, 60), case_type="case")
                if bad is None:
                    run.proof_ok = False
                else:
                    for i in bad:
                        sc, obs, counts = kept[i]
                        if shown_models < 6:
                            shown_models += 1
                            shown = run.coq_eval(IMPORTS, "Definition c : case := %s." % terms[i], "show_case c")
                            run.corr_failures.append({"stream": "dataclass", "case": {"scenario": sc}, "impl": obs,
                                                      "impl_counts": counts, "model": shown[-1500:]})
                        else:
                            run.corr_failures.append({"stream": "dataclass", "case": {"scenario": sc}})
    run.finish()


if __name__ == "__main__":
    vlib.run_main(main, "C10")
