"""C16 — reported fit statistics are the true statistics of the model predictions.
Model: coq/Model/Metrics.v (+ MetricsRun.v); theorems: coq/Properties/C16.v; tie: correspondence (this file).

Streams
  safe_divide   _safe_divide called directly (Python floats and numpy scalars)
  baseline      BaselineMetrics(df, num_model_params).model_dump() on random / adversarial dyadic series
  gate          HourlyModel._model_fit_is_acceptable on such metrics with arbitrary thresholds
  hourly_stub   HourlyModel.fit with the regression stubbed out (real _fit / _adaptive_fit tail: parameter count,
                non-interpolated rows, BaselineMetrics, poor-fit disqualification)
  daily_stub    DailyModel / BillingModel.fit with the optimiser stubbed out (real _get_error_metrics, error
                dictionary, CVRMSE gate)
  reporting     ReportingMetrics (n, sums, savings, total_savings_uncertainty)
  hourly_fit    real HourlyModel fits: baseline_metrics vs predict(baseline) on the measured rows
  daily_fit     real DailyModel fits: model.error vs the residuals of the chosen components
The oracle (textbook formulas in exact rational arithmetic, `Textbook`) is independent of the Gallina model."""
import contextlib
import io
import json
import logging
import math
import os
import types
import warnings
from decimal import Decimal, getcontext
from fractions import Fraction as Fr

import numpy as np
import pandas as pd

import vlib
from vlib import Run, zlit, qlit, coq_list, coq_bool

warnings.simplefilter("ignore")
logging.disable(logging.CRITICAL)
getcontext().prec = 60

IMPORTS = "From Coq Require Import QArith PrimFloat.\nFrom V Require Import Model.Metrics Model.MetricsRun."
MN = 1e-3                       # BaselineMetrics._min_denominator
TOL = Fr(1, 10**9)
COLS = ["sum", "mean", "variance", "std", "cvstd", "sum_squared", "median", "MAD_scaled", "iqr"]
TAIL = ["mae", "nmae", "pnmae", "mbe", "nmbe", "pnmbe", "sse", "mse", "rmse", "rmse_adj", "rmse_autocorr_adj",
        "cvrmse", "cvrmse_adj", "cvrmse_autocorr_adj", "pnrmse", "pnrmse_adj", "pnrmse_autocorr_adj",
        "r_squared", "r_squared_adj", "mape"]
FIELDS = (["n", "n_prime", "ddof", "ddof_autocorr"] + ["%s.%s" % (c, f) for c in ("observed", "predicted", "residuals")
                                                       for f in COLS] + TAIL)
RATIO_FIELDS = {"nmae", "pnmae", "nmbe", "pnmbe", "cvrmse", "cvrmse_adj", "cvrmse_autocorr_adj", "pnrmse", "pnrmse_adj",
                "pnrmse_autocorr_adj", "r_squared_adj"}
NONFIN = {"nan": float("nan"), "inf": float("inf"), "-inf": float("-inf")}


POLICY = ["AsCoded"]


def probe_policy():
    """which of the two modelled division policies the code under test implements: the repository's
    (`denominator <= min and numerator > 10*min -> None`) or the proposed repair (`denominator <= min -> None`).
    Decided on the three witnesses of the _refuted theorems; anything else is left to the correspondence."""
    obs = [run_safe_divide(Fr(-5), Fr(-1), Fr(MN), False), run_safe_divide(Fr(-5), Fr(1, 2000), Fr(MN), False),
           run_safe_divide(Fr(1, 200), Fr(0), Fr(MN), False)]
    POLICY[0] = "Repaired" if all(o is None for o in obs) else "AsCoded"
    return POLICY[0], obs


def mad_k():
    from opendsm.common import utils
    return float(utils.MAD_k)


# ------------------------------------------------------------------ generators (dyadic rationals)

def _noise(rng, s):
    return rng.randint(-s, s) if s > 0 else 0


def gen_series(rng, k, quick=True):
    """(observed, predicted) rows as scaled integers over a power-of-two denominator, or 'nan' / 'inf' / '-inf'"""
    kinds = ["usage", "usage", "usage", "constant_obs", "zero_mean", "tiny_mean", "negative", "perfect", "ties",
             "alt_resid", "trend_resid", "const_resid", "flat_iqr", "small_resid_neg", "small_resid_zero"]
    kind = kinds[k % len(kinds)] if k < 3 * len(kinds) else rng.choice(kinds)
    lens = [2, 2, 3, 3, 4, 5, 6, 8, 12, 20, 30, 50, 80, 120]
    n = rng.choice(lens)
    r = rng.random()
    if r < 0.01:
        n = rng.choice([500, 1000, 2000])
    elif r < 0.035:
        n = 365
    elif r < 0.045:
        n = 1
    K = rng.choice([0, 1, 3, 6, 10])
    den = 2 ** K
    U = rng.choice([3, 20, 150, 1000, 20000]) * max(1, den // rng.choice([1, 2, 4]))
    U = min(U, 2 ** 18)
    S = max(1, U // rng.choice([2, 3, 10, 50]))
    E = rng.choice([0, 1, max(1, S // 20), max(1, S // 3), S])
    obs, pred = [], []
    if kind == "usage":
        obs = [U + _noise(rng, S) for _ in range(n)]
        pred = [o + _noise(rng, E) for o in obs]
    elif kind == "constant_obs":
        obs = [U] * n
        pred = [U + _noise(rng, E) for _ in range(n)] if rng.random() < 0.7 else [U + E] * n
    elif kind == "zero_mean":
        half = [rng.randint(1, S) for _ in range(n // 2)]
        obs = half + [-h for h in half] + ([0] if n % 2 else [])
        rng.shuffle(obs)
        pred = [o + _noise(rng, E) for o in obs]
    elif kind == "tiny_mean":
        K = rng.choice([12, 14, 16])
        den = 2 ** K
        top = max(1, den // rng.choice([1024, 2048, 5000]))          # mean around or below 1e-3
        obs = [rng.randint(0, 2 * top) for _ in range(n)]
        e = rng.choice([0, 1, 3, den // 200, den // 50, den // 4])
        pred = [o + _noise(rng, e) for o in obs]
    elif kind == "negative":
        obs = [-U + _noise(rng, S) for _ in range(n)]
        pred = [o + _noise(rng, E) for o in obs]
    elif kind == "perfect":
        obs = [rng.choice([1, -1, 1, 1]) * (U + _noise(rng, S)) for _ in range(n)]
        pred = list(obs)
    elif kind == "ties":
        vals = [U + _noise(rng, S) for _ in range(rng.choice([2, 3, 4]))]
        obs = [rng.choice(vals) for _ in range(n)]
        pv = [U + _noise(rng, S) for _ in range(rng.choice([1, 2, 3]))]
        pred = [rng.choice(pv) for _ in range(n)]
    elif kind == "alt_resid":
        a = max(1, E)
        obs = [U + _noise(rng, S) for _ in range(n)]
        pred = [o - (a if i % 2 else -a) for i, o in enumerate(obs)]
    elif kind == "trend_resid":
        a = rng.choice([1, 2, -1])
        obs = [U + _noise(rng, S) for _ in range(n)]
        pred = [o - a * i for i, o in enumerate(obs)]
    elif kind == "const_resid":
        c = rng.choice([0, 1, -3, E])
        obs = [U + _noise(rng, S) for _ in range(n)]
        pred = [o - c for o in obs]
    elif kind == "flat_iqr":
        obs = [U if rng.random() < 0.85 else U + _noise(rng, S) for _ in range(n)]
        pred = [o + _noise(rng, E) for o in obs]
    elif kind in ("small_resid_neg", "small_resid_zero"):
        # a fit error below 10*min_denominator over a mean that is not safely positive
        K = rng.choice([10, 12])
        den = 2 ** K
        if kind == "small_resid_neg":
            obs = [-rng.randint(den // 2, 4 * den) for _ in range(n)]
        else:
            half = [rng.randint(1, 2 * den) for _ in range(n // 2)]
            obs = half + [-h for h in half] + ([0] if n % 2 else [])
            rng.shuffle(obs)
        e = rng.choice([0, 1, 2, den // 256, den // 128])
        pred = [o + _noise(rng, e) for o in obs]
    rows = [[o, p] for o, p in zip(obs, pred)]
    pnan = rng.choice([0, 0, 0, 0, 0.05, 0.3]) if rng.random() > 0.01 else 1.0
    if pnan:
        for row in rows:
            for j in (0, 1):
                if rng.random() < pnan:
                    row[j] = rng.choice(["nan", "nan", "inf", "-inf"])
    nfin = sum(1 for r_ in rows if not isinstance(r_[0], str) and not isinstance(r_[1], str))
    p = max(1, rng.choice([1, 1, 2, 3, 5, nfin - 2, nfin - 1, nfin, nfin + 2]))
    return {"kind": kind, "den": den, "rows": rows, "p": p}


def corpus_cases():
    """the witnesses of the _refuted theorems of Properties/C16.v and other minimised past failures"""
    path = os.path.join(vlib.VERIF, "corpus", "C16.json")
    return json.load(open(path)) if os.path.exists(path) else {}


# ------------------------------------------------------------------ exact helpers

def fin(c):
    return not isinstance(c, str)


def cfloat(c, den):
    return NONFIN[c] if isinstance(c, str) else c / den


def finite_pairs(case):
    den = case["den"]
    return [(Fr(o, den), Fr(p, den)) for o, p in case["rows"] if fin(o) and fin(p)]


def fsqrt(q):
    """sqrt of a non-negative Fraction, 60 digits"""
    return (Decimal(q.numerator) / Decimal(q.denominator)).sqrt()


def canon(x):
    """implementation value -> None | 'nan' | 'inf' | '-inf' | float"""
    if x is None:
        return None
    x = float(x)
    if math.isnan(x):
        return "nan"
    if math.isinf(x):
        return "inf" if x > 0 else "-inf"
    return x


def close(a, b, scale=0):
    a, b = Fr(a), Fr(b)
    return abs(a - b) <= TOL * max(Fr(scale), abs(a), abs(b))


# ------------------------------------------------------------------ the oracle: textbook formulas, exact

class Textbook:
    """Textbook statistics of finite (observed, predicted) pairs in exact rational arithmetic.
    Independent of coq/Model/Metrics.v; roots are kept squared; `None` = undefined."""

    def __init__(self, pairs, p, mn=Fr(MN)):
        self.pairs, self.p, self.mn = pairs, p, mn
        self.n = len(pairs)
        self.obs = [a for a, _ in pairs]
        self.pred = [b for _, b in pairs]
        self.res = [a - b for a, b in pairs]
        n = self.n
        self.sse = sum(r * r for r in self.res)
        self.mse = self.sse / n
        self.mae = sum(abs(r) for r in self.res) / n
        self.mbe = sum(self.res) / n
        self.ddof = max(1, n - p)
        self.mean_obs = sum(self.obs) / n
        self.iqr_obs = self.quantile(self.obs, Fr(3, 4)) - self.quantile(self.obs, Fr(1, 4))
        self.r2 = self.pearson(self.pred, self.obs)              # (sign, r^2) or None
        self.rho = self.pearson(self.res[1:], self.res[:-1])     # lag-1 autocorrelation of the residuals

    @staticmethod
    def quantile(xs, q):
        s = sorted(xs)
        h = (len(s) - 1) * q
        lo = h.numerator // h.denominator
        hi = min(lo + 1, len(s) - 1)
        return s[lo] + (h - lo) * (s[hi] - s[lo])

    @staticmethod
    def pearson(xs, ys):
        n = len(xs)
        if n < 2:
            return None
        mx, my = sum(xs) / n, sum(ys) / n
        vx = sum((x - mx) ** 2 for x in xs)
        vy = sum((y - my) ** 2 for y in ys)
        if vx == 0 or vy == 0:
            return None
        c = sum((x - mx) * (y - my) for x, y in zip(xs, ys))
        return ((c > 0) - (c < 0), c * c / (vx * vy))

    def column(self, xs):
        n = len(xs)
        s = sum(xs)
        m = s / n
        var = sum((x - m) ** 2 for x in xs) / n
        med = self.quantile(xs, Fr(1, 2))
        return {"sum": s, "mean": m, "variance": var, "sum_squared": sum(x * x for x in xs), "median": med,
                "mad": self.quantile([abs(x - med) for x in xs], Fr(1, 2)),
                "iqr": self.quantile(xs, Fr(3, 4)) - self.quantile(xs, Fr(1, 4)), "maxabs": max(abs(x) for x in xs)}

    def rho_float(self):
        if self.rho is None:
            return None
        return Decimal(self.rho[0]) * fsqrt(self.rho[1])

    def nprime(self):
        """n(1-rho)/(1+rho) as a Decimal; None where the textbook value does not exist (rho undefined or -1);
        'ill' when 1+rho is so small that binary64 cannot resolve it"""
        rho = self.rho_float()
        if rho is None or 1 + rho == 0:
            return None
        if 1 + rho < Decimal("1e-6"):
            return "ill"
        return Decimal(self.n) * (1 - rho) / (1 + rho)


def den_class(den, mn):
    return "negative" if den < 0 else "zero" if den == 0 else "tiny-positive" if den <= mn else "safe"


def check_ratio(got, num_sq_or_num, den, mn, is_root, field, fails, num_gt=None):
    """the statement for a reported ratio: undefined (None) when the denominator is not safely positive,
    the quotient otherwise.  `num_sq_or_num`: numerator, or its square when is_root"""
    dc = den_class(den, mn)
    if dc != "safe":
        if got is not None:
            big = num_gt if num_gt is not None else (num_sq_or_num > (10 * mn) ** 2 if is_root else num_sq_or_num > 10 * mn)
            fails.append(({"defect": "ratio reported for a denominator that is not safely positive", "denominator": dc,
                           "numerator": ">10*min_denominator" if big else "<=10*min_denominator", "field": field},
                          "%s = %r although its denominator %s is <= %s" % (field, got, float(den), float(mn))))
        return
    if isinstance(got, str) or got is None:
        fails.append(({"defect": "statistic differs from the textbook formula", "field": field},
                      "%s = %r for a safely positive denominator" % (field, got)))
        return
    g = Fr(got)
    ok = (g >= 0 and close(g * g, num_sq_or_num / (den * den))) if is_root else close(g, num_sq_or_num / den)
    if not ok:
        fails.append(({"defect": "statistic differs from the textbook formula", "field": field},
                      "%s = %r, textbook %s" % (field, got, float(fsqrt(num_sq_or_num / (den * den))) if is_root
                                                else float(num_sq_or_num / den))))


def oracle_baseline(pairs, p, got, k_mad):
    """got: dict field -> canonical implementation value. Returns [(signature, message)]."""
    fails = []
    T = Textbook(pairs, p)
    mn = T.mn

    def bad(field, msg):
        fails.append(({"defect": "statistic differs from the textbook formula", "field": field}, "%s: %s" % (field, msg)))

    def num(field, want, scale=0):
        g = got[field]
        if g is None or isinstance(g, str) or not close(Fr(g), want, scale):
            bad(field, "reported %r, textbook %.12g" % (g, float(want)))

    def root(field, want_sq, scale=0):
        g = got[field]
        if g is None or isinstance(g, str) or Fr(g) < 0 or not close(Fr(g) ** 2, want_sq, scale):
            bad(field, "reported %r, textbook %.12g" % (g, float(fsqrt(want_sq))))

    n = T.n
    num("n", n)
    num("ddof", T.ddof)
    for cname, xs in (("observed", T.obs), ("predicted", T.pred), ("residuals", T.res)):
        c = T.column(xs)
        for f in ("sum", "mean", "variance", "sum_squared"):
            num("%s.%s" % (cname, f), c[f])
        root("%s.std" % cname, c["variance"])
        num("%s.median" % cname, c["median"], c["maxabs"])
        num("%s.iqr" % cname, c["iqr"], c["maxabs"])
        num("%s.MAD_scaled" % cname, Fr(k_mad) * c["mad"], c["maxabs"])
        # cvstd is a plain division in the code (not one of the statistics of the statement); checked when defined
        if c["mean"] != 0:
            g = got["%s.cvstd" % cname]
            if g is None or isinstance(g, str) or (Fr(g) > 0) != (c["mean"] > 0) and c["variance"] != 0 or \
                    not close(Fr(g) ** 2, c["variance"] / c["mean"] ** 2, 0):
                bad("%s.cvstd" % cname, "reported %r" % (g,))
    num("mae", T.mae)
    num("mbe", T.mbe)
    num("sse", T.sse)
    num("mse", T.mse)
    root("rmse", T.mse)
    root("rmse_adj", T.sse / T.ddof)
    check_ratio(got["nmae"], T.mae, T.mean_obs, mn, False, "nmae", fails)
    check_ratio(got["pnmae"], T.mae, T.iqr_obs, mn, False, "pnmae", fails)
    check_ratio(got["nmbe"], T.mbe, T.mean_obs, mn, False, "nmbe", fails)
    check_ratio(got["pnmbe"], T.mbe, T.iqr_obs, mn, False, "pnmbe", fails)
    check_ratio(got["cvrmse"], T.mse, T.mean_obs, mn, True, "cvrmse", fails)
    check_ratio(got["pnrmse"], T.mse, T.iqr_obs, mn, True, "pnrmse", fails)
    check_ratio(got["cvrmse_adj"], T.sse / T.ddof, T.mean_obs, mn, True, "cvrmse_adj", fails)
    check_ratio(got["pnrmse_adj"], T.sse / T.ddof, T.iqr_obs, mn, True, "pnrmse_adj", fails)
    # R^2 = squared Pearson correlation; undefined (NaN) for a constant column
    if T.r2 is None:
        if got["r_squared"] != "nan":
            bad("r_squared", "reported %r for a constant column" % (got["r_squared"],))
    else:
        num("r_squared", T.r2[1], 1)
        numer = (1 - T.r2[1]) * (n - 1)
        g = got["r_squared_adj"]
        dc = den_class(Fr(T.ddof - 1), mn)
        if dc != "safe":
            check_ratio(g, numer, Fr(T.ddof - 1), mn, False, "r_squared_adj", fails)
        else:
            want = 1 - numer / (T.ddof - 1)
            if g is None or isinstance(g, str) or not close(Fr(g), want, max(1, Fr(n - 1, T.ddof - 1))):
                bad("r_squared_adj", "reported %r, textbook %.12g" % (g, float(want)))
    # mean absolute percentage error over the rows whose observed value is at least min_denominator in size
    nz = [(a, b) for a, b in pairs if abs(a) >= mn]
    if not nz:
        if got["mape"] is not None:
            bad("mape", "reported %r without a usable row" % (got["mape"],))
    else:
        num("mape", sum(abs((a - b) / a) for a, b in nz) / len(nz))
    # autocorrelation-corrected n and what follows from it
    npr = T.nprime()
    g = got["n_prime"]
    if npr is None:
        # textbook value undefined (rho undefined or exactly -1): the documented fallback 1, or an overflowed huge value
        if g is None or isinstance(g, str) or not (g == 1 or (T.rho is not None and g > 1e6 * n)):
            bad("n_prime", "reported %r where the autocorrelation is undefined or -1" % (g,))
    elif npr == "ill":
        pass
    else:
        if g is None or isinstance(g, str):
            bad("n_prime", "reported %r" % (g,))
        else:
            rho = T.rho_float()
            gi = Decimal(g)
            rho_impl = (Decimal(n) - gi) / (Decimal(n) + gi) if Decimal(n) + gi != 0 else Decimal(9)
            if abs(rho_impl - rho) > Decimal("1e-9"):
                bad("n_prime", "reported %r, textbook %.12g (rho %.12g)" % (g, float(npr), float(rho)))
            dac = max(Decimal(1), npr - p)
            dacq = Fr(dac)
            num("ddof_autocorr", dacq, 0 if abs(rho_impl - rho) <= Decimal("1e-9") * (1 + rho) else 10**9)
            msq = T.sse / dacq
            for field, den_ in (("cvrmse_autocorr_adj", T.mean_obs), ("pnrmse_autocorr_adj", T.iqr_obs)):
                big = msq > (10 * mn) ** 2
                if abs(float(msq) - float((10 * mn) ** 2)) < 1e-9 * float(msq):
                    continue
                check_ratio(got[field], msq, den_, mn, True, field, fails, num_gt=big)
            gg = got["rmse_autocorr_adj"]
            if gg is None or isinstance(gg, str) or Fr(gg) < 0 or not close(Fr(gg) ** 2, msq, 0) and \
                    abs(float(gg) ** 2 - float(msq)) > 4e-9 * float(msq) / float(1 + rho):
                bad("rmse_autocorr_adj", "reported %r, textbook %.12g" % (gg, float(fsqrt(msq))))
    return fails, T


def true_gate(T, tcv, tpn):
    """acceptable per the statement: at least one of CVRMSE_adj / PNRMSE_adj is defined and below its threshold"""
    msa = T.sse / T.ddof

    def below(den, thr):
        if den <= T.mn:
            return False                       # undefined: counts as missing the threshold
        thr = Fr(thr)
        return thr > 0 and msa / (den * den) < thr * thr
    return below(T.mean_obs, tcv) or below(T.iqr_obs, tpn)


def gate_ambiguous(T, tcv, tpn):
    """a ratio that differs from its (binary64) threshold by less than binary64 can resolve, without being equal to it
    as exact rationals - e.g. rmse_adj/mean = 2/20 against the double 0.1 = 0.1000000000000000055...: the code's
    quotient rounds onto the threshold and `<` is false, exact arithmetic says "below".  The property does not speak
    about such roundings; the verdict is then not compared (exact ties, e.g. 1/4 against 0.25, stay decisive:
    strict `<`, as coded and as 'misses the threshold' reads)."""
    msa = T.sse / T.ddof
    for den, thr in ((T.mean_obs, tcv), (T.iqr_obs, tpn)):
        if den > T.mn and thr > 0:
            q2, t2 = msa / (den * den), Fr(thr) ** 2
            if q2 != t2 and abs(q2 - t2) <= Fr(4, 10**12) * t2:
                return True
    return False


# ------------------------------------------------------------------ implementation adapters

def frame_of(case, index=None):
    den = case["den"]
    return pd.DataFrame({"observed": [cfloat(o, den) for o, _ in case["rows"]],
                         "predicted": [cfloat(p, den) for _, p in case["rows"]]}, dtype=float, index=index)


def flatten_dump(d):
    out = {"n": d["n"], "n_prime": d["n_prime"], "ddof": d["ddof"], "ddof_autocorr": d["ddof_autocorr"]}
    for c in ("observed", "predicted", "residuals"):
        for f in COLS:
            out["%s.%s" % (c, f)] = d[c][f]
    for f in TAIL:
        out[f] = d[f]
    return {k: canon(v) for k, v in out.items()}


def run_baseline(case):
    from opendsm.common.metrics import BaselineMetrics
    try:
        bm = BaselineMetrics(df=frame_of(case), num_model_params=case["p"])
        with np.errstate(all="ignore"):
            return {"kind": "ok", "fields": flatten_dump(bm.model_dump())}, bm
    except Exception as e:  # noqa
        return {"kind": "err", "cls": type(e).__name__, "msg": str(e)[:200]}, None


def run_safe_divide(num, den, mn, as_numpy):
    from opendsm.common.metrics import _safe_divide
    conv = np.float64 if as_numpy else float
    try:
        with np.errstate(all="ignore"):
            r = _safe_divide(conv(num), conv(den), conv(mn))
    except ZeroDivisionError:
        return "raise"
    except Exception as e:  # noqa
        return "raise:" + type(e).__name__
    return canon(r)


# ------------------------------------------------------------------ Coq terms

def obsv(x):
    """implementation value -> xobs literal (binary64 written exactly as a hex float)"""
    if x is None:
        return "XNone"
    if x == "raise":
        return "XRaise"
    if isinstance(x, str):
        return "(XF %s)" % {"nan": "nan", "inf": "infinity", "-inf": "neg_infinity"}[x]
    return "(XF %s)" % vlib.fhex(x)


def flit(x):
    return vlib.fhex(float(x))


def coq_cell(c):
    return "None" if isinstance(c, str) or c is None else "(Some %s)" % zlit(c)


def coq_rows(rows):
    return coq_list(["(%s, %s)" % (coq_cell(o), coq_cell(p)) for o, p in rows])


def coq_hrows(rows):
    return coq_list(["(%s, %s, %s)" % (coq_cell(o), coq_cell(p), coq_bool(f)) for o, p, f in rows])


def bcase_term(case, fields, k_mad):
    return ("{| bc_pl := %s; bc_den := %d%%positive; bc_rows := %s; bc_p := %s; bc_mn := %s; bc_k := %s; bc_exp := %s |}" % (
        POLICY[0], case["den"], coq_rows(case["rows"]), zlit(case["p"]), flit(MN), flit(k_mad),
        coq_list([obsv(fields[f]) for f in FIELDS])))


def sd_term(num, den, mn, o):
    return "(%s, %s, %s, %s, %s)" % (POLICY[0], flit(num), flit(den), flit(mn), obsv(o))


def report_mismatch(run, stream, what_fn, term, case, obs, imports=None):
    out = run.coq_eval(imports or IMPORTS, "", "%s %s" % (what_fn, term)) if what_fn else ""
    idx = [int(x) for x in __import__("re").findall(r"(\d+)%N", out)] if out else []
    names = [FIELDS[i] for i in idx if i < len(FIELDS)] if stream in ("baseline", "baseline_long", "hourly_stub", "hourly_fit") else idx
    run.corr_failures.append({"stream": stream, "case": case, "impl": obs, "model": {"fields_disagreeing": names, "raw": out[-400:]}})


# ------------------------------------------------------------------ streams

def stream_safe_divide(run):
    rng = run.rng
    items = []
    for w in corpus_cases().get("safe_divide", []):
        items.append((Fr(w["num"]), Fr(w["den"]), Fr(w["mn"]), w.get("numpy", False)))
    grid = [Fr(0), Fr(1, 2048), Fr(1, 1024), Fr(3, 2048), Fr(5, 1024), Fr(10, 1024), Fr(11, 1024), Fr(1, 2), Fr(5), Fr(10000)]
    grid = sorted(set(grid + [-g for g in grid]))
    for mn in (Fr(1, 1024), Fr(MN)):
        for num in grid:
            for den in grid:
                for npy in (False, True):
                    items.append((num, den, mn, npy))
    for _ in range(run.n(400, 12000)):
        mn = rng.choice([Fr(1, 1024), Fr(MN), Fr(MN), Fr(1, 8), Fr(0)])
        sc = rng.choice([Fr(1, 4096), Fr(1, 256), Fr(1), Fr(64)])
        items.append((rng.randint(-4096, 4096) * sc, rng.choice([0, 1, 1, 1]) * rng.randint(-4096, 4096) * sc, mn,
                      rng.random() < 0.5))
    terms, meta = [], []
    for num, den, mn, npy in items:
        o = run_safe_divide(num, den, mn, npy)
        run.count(("sd", str(num), str(den), str(mn), npy), nontrivial=True)
        run.dist("safe_divide outcome", "None" if o is None else o if isinstance(o, str) else "number")
        # oracle: the statement
        dc = den_class(den, mn)
        if dc != "safe":
            if o is not None:
                sig = {"defect": "ratio reported for a denominator that is not safely positive", "denominator": dc,
                       "numerator": ">10*min_denominator" if num > 10 * mn else "<=10*min_denominator",
                       "field": "_safe_divide"}
                run.violation(sig, "C16 _safe_divide(%s, %s, %s) -> %r: not reported as undefined" % (
                    float(num), float(den), float(mn), o),
                    case={"stream": "safe_divide", "num": str(num), "den": str(den), "mn": str(mn), "numpy": npy},
                    observation=o, expected=None, generator="c16.stream_safe_divide")
        elif o is None or isinstance(o, str) or not close(Fr(o), num / den):
            run.violation({"defect": "statistic differs from the textbook formula", "field": "_safe_divide"},
                          "C16 _safe_divide(%s, %s, %s) -> %r, expected the quotient" % (float(num), float(den), float(mn), o),
                          case={"stream": "safe_divide", "num": str(num), "den": str(den), "mn": str(mn), "numpy": npy},
                          observation=o, expected=float(num / den), generator="c16.stream_safe_divide")
        if isinstance(o, str) and o.startswith("raise:"):
            run.corr_failures.append({"stream": "safe_divide", "case": [str(num), str(den), str(mn)], "impl": o})
            continue
        terms.append(sd_term(num, den, mn, o))
        meta.append((num, den, mn, npy, o))
    bad = run.coq_cases("safe_divide", IMPORTS, "", terms, "check_safe_divide", shard=400)
    if bad is None:
        run.proof_ok = False
        return
    for i in bad[:10]:
        num, den, mn, npy, o = meta[i]
        run.corr_failures.append({"stream": "safe_divide", "case": {"num": str(num), "den": str(den), "mn": str(mn), "numpy": npy},
                                  "impl": o, "model": run.coq_eval(IMPORTS, "", "sdiv %s %s %s %s" % (POLICY[0], qlit(num), qlit(den), qlit(mn)))[-300:]})


def gate_sig(acc, unsafe, call):
    return {"defect": "poor-fit verdict differs from the statement", "call": call,
            "cause": "ratio reported for a denominator that is not safely positive" if unsafe else "gate logic",
            "verdict": "acceptable" if acc else "disqualified"}


def unsafe_ratios(T, fields):
    return [nm for nm, den in (("cvrmse_adj", T.mean_obs), ("pnrmse_adj", T.iqr_obs)) if den <= T.mn and fields[nm] is not None]


def series_stats(T):
    return {"mean": den_class(T.mean_obs, T.mn), "iqr": den_class(T.iqr_obs, T.mn), "floored": T.ddof == 1 and T.n - T.p < 1,
            "rho": "undefined" if T.rho is None else "-1" if (T.rho[0] < 0 and T.rho[1] == 1) else
            "+1" if (T.rho[0] > 0 and T.rho[1] == 1) else "regular"}


# ------------------------------------------------------------------ worker pool (forked after the data objects exist)

_POOL = [None]


def pmap(fn, items, chunks=4):
    import multiprocessing as mp
    if len(items) < 8 or os.environ.get("C16_SERIAL"):
        return [fn(x) for x in items]
    if _POOL[0] is None:
        _POOL[0] = mp.get_context("fork").Pool(int(os.environ.get("C16_PROCS", "10")))
    return _POOL[0].map(fn, items, chunksize=max(1, len(items) // (10 * chunks)))


# ------------------------------------------------------------------ baseline + gate

def baseline_job(case):
    """implementation + oracle + Coq terms for one generated series (runs in a worker)"""
    import random
    from opendsm.eemeter import HourlyModel
    from opendsm.eemeter.models.hourly.settings import BaseHourlySettings
    k_mad = mad_k()
    rng = random.Random(case.get("seed", 0))
    obs, bm = run_baseline(case)
    pairs = finite_pairs(case)
    out = {"npairs": len(pairs), "obs": obs if obs["kind"] != "ok" else {"kind": "ok"}}
    if not pairs or obs["kind"] != "ok":
        return out
    fields = obs["fields"]
    fails, T = oracle_baseline(pairs, case["p"], fields, k_mad)
    out.update(fields=fields, fails=fails, stats=series_stats(T), term=bcase_term(case, fields, k_mad), gates=[])
    rows_term = coq_hrows([(o, p, False) for o, p in case["rows"]])
    thr = case.get("thresholds")
    for j in range(len(thr) if thr else 1 if len(case["rows"]) > 150 else 2):
        if thr:
            tcv, tpn = thr[j % len(thr)]
        else:
            cvt = abs(fields["cvrmse_adj"]) if isinstance(fields["cvrmse_adj"], float) else 1.0
            pnt = abs(fields["pnrmse_adj"]) if isinstance(fields["pnrmse_adj"], float) else 1.0
            tcv = rng.choice([1.4, 1.4, 0.5, cvt * 0.99, cvt * 1.01, -cvt * 0.5, 1e-6, 0.0, 1e9])
            tpn = rng.choice([2.2, 2.2, 0.5, pnt * 0.99, pnt * 1.01, -pnt * 0.5, 1e-6, 0.0, 1e9])
        hm = HourlyModel(settings=BaseHourlySettings(cvrmse_threshold=tcv, pnrmse_threshold=tpn))
        hm.baseline_metrics = bm
        acc = bool(hm._model_fit_is_acceptable())
        want = true_gate(T, tcv, tpn)
        gterm = ("{| gc_pl := %s; gc_den := %d%%positive; gc_rows := %s; gc_p := %s; gc_mn := %s; gc_tcv := %s; gc_tpn := %s; "
                 "gc_acceptable := %s |}" % (POLICY[0], case["den"], rows_term, zlit(case["p"]), flit(MN), flit(tcv), flit(tpn), coq_bool(acc)))
        out["gates"].append({"tcv": tcv, "tpn": tpn, "acc": acc, "want": want, "unsafe": unsafe_ratios(T, fields), "term": gterm,
                             "ambiguous": gate_ambiguous(T, tcv, tpn)})
    return out


def stream_baseline(run, cases):
    """BaselineMetrics on generated series + the hourly gate on the same metrics"""
    results = pmap(baseline_job, cases)
    small, long_, gates = [], [], []
    for case, res in zip(cases, results):
        obs = res["obs"]
        if not res["npairs"]:
            # nothing finite: outside the statement (length >= 2); the code cannot produce statistics
            run.count(vlib.sha(case), nontrivial=False)
            run.dist("baseline outcome", "no finite pair: " + (obs.get("cls") or "ok"))
            continue
        if obs["kind"] != "ok":
            run.count(vlib.sha(case), nontrivial=True)
            run.violation({"defect": "BaselineMetrics raised", "raised": obs["cls"]},
                          "C16 BaselineMetrics raised %s on a series with %d finite pairs" % (obs["cls"], res["npairs"]),
                          case={"stream": "baseline", "case": case}, observation=obs, generator="c16.gen_series")
            continue
        fields, st = res["fields"], res["stats"]
        run.count(vlib.sha(case), nontrivial=res["npairs"] >= 2)
        run.dist("series kind", case["kind"])
        np_ = res["npairs"]
        run.dist("finite pairs", "1" if np_ == 1 else "2-9" if np_ < 10 else "10-99" if np_ < 100 else "100-2000")
        run.dist("mean(observed) class", st["mean"])
        run.dist("iqr(observed) class", st["iqr"])
        run.dist("ddof floored", st["floored"])
        run.dist("autocorrelation", st["rho"])
        for sig, msg in res["fails"]:
            run.violation(dict(sig, call="BaselineMetrics"), "C16 BaselineMetrics: " + msg,
                          case={"stream": "baseline", "case": case}, observation=fields, generator="c16.gen_series")
        if np_ >= 2:
            run.sample({"kind": case["kind"], "n_rows": len(case["rows"]), "finite_pairs": np_, "num_model_params": case["p"],
                        "rmse": fields["rmse"], "cvrmse": fields["cvrmse"], "r_squared": fields["r_squared"], "n_prime": fields["n_prime"]})
        (long_ if len(case["rows"]) > 150 else small).append((res["term"], case, fields))
        for g in res["gates"]:
            run.count(("gate", vlib.sha(case), g["tcv"], g["tpn"]))
            if g["ambiguous"]:
                run.dist("gate boundary", "ratio within binary64 rounding of its threshold: verdict not compared")
                continue
            run.dist("gate verdict", "acceptable" if g["acc"] else "disqualified")
            if g["acc"] != g["want"]:
                run.violation(gate_sig(g["acc"], g["unsafe"], "HourlyModel._model_fit_is_acceptable"),
                              "C16 hourly gate: %s with cvrmse_adj=%r (threshold %r), pnrmse_adj=%r (threshold %r); the statement says %s" % (
                                  "acceptable" if g["acc"] else "disqualified", fields["cvrmse_adj"], g["tcv"], fields["pnrmse_adj"], g["tpn"],
                                  "acceptable" if g["want"] else "disqualified"),
                              case={"stream": "gate", "case": dict(case, thresholds=[[g["tcv"], g["tpn"]]])}, observation=g["acc"],
                              expected=g["want"], generator="c16.gen_series")
            gates.append((g["term"], case, g))
    g_small = [g for g in gates if len(g[1]["rows"]) <= 150]
    g_long = [g for g in gates if len(g[1]["rows"]) > 150]
    # the four groups are evaluated concurrently (each call shards its cases over up to 12 coqc processes)
    import concurrent.futures as cf
    groups = [("baseline", small, "check_baseline", 130), ("baseline_long", long_, "check_baseline", 3),
              ("gate", g_small, "check_gate", 260), ("gate_long", g_long, "check_gate", 4)]
    groups = [g for g in groups if g[1]]
    with cf.ThreadPoolExecutor(max_workers=4) as ex:
        bads = list(ex.map(lambda g: run.coq_cases(g[0], IMPORTS, "", [t[0] for t in g[1]], g[2], shard=g[3], timeout=600), groups))
    for (name, lst, fn, _), bad in zip(groups, bads):
        if bad is None:
            run.proof_ok = False
            continue
        if fn == "check_baseline":
            for i in bad[:6]:
                report_mismatch(run, name, "baseline_bad", lst[i][0], lst[i][1], lst[i][2])
            for i in bad[6:]:
                run.corr_failures.append({"stream": name, "case": lst[i][1]})
        else:
            for i in bad[:10]:
                run.corr_failures.append({"stream": name, "case": lst[i][1], "impl": {k: lst[i][2][k] for k in ("tcv", "tpn", "acc")}})


# ------------------------------------------------------------------ stubbed fits

_HD = {}


def hourly_data_object():
    if "h" not in _HD:
        import random
        import fitlib
        with contextlib.redirect_stdout(io.StringIO()):
            _HD["h"] = fitlib.hourly_baseline(fitlib.hourly_frame(random.Random(7), ndays=365))
    return _HD["h"]


def daily_data_object(billing=False):
    key = "b" if billing else "d"
    if key not in _HD:
        import random
        import fitlib
        with contextlib.redirect_stdout(io.StringIO()):
            if billing:
                m, t = fitlib.billing_series(random.Random(7))
                _HD[key] = fitlib.billing_baseline(m, t)
            else:
                _HD[key] = fitlib.daily_baseline(fitlib.daily_frame(random.Random(7)))
    return _HD[key]


def hourly_stub_job(case):
    """HourlyModel.fit with the regression replaced by stubs: the real tail of _fit / _adaptive_fit (parameter count,
    interpolated rows removed, BaselineMetrics) and the real poor-fit disqualification of fit()."""
    import random
    from opendsm.eemeter import HourlyModel
    from opendsm.eemeter.models.hourly.settings import BaseHourlySettings, ElasticNetSettings
    k_mad = mad_k()
    rng = random.Random(case.get("seed", 0))
    hd = hourly_data_object()
    rows = case["rows"]
    n = len(rows)
    den = case["den"]
    if "flags" in case:
        fo, ft = case["flags"]
        hrows = [(o, p, a or b) for (o, p), a, b in zip(rows, fo, ft)]
    else:
        # flags: interpolated_observed / interpolated_temperature
        fo = [rng.random() < 0.15 for _ in range(n)]
        ft = [rng.random() < 0.1 for _ in range(n)]
        if rng.random() < 0.1:
            fo, ft = [False] * n, [False] * n
        # interpolated rows carry wild values: they must not influence the metrics
        hrows = []
        for (o, p), a, b in zip(rows, fo, ft):
            if (a or b) and fin(o) and fin(p) and rng.random() < 0.8:
                p = p + rng.choice([1, -1]) * rng.randint(1, 50) * max(1, abs(o))
            hrows.append((o, p, a or b))
    meas = [(o, p) for o, p, f in hrows if not f]
    pairs = [(Fr(o, den), Fr(p, den)) for o, p in meas if fin(o) and fin(p)]
    if len(pairs) < 2:
        return None
    ncoef = case.get("ncoef") or rng.randint(1, max(1, min(len(pairs) + 2, 12)))
    nzero = rng.randint(0, 3)
    icpt2 = rng.random() < 0.5
    tcv, tpn = case.get("thr") or rng.choice([(1.4, 2.2), (1.4, 2.2), (0.1, 0.1), (0.5, 1e-9), (1e-9, 0.5), (1e9, 1e9)])
    adaptive = case["adaptive"] if "adaptive" in case else rng.random() < 0.35
    ghi_col = rng.random() < 0.3
    coef = np.array([1.5] * ncoef + [0.0] * nzero)
    icpt = np.array([0.0, 2.0]) if icpt2 else np.array([0.0])
    nparams = int(np.count_nonzero(coef) + np.count_nonzero(icpt))
    fr = pd.DataFrame({"observed": [cfloat(o, den) for o, _, _ in hrows], "predicted": [cfloat(p, den) for _, p, _ in hrows],
                       "interpolated_observed": fo, "interpolated_temperature": ft, "temperature": 50.0})
    if ghi_col:
        fr["interpolated_ghi"] = False
    en = ElasticNetSettings(adaptive_weights=True, adaptive_weight_max_iter=rng.choice([1, 3]), adaptive_weight_tol=1e-4) \
        if adaptive else ElasticNetSettings(adaptive_weights=False, adaptive_weight_max_iter=None, adaptive_weight_tol=None)
    hm = HourlyModel(settings=BaseHourlySettings(cvrmse_threshold=tcv, pnrmse_threshold=tpn, elasticnet=en))
    yfit = np.ones((3, 24))
    hm._prepare_features = lambda df: (None, None, yfit)
    hm._model = types.SimpleNamespace(fit=lambda X, y, **kw: None, coef_=coef, intercept_=icpt, predict=lambda X: yfit * 0.9)
    hm._predict = lambda data, X=None, _fr=fr: _fr.copy()
    rcase = dict(case, flags=[fo, ft], rows=[[o, p] for o, p, _ in hrows], ncoef=ncoef, thr=[tcv, tpn], adaptive=adaptive)
    out = {"case": rcase, "adaptive": adaptive, "any_flag": any(f for _, _, f in hrows), "nparams": nparams, "tcv": tcv, "tpn": tpn}
    try:
        with contextlib.redirect_stdout(io.StringIO()), np.errstate(all="ignore"):
            hm.fit(hd)
            fields = flatten_dump(hm.baseline_metrics.model_dump())
            stored_p = int(hm.baseline_metrics.num_model_params)
    except Exception as e:  # noqa
        out["raised"] = "%s: %s" % (type(e).__name__, str(e)[:200])
        return out
    dq = any(w.qualified_name == "eemeter.model_fit_metrics" for w in hm.disqualification)
    fails, T = oracle_baseline(pairs, nparams, fields, k_mad)
    out.update(fields=fields, stored_p=stored_p, dq=dq, fails=fails, want_dq=not true_gate(T, tcv, tpn), unsafe=unsafe_ratios(T, fields),
               ambiguous=gate_ambiguous(T, tcv, tpn))
    out["term"] = ("{| hc_pl := %s; hc_den := %d%%positive; hc_rows := %s; hc_frows := []; hc_p := %s; hc_mn := %s; hc_k := %s; hc_exp := %s |}" % (
        POLICY[0], den, coq_hrows(hrows), zlit(stored_p), flit(MN), flit(k_mad), coq_list([obsv(fields[f]) for f in FIELDS])))
    out["gterm"] = ("{| gc_pl := %s; gc_den := %d%%positive; gc_rows := %s; gc_p := %s; gc_mn := %s; gc_tcv := %s; gc_tpn := %s; gc_acceptable := %s |}" % (
        POLICY[0], den, coq_hrows(hrows), zlit(stored_p), flit(MN), flit(tcv), flit(tpn), coq_bool(not dq)))
    return out


def stream_hourly_stub(run, cases):
    hourly_data_object()
    lst = []
    for r in pmap(hourly_stub_job, cases):
        if r is None:
            continue
        case = r["case"]
        if "raised" in r:
            run.corr_failures.append({"stream": "hourly_stub", "case": case, "impl": "raised " + r["raised"]})
            continue
        fields = r["fields"]
        run.count(("hstub", vlib.sha(case)))
        run.dist("hourly_stub path", "_adaptive_fit" if r["adaptive"] else "_fit")
        run.dist("hourly_stub interpolated rows", "some" if r["any_flag"] else "none")
        run.dist("hourly_stub verdict", "disqualified" if r["dq"] else "acceptable")
        rc = {"stream": "hourly_stub", "case": case}
        # oracle: the stored metrics are the textbook statistics of the measured rows, with the model's parameter count
        if r["stored_p"] != r["nparams"]:
            run.violation({"defect": "num_model_params is not the number of non-zero coefficients", "call": "HourlyModel.fit"},
                          "C16 HourlyModel.fit stored num_model_params=%d, the regression has %d non-zero parameters" % (r["stored_p"], r["nparams"]),
                          case=rc, observation=r["stored_p"], expected=r["nparams"], generator="c16.hourly_stub")
        for sig, msg in r["fails"]:
            run.violation(dict(sig, call="HourlyModel.fit"), "C16 HourlyModel.fit baseline_metrics (measured rows): " + msg,
                          case=rc, observation=fields, generator="c16.hourly_stub")
        if r["ambiguous"]:
            run.dist("gate boundary", "ratio within binary64 rounding of its threshold: verdict not compared")
        elif r["dq"] != r["want_dq"]:
            run.violation(gate_sig(not r["dq"], r["unsafe"], "HourlyModel.fit"),
                          "C16 HourlyModel.fit: %s with cvrmse_adj=%r (threshold %r), pnrmse_adj=%r (threshold %r)" % (
                              "disqualified" if r["dq"] else "not disqualified", fields["cvrmse_adj"], r["tcv"], fields["pnrmse_adj"], r["tpn"]),
                          case=rc, observation=r["dq"], expected=r["want_dq"], generator="c16.hourly_stub")
        lst.append((r["term"], None if r["ambiguous"] else r["gterm"], case, fields, r["dq"]))
    if lst:
        bad = run.coq_cases("hourly_stub", IMPORTS, "", [t[0] for t in lst], "check_hourly", shard=40, timeout=600)
        if bad is None:
            run.proof_ok = False
        else:
            for i in bad[:6]:
                report_mismatch(run, "hourly_stub", "hourly_bad", lst[i][0], lst[i][2], lst[i][3])
        glst = [t for t in lst if t[1] is not None]
        bad = run.coq_cases("hourly_stub_gate", IMPORTS, "", [t[1] for t in glst], "check_gate", shard=60, timeout=600)
        if bad is None:
            run.proof_ok = False
        else:
            for i in bad[:6]:
                run.corr_failures.append({"stream": "hourly_stub_gate", "case": glst[i][2], "impl": {"disqualified": glst[i][4]}})


def gen_daily(rng, k):
    kinds = ["usage", "usage", "negative", "zero_mean", "constant_obs", "perfect", "ties", "tie_at_threshold"]
    kind = kinds[k % len(kinds)]
    if kind == "tie_at_threshold":
        # residuals of constant size a over observations of mean M: CVRMSE = a / M exactly, threshold set to it
        n1, n2 = rng.choice([2, 5, 20]), rng.choice([1, 3, 30])
        n = n1 + n2
        a, M = rng.choice([(1, 4), (1, 2), (3, 8), (2, 2), (5, 16)])
        half = [rng.randint(0, M - 1) for _ in range(n // 2)]
        obs = [M + h for h in half] + [M - h for h in half] + ([M] if n % 2 else [])
        rng.shuffle(obs)
        return {"kind": kind, "den": 1, "resid": [rng.choice([a, -a]) for _ in range(n)], "obs": obs, "split": n1,
                "thr": a / M, "billing": rng.random() < 0.3}
    K = rng.choice([0, 2, 6])
    den = 2 ** K
    n1, n2 = rng.choice([2, 5, 20, 60, 200]), rng.choice([1, 3, 30, 165])
    U = rng.choice([5, 40, 900]) * den
    S = max(1, U // rng.choice([2, 5, 20]))
    E = rng.choice([1, max(1, S // 10), S, 3 * U])
    n = n1 + n2
    if kind == "negative":
        obs = [-U + _noise(rng, S) for _ in range(n)]
    elif kind == "zero_mean":
        half = [rng.randint(1, S) for _ in range(n // 2)]
        obs = half + [-h for h in half] + ([0] if n % 2 else [])
        rng.shuffle(obs)
    elif kind == "constant_obs":
        obs = [U] * n
    elif kind == "ties":
        vals = [U + _noise(rng, S) for _ in range(3)]
        obs = [rng.choice(vals) for _ in range(n)]
    else:
        obs = [U + _noise(rng, S) for _ in range(n)]
    resid = [0] * n if kind == "perfect" else [_noise(rng, E) for _ in range(n)]
    thr = rng.choice([1.0, 1.0, 0.1, 0.0, 0.5, 10.0])
    if rng.random() < 0.3 and kind != "perfect":
        # a threshold right at the realised CVRMSE (one ulp-ish above or below)
        mean = sum(obs) / n
        if mean > 0:
            thr = math.sqrt(sum(r * r for r in resid) / n) / mean * rng.choice([0.999999, 1.000001])
    return {"kind": kind, "den": den, "resid": resid, "obs": obs, "split": n1, "thr": thr, "billing": rng.random() < 0.3}


def run_daily_stub(case):
    from opendsm.eemeter import DailyModel, BillingModel
    den = case["den"]
    resid = np.array([r / den for r in case["resid"]], dtype=float)
    obs = np.array([o / den for o in case["obs"]], dtype=float)
    s = case["split"]
    comp = lambda a, b: types.SimpleNamespace(wSSE=float(np.sum(a ** 2)), N=len(a), resid=a, obs=b)  # noqa
    # a decoy "no split" component with other values: the reported error must be that of the chosen combination
    comps = {"fw-su_sh_wi": comp(resid * 3.0 + 1.0, obs + 7.0), "wd-su_sh_wi": comp(resid[:s], obs[:s]), "we-su_sh_wi": comp(resid[s:], obs[s:])}
    with contextlib.redirect_stdout(io.StringIO()):
        cls = BillingModel if case["billing"] else DailyModel
        m = cls(settings={"developer_mode": True, "cvrmse_threshold": case["thr"]})
    data = daily_data_object(case["billing"])
    m._initialize_data = lambda md: (md, None)
    m._combinations = lambda: []
    m._components = lambda: []
    m._fit_components = lambda: comps
    m._best_combination = lambda print_out=False: "wd-su_sh_wi__we-su_sh_wi"
    m._final_fit = lambda comb: None
    m._create_params_from_fit_model = lambda: None
    try:
        with contextlib.redirect_stdout(io.StringIO()), np.errstate(all="ignore"):
            m.fit(data, ignore_disqualification=True)
    except Exception as e:  # noqa
        return {"kind": "err", "cls": type(e).__name__, "msg": str(e)[:300]}
    dq = any(w.qualified_name == "eemeter.model_fit_metrics.cvrmse" for w in m.disqualification)
    return {"kind": "ok", "error": {k: canon(v) for k, v in m.error.items()}, "dq": dq}


def oracle_daily(case, obs):
    den = case["den"]
    resid = [Fr(r, den) for r in case["resid"]]
    ob = [Fr(o, den) for o in case["obs"]]
    n = len(resid)
    fails = []
    e = obs["error"]
    mse = sum(r * r for r in resid) / n
    mae = sum(abs(r) for r in resid) / n
    mean = sum(ob) / n
    rng_ = Textbook.quantile(ob, Fr(19, 20)) - Textbook.quantile(ob, Fr(1, 20))
    mx = max(abs(o) for o in ob)

    def bad(field, msg):
        fails.append(({"defect": "statistic differs from the textbook formula", "field": field, "call": "DailyModel._get_error_metrics"},
                      "%s: %s" % (field, msg)))
    for f, sq in (("RMSE", mse), ("wRMSE", mse)):
        g = e[f]
        if g is None or isinstance(g, str) or Fr(g) < 0 or not close(Fr(g) ** 2, sq):
            bad(f, "reported %r, textbook %.12g" % (g, float(fsqrt(sq))))
    if e["MAE"] is None or isinstance(e["MAE"], str) or not close(Fr(e["MAE"]), mae):
        bad("MAE", "reported %r, textbook %.12g" % (e["MAE"], float(mae)))
    for f, d_ in (("CVRMSE", mean), ("PNRMSE", rng_)):
        g = e[f]
        if d_ == 0:
            continue                     # the quotient does not exist; nothing to compare
        if abs(d_) < Fr(1, 10**6) * mx:
            continue                     # denominator lost to rounding in binary64
        if g is None or isinstance(g, str) or ((Fr(g) > 0) != (d_ > 0) and mse != 0) or not close(Fr(g) ** 2, mse / (d_ * d_)):
            bad(f, "reported %r, textbook %.12g" % (g, float(fsqrt(mse / (d_ * d_)))))
    # gate: disqualified exactly when CVRMSE exceeds the threshold
    thr = Fr(case["thr"])
    if mean != 0:
        exceeds = mean > 0 and mse / (mean * mean) > thr * thr
        exact_tie = mse / (mean * mean) == thr * thr          # CVRMSE equals the threshold exactly: does not exceed it
        near = not exact_tie and abs(float(fsqrt(mse / (mean * mean))) - float(thr)) <= 1e-12 * max(1.0, float(thr))
        if not near and obs["dq"] != exceeds:
            fails.append(({"defect": "poor-fit verdict differs from the statement", "call": "DailyModel.fit", "cause": "gate logic",
                           "verdict": "disqualified" if obs["dq"] else "acceptable"},
                          "%s with CVRMSE=%r and threshold %r" % ("disqualified" if obs["dq"] else "not disqualified", e["CVRMSE"], case["thr"])))
    return fails


def daily_stub_job(case):
    obs = run_daily_stub(case)
    out = {"obs": obs}
    if obs["kind"] == "ok":
        out["fails"] = oracle_daily(case, obs)
        e = obs["error"]
        out["term"] = ("{| dc_den := %d%%positive; dc_resid := %s; dc_obs := %s; dc_fresid := []; dc_fobs := []; dc_thr := %s; dc_exp := %s; dc_dq := %s |}" % (
            case["den"], coq_list([zlit(r) for r in case["resid"]]), coq_list([zlit(o) for o in case["obs"]]),
            flit(case["thr"]), coq_list([obsv(e[f]) for f in ("RMSE", "MAE", "CVRMSE", "PNRMSE")]), coq_bool(obs["dq"])))
    return out


def stream_daily_stub(run, cases):
    daily_data_object(False)
    daily_data_object(True)
    lst = []
    for case, r in zip(cases, pmap(daily_stub_job, cases)):
        obs = r["obs"]
        run.count(("dstub", vlib.sha(case)))
        run.dist("daily_stub kind", case["kind"] + ("/billing" if case["billing"] else ""))
        if obs["kind"] != "ok":
            run.violation({"defect": "fit raised", "call": "DailyModel.fit", "raised": obs["cls"]},
                          "C16 daily stub fit raised %s: %s" % (obs["cls"], obs["msg"]), case={"stream": "daily_stub", "case": case},
                          observation=obs, generator="c16.gen_daily")
            continue
        run.dist("daily_stub verdict", "disqualified" if obs["dq"] else "acceptable")
        for sig, msg in r["fails"]:
            run.violation(sig, "C16 daily/billing error metrics: " + msg, case={"stream": "daily_stub", "case": case},
                          observation=obs, generator="c16.gen_daily")
        lst.append((r["term"], case, obs))
    if lst:
        bad = run.coq_cases("daily_stub", IMPORTS, "", [t[0] for t in lst], "check_daily", shard=40, timeout=600)
        if bad is None:
            run.proof_ok = False
        else:
            for i in bad[:6]:
                report_mismatch(run, "daily_stub", "daily_bad", lst[i][0], lst[i][1], lst[i][2])


# ------------------------------------------------------------------ ReportingMetrics

def reporting_job(case):
    """ReportingMetrics over a baseline: n, sums, savings, total_savings_uncertainty (t and the frequency factor are inputs)"""
    import random
    from opendsm.common.metrics import BaselineMetrics, ReportingMetrics
    rng = random.Random(case.get("seed", 0))
    pairs = finite_pairs(case)
    if len(pairs) < 3:
        return None
    try:
        bm = BaselineMetrics(df=frame_of(case), num_model_params=case["p"])
        with np.errstate(all="ignore"):
            bf = flatten_dump(bm.model_dump())
    except Exception:  # noqa
        return None
    rep = case.get("reporting") or gen_series(rng, rng.randrange(10**6))
    m = len(rep["rows"])
    freq = case.get("freq") or rng.choice(["hourly", "daily", "billing"])
    # time zone of the reporting rows (UTC, negative / positive offsets, with and without DST, naive) and start:
    # mostly local midnight on the 1st of a month, so that a month count taken in another zone is off by one
    tz = case["tz"] if "tz" in case else rng.choice(["UTC", "US/Pacific", "America/Bogota", "America/St_Johns", "Europe/Berlin", "Asia/Tokyo",
                                                     "Asia/Kolkata", "Australia/Sydney", "Pacific/Auckland", None])
    start = case.get("start") or "2023-%02d-%02d %02d:00" % (rng.randint(1, 12), rng.choice([1, 1, 1, 15, 28]), rng.choice([0, 0, 0, 1, 23]))
    step = case.get("step") or {"hourly": "h", "daily": "D", "billing": rng.choice(["30D", "MS"])}[freq]
    if tz is None:
        idx = pd.date_range(pd.Timestamp(start), periods=m, freq=step)
    elif freq == "hourly":      # consecutive instants, shown on the local clock
        t0 = pd.Timestamp(start).tz_localize(tz, ambiguous=True, nonexistent="shift_forward")
        idx = pd.date_range(t0.tz_convert("UTC"), periods=m, freq=step).tz_convert(tz)
    else:                       # the same local wall-clock time every day / period (DST gaps and folds resolved explicitly)
        idx = pd.date_range(pd.Timestamp(start), periods=m, freq=step).tz_localize(tz, ambiguous=np.ones(m, dtype=bool),
                                                                                  nonexistent="shift_forward")
    conf = case.get("conf") or rng.choice([0.9, 0.8, 0.95, 0.68])
    tail = case.get("tail") or rng.choice([1, 2])
    rdf = frame_of(rep, index=idx)
    out = {}
    rm = ReportingMetrics(baseline_metrics=bm, reporting_df=rdf, data_frequency=freq, confidence_level=conf, t_tail=tail)
    for f in ("n", "observed_sum", "predicted_sum", "t_stat", "savings", "total_savings_uncertainty", "fsu", "predicted_data_point_unc"):
        try:
            with np.errstate(all="ignore"):
                out[f] = canon(getattr(rm, f))
        except Exception as e:  # noqa
            out[f] = "raise"
            out[f + "_exc"] = type(e).__name__
    rp = finite_pairs(rep)
    rcase = dict(case, reporting=rep, freq=freq, conf=conf, tail=tail, tz=tz, start=start, step=step)
    res = {"case": rcase, "out": out, "freq": freq, "nrep": len(rp), "fails": [], "tz": tz,
           "first_of_month": start[8:10] == "01" and start[11:13] == "00"}
    if not rp:
        return res
    so, sp = sum(a for a, _ in rp), sum(b for _, b in rp)
    for f, want in (("n", Fr(len(rp))), ("observed_sum", so), ("predicted_sum", sp), ("savings", sp - so)):
        g = out[f]
        if g is None or isinstance(g, str) or not close(Fr(g), want, max(abs(so), abs(sp)) if f == "savings" else 0):
            res["fails"].append(({"defect": "statistic differs from the textbook formula", "field": "reporting." + f, "call": "ReportingMetrics"},
                                 "C16 ReportingMetrics.%s = %r, textbook %.12g" % (f, g, float(want))))
    # uncertainty: the inputs are n, n', m, E = predicted_sum, cvrmse_autocorr_adj, t (scipy) and the frequency factor
    # M = number of distinct calendar months of the finite rows, on the rows' own (local) clock
    months = len(set(t.month for t, (o, p) in zip(idx, rep["rows"]) if fin(o) and fin(p)))
    res["months"] = months
    factor = 1.26 if freq == "hourly" else float(np.polyval([-0.00024, 0.03535, 1.00286] if freq == "daily" else
                                                             [-0.00022, 0.03306, 0.94054], months))
    cv, npv, tst, u = bf["cvrmse_autocorr_adj"], bf["n_prime"], out["t_stat"], out["total_savings_uncertainty"]
    if not isinstance(tst, float):
        return res
    if isinstance(cv, float) and isinstance(npv, float) and npv > 0:
        # oracle (ASHRAE-14 form): U = factor * E * t * cv * sqrt(n/(m n') (1 + 2/n'))
        lin = Fr(factor) * sp * Fr(tst) * Fr(cv)
        want_sq = lin ** 2 * Fr(len(pairs)) / (len(rp) * Fr(npv)) * (1 + 2 / Fr(npv))
        if not isinstance(u, float) or not close(Fr(u) ** 2, want_sq) or (want_sq != 0 and (u > 0) != (lin > 0)):
            res["fails"].append(({"defect": "statistic differs from the textbook formula", "field": "reporting.total_savings_uncertainty",
                                  "call": "ReportingMetrics"},
                                 "C16 ReportingMetrics.total_savings_uncertainty = %r, ASHRAE form gives %.12g (%s rows in zone %s from %s: M = %d local calendar months)" % (
                                     u, float(fsqrt(want_sq)), freq, tz, start, months)))
        # fsu = U / savings, predicted_data_point_unc = U / sqrt(m)
        if isinstance(u, float):
            sv = sp - so
            g = out["fsu"]
            if sv != 0 and (not isinstance(g, float) or not close(Fr(g) ** 2 * sv * sv, Fr(u) ** 2) or (u != 0 and (g > 0) != ((u > 0) == (sv > 0)))):
                res["fails"].append(({"defect": "statistic differs from the textbook formula", "field": "reporting.fsu", "call": "ReportingMetrics"},
                                     "C16 ReportingMetrics.fsu = %r, total_savings_uncertainty / savings = %.12g" % (g, u / float(sv))))
            g = out["predicted_data_point_unc"]
            if not isinstance(g, float) or not close(Fr(g) ** 2 * len(rp), Fr(u) ** 2) or (u != 0 and (g > 0) != (u > 0)):
                res["fails"].append(({"defect": "statistic differs from the textbook formula", "field": "reporting.predicted_data_point_unc",
                                      "call": "ReportingMetrics"},
                                     "C16 ReportingMetrics.predicted_data_point_unc = %r, total_savings_uncertainty / sqrt(m) = %.12g" % (
                                         g, u / math.sqrt(len(rp)))))
    # the model computes M, the frequency factor (constants read off the source), U, fsu and the point uncertainty itself
    res["term"] = ("{| uc_den := %d%%positive; uc_rows := %s; uc_months := %s; uc_freq := %s; uc_t := %s; uc_cv := %s; uc_n := %s; uc_np := %s; "
                   "uc_exp := %s |}" % (
                       rep["den"], coq_rows(rep["rows"]), coq_list([zlit(t.month) for t in idx]), freq.capitalize(), flit(tst), obsv(cv),
                       zlit(len(pairs)), obsv(npv),
                       coq_list([obsv(out[f]) for f in ("n", "observed_sum", "predicted_sum", "savings", "total_savings_uncertainty", "fsu",
                                                        "predicted_data_point_unc")])))
    return res


def stream_reporting(run, cases):
    lst = []
    for r in pmap(reporting_job, cases):
        if r is None:
            continue
        out = r["out"]
        run.count(("rep", vlib.sha(r["case"])), nontrivial=r["nrep"] >= 1)
        run.dist("reporting frequency", r["freq"])
        run.dist("reporting time zone", str(r["tz"]) + (" / starts at local midnight on the 1st" if r["first_of_month"] else ""))
        if r["freq"] != "hourly" and "months" in r:
            run.dist("reporting months M", r["months"])
        run.dist("reporting uncertainty", "number" if isinstance(out["total_savings_uncertainty"], float) else str(out["total_savings_uncertainty"]))
        for sig, msg in r["fails"]:
            run.violation(sig, msg, case={"stream": "reporting", "case": r["case"]}, observation=out, generator="c16.reporting_job")
        if "term" in r:
            lst.append((r["term"], r["case"], out))
    if lst:
        bad = run.coq_cases("reporting", RIMPORTS, "", [t[0] for t in lst], "check_uncertainty", shard=40, timeout=600)
        if bad is None:
            run.proof_ok = False
        else:
            for i in bad[:6]:
                report_mismatch(run, "reporting", "uncertainty_bad", lst[i][0], lst[i][1], lst[i][2], imports=RIMPORTS)


# ------------------------------------------------------------------ real fits

def hourly_fit_job(args):
    seed, variant = args[0], args[1]
    import random
    import fitlib
    from opendsm.eemeter import HourlyModel
    rng = random.Random(seed)
    ndays = rng.choice([100, 150, 220] if len(args) > 2 and args[2] == "short" else [120, 200, 365])
    scale = rng.choice([1.0, 1.0, 30.0, 0.01])
    df = fitlib.hourly_frame(rng, ndays=ndays, noise=rng.choice([0.05, 0.3, 1.5]), scale=scale, ghi=(variant == "ghi"))
    if variant == "netmeter":
        df["observed"] = df["observed"] - df["observed"].mean() * rng.choice([0.9, 1.0, 1.3])
    if variant == "noisy":
        df["observed"] = df["observed"] * np.random.default_rng(seed).lognormal(0, 2.0, len(df))
    n = len(df)
    for _ in range(rng.choice([3, 12, 40])):
        i = rng.randrange(24, n - 30)
        df.iloc[i:i + rng.choice([1, 2, 5]), 0] = np.nan
    for _ in range(rng.choice([0, 2, 6])):
        i = rng.randrange(24, n - 30)
        df.iloc[i:i + rng.choice([1, 3]), 1] = np.nan
    with contextlib.redirect_stdout(io.StringIO()):
        bd = fitlib.hourly_baseline(df)
        m = HourlyModel().fit(bd, ignore_disqualification=True)
        with np.errstate(all="ignore"):
            fields = flatten_dump(m.baseline_metrics.model_dump())
        pr = m.predict(bd, ignore_disqualification=True)
    cols = [c for c in pr.columns if c.startswith("interpolated_")]
    flag = pr[cols].any(axis=1).to_numpy()
    o = pr["observed"].to_numpy(dtype=float)
    p = pr["predicted"].to_numpy(dtype=float)
    rows = [(float(a) if np.isfinite(a) else None, float(b) if np.isfinite(b) else None, bool(f)) for a, b, f in zip(o, p, flag)]
    nparams = int(np.count_nonzero(m._model.coef_) + np.count_nonzero(m._model.intercept_))
    k_mad = mad_k()
    meas = [(a, b) for a, b, f in rows if not f]
    pairs = [(Fr(a), Fr(b)) for a, b in meas if a is not None and b is not None]
    fails, T = oracle_baseline(pairs, nparams, fields, k_mad)
    tcv, tpn = float(m.settings.cvrmse_threshold), float(m.settings.pnrmse_threshold)
    dq = any(w.qualified_name == "eemeter.model_fit_metrics" for w in m.disqualification)
    frows = coq_list(["(%s, %s, %s)" % ("nan" if a is None else vlib.fhex(a), "nan" if b is None else vlib.fhex(b), coq_bool(f))
                      for a, b, f in rows])
    term = ("{| hc_pl := %s; hc_den := 1%%positive; hc_rows := []; hc_frows := %s; hc_p := %s; hc_mn := %s; hc_k := %s; hc_exp := %s |}" % (
        POLICY[0], frows, zlit(int(m.baseline_metrics.num_model_params)), flit(MN), flit(k_mad), coq_list([obsv(fields[f]) for f in FIELDS])))
    return {"seed": seed, "variant": variant, "ndays": ndays, "span": args[2] if len(args) > 2 else "long", "fields": fields, "nrows": len(rows), "nparams": nparams,
            "stored_p": int(m.baseline_metrics.num_model_params), "n_interpolated": int(flag.sum()), "dq": dq, "tcv": tcv, "tpn": tpn,
            "fails": fails, "want_dq": not true_gate(T, tcv, tpn) if not gate_ambiguous(T, tcv, tpn) else dq, "unsafe": unsafe_ratios(T, fields), "term": term}


def daily_fit_job(args):
    seed, variant = args
    import random
    import fitlib
    from opendsm.eemeter import DailyModel
    rng = random.Random(seed)
    noise = rng.choice([0.03, 0.2, 0.8])
    df = fitlib.daily_frame(rng, ndays=365, noise=noise)
    if variant == "netmeter":
        df["observed"] = df["observed"] - df["observed"].mean() * rng.choice([0.95, 1.2])
    if variant == "noisy":
        df["observed"] = df["observed"] * np.random.default_rng(seed).lognormal(0, 1.2, len(df))
    for _ in range(rng.choice([0, 4])):
        df.iloc[rng.randrange(5, 360), 0] = np.nan
    with contextlib.redirect_stdout(io.StringIO()):
        bd = fitlib.daily_baseline(df)
        m = DailyModel().fit(bd, ignore_disqualification=True)
    comps = m.best_combination.split("__")
    resid = [float(x) for x in np.hstack([m.fit_components[c].resid for c in comps]).astype(float)]
    obs = [float(x) for x in np.hstack([m.fit_components[c].obs for c in comps]).astype(float)]
    error = {k: canon(v) for k, v in m.error.items()}
    dq = any(w.qualified_name == "eemeter.model_fit_metrics.cvrmse" for w in m.disqualification)
    thr = float(m.settings.cvrmse_threshold)
    K = max(Fr(v).denominator.bit_length() - 1 for v in resid + obs)
    den = 2 ** K          # exact rationals for the oracle
    case = {"kind": "fit", "den": den, "resid": [int(Fr(v) * den) for v in resid], "obs": [int(Fr(v) * den) for v in obs],
            "thr": thr, "billing": False, "split": 0}
    fails = oracle_daily(case, {"error": error, "dq": dq})
    # the residuals the error is computed from are those of the fitted model on the measured days
    pr = m.predict(bd, ignore_disqualification=True)
    sub = pr[np.isfinite(pr["observed"]) & np.isfinite(pr["predicted"])]
    rmse_pred = float(((sub["observed"] - sub["predicted"]) ** 2).mean() ** 0.5)
    term = ("{| dc_den := 1%%positive; dc_resid := []; dc_obs := []; dc_fresid := %s; dc_fobs := %s; dc_thr := %s; dc_exp := %s; dc_dq := %s |}" % (
        coq_list([vlib.fhex(x) for x in resid]), coq_list([vlib.fhex(x) for x in obs]), flit(thr),
        coq_list([obsv(error[f]) for f in ("RMSE", "MAE", "CVRMSE", "PNRMSE")]), coq_bool(dq)))
    return {"seed": seed, "variant": variant, "error": error, "n": len(resid), "thr": thr, "dq": dq, "fails": fails, "term": term,
            "n_meter": int(np.isfinite(bd.df["observed"]).sum()), "rmse_pred": rmse_pred,
            "obs_sorted_equal": bool(len(obs) == len(sub) and np.allclose(np.sort(obs), np.sort(sub["observed"].to_numpy(dtype=float)),
                                                                          rtol=1e-12, atol=0))}


def start_fits(run, hjobs=None, djobs=None):
    """submit the real fits to the worker pool; they run while the other streams are processed"""
    hv = ["plain", "netmeter", "noisy", "ghi"]
    dv = ["plain", "netmeter", "noisy"]
    if hjobs is None:
        hjobs = [(run.rng.randrange(10**9), hv[i % len(hv)], "short" if run.quick() else "long") for i in range(run.n(3, 24))]
    if djobs is None:
        djobs = [(run.rng.randrange(10**9), dv[i % len(dv)]) for i in range(run.n(2, 16))]
    import multiprocessing as mp
    if _POOL[0] is None:
        _POOL[0] = mp.get_context("fork").Pool(int(os.environ.get("C16_PROCS", "10")))
    return (_POOL[0].map_async(hourly_fit_job, hjobs, chunksize=1), _POOL[0].map_async(daily_fit_job, djobs, chunksize=1))


def stream_fits(run, hjobs=None, djobs=None, handles=None):
    ha, da = handles or start_fits(run, hjobs, djobs)
    hres, dres = ha.get(1500), da.get(1500)
    hl = []
    for r in hres:
        run.count(("hfit", r["seed"], r["variant"]))
        run.dist("hourly_fit variant", r["variant"])
        run.dist("hourly_fit verdict", "disqualified" if r["dq"] else "acceptable")
        run.sample({"stream": "hourly_fit", "variant": r["variant"], "rows": r["nrows"], "interpolated": r["n_interpolated"],
                    "num_model_params": r["stored_p"], "cvrmse_adj": r["fields"]["cvrmse_adj"], "pnrmse_adj": r["fields"]["pnrmse_adj"],
                    "disqualified": r["dq"]}, limit=10)
        rc = {"stream": "hourly_fit", "job": [r["seed"], r["variant"], r["span"]]}
        if r["stored_p"] != r["nparams"]:
            run.violation({"defect": "num_model_params is not the number of non-zero coefficients", "call": "HourlyModel.fit"},
                          "C16 HourlyModel.fit stored num_model_params=%d, regression has %d" % (r["stored_p"], r["nparams"]),
                          case=rc, generator="c16.hourly_fit_job")
        for sig, msg in r["fails"]:
            run.violation(dict(sig, call="HourlyModel.fit"), "C16 fitted HourlyModel.baseline_metrics vs predict(baseline) on measured rows: " + msg,
                          case=rc, observation=r["fields"], generator="c16.hourly_fit_job")
        if r["want_dq"] != r["dq"]:
            run.violation(gate_sig(not r["dq"], r["unsafe"], "HourlyModel.fit"),
                          "C16 fitted HourlyModel: %s, cvrmse_adj=%r pnrmse_adj=%r" % ("disqualified" if r["dq"] else "not disqualified",
                                                                                      r["fields"]["cvrmse_adj"], r["fields"]["pnrmse_adj"]),
                          case=rc, observation=r["dq"], expected=r["want_dq"], generator="c16.hourly_fit_job")
        hl.append((r["term"], rc, r["fields"]))
    if hl:
        bad = run.coq_cases("hourly_fit", IMPORTS, "", [t[0] for t in hl], "check_hourly", shard=1, timeout=900)
        if bad is None:
            run.proof_ok = False
        else:
            for i in bad[:4]:
                report_mismatch(run, "hourly_fit", None, "", hl[i][1], hl[i][2])
    dl = []
    for r in dres:
        run.count(("dfit", r["seed"], r["variant"]))
        run.dist("daily_fit variant", r["variant"])
        run.dist("daily_fit verdict", "disqualified" if r["dq"] else "acceptable")
        run.sample({"stream": "daily_fit", "variant": r["variant"], "error": r["error"], "disqualified": r["dq"], "n": r["n"]}, limit=10)
        rc = {"stream": "daily_fit", "job": [r["seed"], r["variant"]]}
        if r["n"] != r["n_meter"] or not r["obs_sorted_equal"]:
            run.violation({"defect": "error metrics not over the measured days", "call": "DailyModel.fit"},
                          "C16 DailyModel.error computed over %d residuals, the baseline has %d measured days (same observed values: %s)" % (
                              r["n"], r["n_meter"], r["obs_sorted_equal"]), case=rc, generator="c16.daily_fit_job")
        rm = r["error"]["RMSE"]
        if not isinstance(rm, float) or abs(rm - r["rmse_pred"]) > 0.05 * max(rm, r["rmse_pred"]):
            run.violation({"defect": "RMSE far from the RMSE of predict(baseline)", "call": "DailyModel.fit"},
                          "C16 DailyModel.error RMSE=%r, RMSE of predict(baseline) on the measured days %r" % (rm, r["rmse_pred"]),
                          case=rc, generator="c16.daily_fit_job")
        for sig, msg in r["fails"]:
            run.violation(sig, "C16 fitted DailyModel.error vs the residuals of the chosen components: " + msg,
                          case=rc, observation=r["error"], generator="c16.daily_fit_job")
        dl.append((r["term"], rc, r["error"]))
    if dl:
        bad = run.coq_cases("daily_fit", IMPORTS, "", [t[0] for t in dl], "check_daily", shard=2, timeout=900)
        if bad is None:
            run.proof_ok = False
        else:
            for i in bad[:4]:
                report_mismatch(run, "daily_fit", None, "", dl[i][1], dl[i][2])


# ------------------------------------------------------------------ main

# ------------------------------------------------------------------ utils.py helpers (Model/MetricsUtils.v)

RIMPORTS = IMPORTS + "\nFrom V Require Import Generated.MetricsGen Model.MetricsReport Model.MetricsReportRun."
UIMPORTS = IMPORTS + "\nFrom V Require Import Model.MetricsUtils Model.MetricsUtilsRun."
_CLIP = [None]


def clip_fn():
    """np.clip inside numba-compiled code resolves to the overload of opendsm/common/utils.py"""
    if _CLIP[0] is None:
        import numba
        from opendsm.common import utils  # noqa  (registers the overload)

        @numba.njit
        def _c16_clip(a, lo, hi):
            return np.clip(a, lo, hi)
        _CLIP[0] = _c16_clip
    return _CLIP[0]


def decade_of(a):
    """k with 10^k <= a < 10^(k+1) for a positive Fraction"""
    k = len(str(a.numerator)) - len(str(a.denominator))
    while Fr(10) ** k > a:
        k -= 1
    while Fr(10) ** (k + 1) <= a:
        k += 1
    return k


def near_decade(a, half=False):
    """relative distance of a to the nearest 10^j (or 10^(j+1/2)) below 1e-9: log10 in binary64 cannot tell the side"""
    k = decade_of(a)
    if half:
        sq = a * a
        return any(abs(sq - Fr(10) ** (2 * j + 1)) <= Fr(1, 10**8) * sq for j in (k - 1, k, k + 1))
    return any(abs(a - Fr(10) ** j) <= Fr(1, 10**9) * a for j in (k, k + 1))


def oom_true(x, method):
    a = abs(Fr(x))
    k = decade_of(a)
    if method == "floor":
        return k
    if method == "ceil":
        return k if a == Fr(10) ** k else k + 1
    return k if a * a < Fr(10) ** (2 * k + 1) else k + 1


def uviol(run, call, defect, msg, case, obs=None, extra=None):
    sig = {"call": call, "defect": defect}
    sig.update(extra or {})
    run.violation(sig, "C16 utils.%s: %s" % (call, msg), case=dict(case, stream="utils"), observation=obs, generator="c16.stream_utils")


def gen_magnitudes(rng, n):
    out = [10.0 ** k for k in range(0, 23)] + [10.0 ** -k for k in (1, 2, 3, 4, 5, 8, 9, 10)]
    out += [3.16, 3.17, 31.6, 0.0316, 316227.0, 316228.0, 5.0, 250.0, 0.5, 99.0, 101.0, 999.9999999999999, 1e-310, 5e-324, 1e300,
            1234.5678, 5678.1234, 0.0123456, 25.0, 35.0, 2.5, 0.125, 9.96, 0.0]
    for _ in range(n):
        out.append(rng.choice([1, -1]) * rng.randint(1000, 9999) / 1000.0 * 10.0 ** rng.randint(-12, 12))
        out.append(float(rng.randint(1, 9999)) * 2.0 ** rng.randint(-20, 20))
    return out


def stream_utils(run, only=None):
    from opendsm.common import utils as U
    rng = run.rng
    n = cnt(run, 60, 1500)
    # ---------------- OoM
    if only in (None, "OoM"):
        xs = gen_magnitudes(rng, n)
        terms, meta = [], []
        for method in ("floor", "ceil", "round"):
            arr = np.array(xs + [float("nan"), float("inf"), -float("inf")])
            try:
                with np.errstate(all="ignore"):
                    res = [canon(v) for v in U.OoM(arr.copy(), method=method)]
            except Exception as e:  # noqa
                uviol(run, "OoM", "raised", "raised %s on a float array" % type(e).__name__, {"fn": "OoM", "method": method})
                continue
            for x, r in zip(list(arr), res):
                run.count(("OoM", method, repr(x)))
                case = {"fn": "OoM", "x": repr(float(x)), "method": method}
                if x != x or abs(x) == float("inf"):
                    if isinstance(r, float):
                        uviol(run, "OoM", "finite result for a non-finite input", "OoM(%r, %s) = %r" % (x, method, r), case, r)
                    continue
                if x == 0.0:
                    if r != 1.0:
                        uviol(run, "OoM", "zero", "OoM(0) = %r, the code documents 1" % (r,), case, r)
                else:
                    a = abs(Fr(float(x)))
                    exact_pow = any(a == Fr(10) ** j for j in range(0, 23))
                    near = (not exact_pow) and (near_decade(a) or (method == "round" and near_decade(a, half=True)))
                    want = oom_true(x, method)
                    ok = isinstance(r, float) and (r == want or (near and abs(r - want) <= 1))
                    if not ok:
                        uviol(run, "OoM", "not the %s of log10|x|" % method,
                              "OoM(%r, %s) = %r, but 10^%d <= |x| < 10^%d" % (x, method, r, decade_of(a), decade_of(a) + 1), case, r,
                              {"method": method})
                    if near:
                        continue
                if isinstance(r, float):
                    terms.append("(O%s, %s, %s)" % (method.capitalize(), flit(x), obsv(r)))
                    meta.append(case)
        bad = run.coq_cases("utils_OoM", UIMPORTS, "", terms, "check_oom", shard=300)
        if bad is None:
            run.proof_ok = False
        else:
            for i in bad[:8]:
                run.corr_failures.append({"stream": "utils_OoM", "case": meta[i]})
    # ---------------- RoundToSigFigs
    if only in (None, "RoundToSigFigs"):
        xs = [x for x in gen_magnitudes(rng, n) if abs(x) > 1e-300 or x == 0.0]
        terms, meta = [], []
        for p in (1, 2, 3, 4, 6):
            arr = np.array(xs)
            try:
                with np.errstate(all="ignore"):
                    res = U.RoundToSigFigs(arr.copy(), p)
                    res2 = U.RoundToSigFigs(np.array(res, dtype=float), p)
            except Exception as e:  # noqa
                uviol(run, "RoundToSigFigs", "raised", "raised %s" % type(e).__name__, {"fn": "RoundToSigFigs", "p": p})
                continue
            for x, r, r2 in zip(xs, res, res2):
                r, r2 = canon(r), canon(r2)
                run.count(("RoundToSigFigs", p, repr(x)))
                case = {"fn": "RoundToSigFigs", "x": repr(float(x)), "p": p}
                if not isinstance(r, float):
                    uviol(run, "RoundToSigFigs", "non-finite result", "RoundToSigFigs(%r, %d) = %r" % (x, p, r), case, r)
                    continue
                if x == 0.0:
                    if r != 0.0:
                        uviol(run, "RoundToSigFigs", "zero", "RoundToSigFigs(0, %d) = %r" % (p, r), case, r)
                    terms.append("(%s, %s, %s)" % (flit(x), zlit(p), obsv(r)))
                    meta.append(case)
                    continue
                fx, fr_ = Fr(float(x)), Fr(r)
                a = abs(fx)
                kf, kr = oom_true(x, "floor"), oom_true(x, "round")
                m = Fr(10) ** (p - 1 - kr)
                y = fx * m
                dist_half = abs(abs(y - (y.numerator // y.denominator)) - Fr(1, 2))
                tie_risk = dist_half < Fr(1, 10**6) and not (dist_half == 0 and m >= 1)   # x*mags is rounded before np.round sees it
                near = near_decade(a, half=True)
                # as coded: a multiple of 1/mags within half of it
                q = fr_ * m
                if not near and not tie_risk:
                    if abs(q - round(q)) > Fr(1, 10**6) or abs(fr_ - fx) > (Fr(1, 2) + Fr(1, 10**6)) / m:
                        uviol(run, "RoundToSigFigs", "not the nearest multiple of the unit of the last kept digit",
                              "RoundToSigFigs(%r, %d) = %r, unit %s" % (x, p, r, float(1 / m)), case, r)
                    terms.append("(%s, %s, %s)" % (flit(x), zlit(p), obsv(r)))
                    meta.append(case)
                # observation only (not part of C16's statement; the pinned test_RoundToSigFigs asserts the coded behaviour):
                # the docstring's reading "p significant figures, idempotent" against what the code does
                unit = Fr(10) ** (kf - p + 1)
                if not near:
                    run.dist("RoundToSigFigs vs docstring reading",
                             "p figures" if abs(fr_ - fx) <= unit / 2 * (1 + Fr(1, 10**9)) else
                             "p-1 figures (mantissa >= sqrt(10))" if kr != kf else "p-1 figures (mantissa < sqrt(10))")
                    run.dist("RoundToSigFigs applied twice",
                             "same value" if isinstance(r2, float) and abs(r2 - r) <= 1e-12 * abs(r) else "changes (value lies across sqrt(10)*10^k)")
        bad = run.coq_cases("utils_RoundToSigFigs", UIMPORTS, "", terms, "check_round_sig", shard=300)
        if bad is None:
            run.proof_ok = False
        else:
            for i in bad[:8]:
                run.corr_failures.append({"stream": "utils_RoundToSigFigs", "case": meta[i],
                                          "model": run.coq_eval(UIMPORTS, "", "round_sig (q_of_float %s) %s" % (flit(float(meta[i]["x"])), zlit(meta[i]["p"])))[-200:]})
    # ---------------- np_clip
    if only in (None, "np_clip"):
        f = clip_fn()
        terms, meta = [], []
        for _ in range(max(6, n // 6)):
            lo = rng.randint(-40, 40) / 4.0
            hi = lo + rng.choice([0.0, 0.25, 3.0, 50.0, -1.0, -0.25])
            vals = [rng.randint(-200, 200) / 4.0 for _ in range(8)] + [lo, hi, lo - 0.25, hi + 0.25, float("nan"), float("inf"), -float("inf"), 0.0]
            out = [canon(v) for v in f(np.array(vals), lo, hi)]
            for x, r in zip(vals, out):
                run.count(("clip", repr(x), lo, hi))
                case = {"fn": "np_clip", "x": repr(x), "lo": lo, "hi": hi}
                if x != x:
                    want = "nan"
                elif lo <= hi:
                    want = canon(min(max(x, lo), hi))
                else:
                    want = None           # a_min > a_max: no documented meaning; the model follows the code
                if want is not None and r != want:
                    uviol(run, "np_clip", "not min(max(x, a_min), a_max)", "clip(%r, %r, %r) = %r" % (x, lo, hi, r), case, r)
                if abs(x) != float("inf"):
                    terms.append("(%s, %s, %s, %s)" % ("nan" if x != x else flit(x), flit(lo), flit(hi), obsv(r)))
                    meta.append(case)
        bad = run.coq_cases("utils_np_clip", UIMPORTS, "", terms, "check_clip", shard=400)
        if bad is None:
            run.proof_ok = False
        else:
            for i in bad[:8]:
                run.corr_failures.append({"stream": "utils_np_clip", "case": meta[i]})
    # ---------------- fast_std
    if only in (None, "fast_std"):
        terms, meta = [], []
        for k in range(max(10, n)):
            K = rng.choice([0, 2, 5])
            den = 2 ** K
            nn = rng.choice([2, 3, 5, 8, 20, 40])
            xs = [rng.randint(-300, 3000) for _ in range(nn)]
            wkind = rng.choice(["none", "scalar", "equal", "normalised", "raw", "nearly_equal"])
            mean = rng.choice([None, None, rng.randint(-300, 3000)])
            wden, ws = 1, None
            if wkind == "scalar":
                warg, ws = float(rng.choice([1, 2.5])), None
            elif wkind == "equal":
                ws, wden = [3] * nn, 4
            elif wkind == "normalised":
                wden = 2 ** 10
                cuts = sorted(rng.sample(range(1, wden), nn - 1))
                ws = [b - a for a, b in zip([0] + cuts, cuts + [wden])]
            elif wkind == "raw":
                ws, wden = [rng.randint(1, 9) for _ in range(nn)], rng.choice([1, 2])
            elif wkind == "nearly_equal":
                wden = 2 ** 40
                ws = [wden // 2 + rng.randint(0, 2000) for _ in range(nn)]       # |w_i - w_0| < 1e-8
            x = np.array([v / den for v in xs], dtype=float)
            if wkind == "none":
                warg = None
            elif wkind != "scalar":
                warg = np.array([w / wden for w in ws], dtype=float)
            try:
                with np.errstate(all="ignore"):
                    r = canon(U.fast_std(x.copy(), None if warg is None else (warg if isinstance(warg, float) else warg.copy()),
                                         None if mean is None else mean / den))
            except Exception as e:  # noqa
                r = "raise"
            run.count(("fast_std", k, wkind, mean is None))
            run.dist("fast_std weights", wkind)
            case = {"fn": "fast_std", "den": den, "x": xs, "weights": wkind, "w": ws, "wden": wden, "mean": mean}
            X = [Fr(v, den) for v in xs]
            W = None if ws is None else [Fr(w, wden) for w in ws]
            unweighted = W is None or len(W) == 1 or all(abs(w - W[0]) <= Fr(1, 10**8) for w in W)
            if unweighted:
                mu = sum(X) / nn if mean is None else Fr(mean, den)
                var = sum((v - mu) ** 2 for v in X) / nn
            else:
                mu = sum(w * v for w, v in zip(W, X)) / sum(W) if mean is None else Fr(mean, den)
                sw = sum(W)
                Wn = [w / sw for w in W] if (sw < 1 - Fr(1, 10**6) or sw > 1 + Fr(1, 10**6)) else W
                var = sum(w * (v - mu) ** 2 for w, v in zip(Wn, X)) / (1 - Fr(1, nn))
            if not isinstance(r, float) or r < 0 or not close(Fr(r) ** 2, var):
                uviol(run, "fast_std", "not the root of the variance", "fast_std = %r, sqrt(variance) = %.12g (%s weights, mean %s)" % (
                    r, float(fsqrt(var)), wkind, "given" if mean is not None else "computed"), case, r, {"weights": "unweighted" if unweighted else "weighted"})
            if isinstance(r, float):
                terms.append("{| fc_den := %d%%positive; fc_x := %s; fc_w := %s; fc_wden := %d%%positive; fc_mean := %s; fc_exp := %s |}" % (
                    den, coq_list([zlit(v) for v in xs]), "None" if ws is None else "(Some %s)" % coq_list([zlit(w) for w in ws]), wden,
                    "None" if mean is None else "(Some %s)" % zlit(mean), obsv(r)))
                meta.append(case)
        bad = run.coq_cases("utils_fast_std", UIMPORTS, "", terms, "check_fast_std", shard=200)
        if bad is None:
            run.proof_ok = False
        else:
            for i in bad[:8]:
                run.corr_failures.append({"stream": "utils_fast_std", "case": meta[i]})
    # ---------------- median_absolute_deviation
    if only in (None, "median_absolute_deviation"):
        terms, meta = [], []
        kq = Fr(float(U.MAD_k))
        for k in range(max(10, n)):
            den = 2 ** rng.choice([0, 3])
            nn = rng.choice([1, 2, 3, 4, 5, 9, 20, 41])
            xs = [rng.choice([rng.randint(-50, 50), rng.randint(-5000, 5000), 7]) for _ in range(nn)]
            mu = rng.choice([None, None, rng.randint(-60, 60)])
            r = canon(U.median_absolute_deviation(np.array([v / den for v in xs], dtype=float), None if mu is None else mu / den))
            run.count(("mad", k))
            case = {"fn": "median_absolute_deviation", "den": den, "x": xs, "median": mu}
            X = [Fr(v, den) for v in xs]
            m0 = Textbook.quantile(X, Fr(1, 2)) if mu is None else Fr(mu, den)
            want = kq * Textbook.quantile([abs(v - m0) for v in X], Fr(1, 2))
            if not isinstance(r, float) or not close(Fr(r), want, max(abs(v) for v in X) + abs(m0)):
                uviol(run, "median_absolute_deviation", "not MAD_k * median(|x - median|)", "reported %r, textbook %.12g" % (r, float(want)), case, r)
            if isinstance(r, float):
                terms.append("{| mc_den := %d%%positive; mc_x := %s; mc_mu := %s; mc_k := %s; mc_exp := %s |}" % (
                    den, coq_list([zlit(v) for v in xs]), "None" if mu is None else "(Some %s)" % zlit(mu), flit(U.MAD_k), obsv(r)))
                meta.append(case)
        bad = run.coq_cases("utils_mad", UIMPORTS, "", terms, "check_mad", shard=300)
        if bad is None:
            run.proof_ok = False
        else:
            for i in bad[:8]:
                run.corr_failures.append({"stream": "utils_mad", "case": meta[i]})
    # ---------------- t_stat / unc_factor plumbing (scipy's t.ppf replaced by a recorder)
    if only in (None, "t_stat", "unc_factor"):
        real = U.t_dist
        rec = []

        class Recorder:
            @staticmethod
            def ppf(q, df, loc=0, scale=1):
                rec.append((float(q), float(df), float(loc), float(scale)))
                return Recorder.value
        tterms, uterms, tmeta, umeta = [], [], [], []
        try:
            U.t_dist = Recorder
            for k in range(max(10, n // 2)):
                alpha = rng.choice([0.1, 0.05, 0.01, 0.32, 0.5, 0.2])
                nsz = rng.choice([2, 3, 10, 100, 365, 8760])
                tail = rng.choice([1, 2, 2, "one", "two", 3, "both"])
                Recorder.value = rng.choice([1.75, 2.0, 0.5, -1.25, 12.0])
                del rec[:]
                try:
                    got = canon(U.t_stat(alpha, nsz, tail=tail))
                    args = rec[-1]
                except UnboundLocalError:
                    got, args = "raise", None
                run.count(("t_stat", alpha, nsz, str(tail)))
                case = {"fn": "t_stat", "alpha": alpha, "n": nsz, "tail": tail}
                tnum = 1 if tail in (1, "one") else 2 if tail in (2, "two") else 3
                if tnum == 3:
                    if got != "raise":
                        uviol(run, "t_stat", "unknown tail accepted", "t_stat(tail=%r) returned %r" % (tail, got), case, got)
                else:
                    perc = 1 - Fr(alpha) if tnum == 1 else 1 - Fr(alpha) / 2
                    if args is None or not close(Fr(args[0]), perc) or args[1] != nsz - 1 or args[2:] != (0.0, 1.0) or got != Recorder.value:
                        uviol(run, "t_stat", "wrong quantile request", "t_stat(%r, %r, tail=%r) asked t.ppf%r, expected (%s, %d, 0, 1)" % (
                            alpha, nsz, tail, args, float(perc), nsz - 1), case, args)
                tterms.append("(%s, %s, %s, %s, %s)" % (flit(alpha), zlit(nsz), zlit(tnum), obsv("raise" if args is None else args[0]),
                                                         obsv(None if args is None else args[1])))
                tmeta.append(case)
                # unc_factor with the default alpha
                itv = rng.choice(["CI", "PI", "PI", "XX"])
                del rec[:]
                u = canon(U.unc_factor(nsz, interval=itv, alpha=alpha))
                run.count(("unc_factor", alpha, nsz, itv, Recorder.value))
                ucase = {"fn": "unc_factor", "alpha": alpha, "n": nsz, "interval": itv, "t": Recorder.value}
                t = Fr(Recorder.value)
                if itv == "XX":
                    if u is not None:
                        uviol(run, "unc_factor", "unknown interval accepted", "unc_factor(interval='XX') = %r" % (u,), ucase, u)
                else:
                    base = Fr(0) if itv == "CI" else t
                    ok = isinstance(u, float) and close((Fr(u) - base) ** 2 * nsz, t * t, 0) and ((Fr(u) - base > 0) == (t > 0)) \
                        and rec and close(Fr(rec[-1][0]), 1 - Fr(alpha) / 2) and rec[-1][1] == nsz - 1
                    if not ok:
                        uviol(run, "unc_factor", "wrong factor", "unc_factor(%d, %s) = %r with t = %r" % (nsz, itv, u, Recorder.value), ucase, u,
                              {"interval": itv})
                uterms.append("(%s, %s, %s, %s)" % (flit(Recorder.value), zlit(nsz), {"CI": "CI", "PI": "PI"}.get(itv, "OtherInterval"), obsv(u)))
                umeta.append(ucase)
        finally:
            U.t_dist = real
        for name, terms, meta, fn in (("utils_t_stat", tterms, tmeta, "check_t_args"), ("utils_unc_factor", uterms, umeta, "check_unc")):
            bad = run.coq_cases(name, UIMPORTS, "", terms, fn, shard=400)
            if bad is None:
                run.proof_ok = False
            else:
                for i in bad[:8]:
                    run.corr_failures.append({"stream": name, "case": meta[i]})


SCALE = float(os.environ.get("C16_SCALE", "1"))      # development aid: shrink the generated volume


def cnt(run, quick, thorough):
    return max(8, int(run.n(quick, thorough) * SCALE))


def phase(run, name):
    t = os.times()
    run.log("%s (cpu so far: %.0f s incl. children)" % (name, t[0] + t[1] + t[2] + t[3]))


def main():
    run = Run("C16")
    run.cov["rule"] = (
        "series of (observed, predicted) dyadic rationals (<= 20 significant bits, exact in binary64): 15 kinds (usage, constant, "
        "zero-mean, tiny-mean, negative net-metered, perfect fit, ties, alternating / trending / constant residuals, flat IQR, "
        "small residual over a non-positive mean), length 1..2000, NaN/+-inf cells with density 0/0.05/0.3/1, num_model_params "
        "from 1 to n+2; _safe_divide on a grid around 0, min_denominator and 10*min_denominator plus random triples, Python and "
        "numpy scalars; gate thresholds default / just above / just below the reported ratios / zero / negative / huge; "
        "ReportingMetrics over hourly / daily / billing indexes in UTC, negative- and positive-offset zones with and without DST "
        "and naive, mostly starting at local midnight on the 1st of a month (M = distinct local calendar months); "
        "stubbed hourly and daily/billing fits; a few real fits. distinct = hash of (series, parameters); non-trivial = at "
        "least two finite pairs")
    run.assumptions += [
        "theorems are over exact rationals; the code computes in binary64: inputs of the correspondence are dyadic so that sums are "
        "exact, values are compared within 1e-9 relative (roots compared squared)",
        "the lag-1 autocorrelation is Pearson's r of successive residual pairs (pandas Series.autocorr); n' is validated by solving "
        "n' = n(1-rho)/(1+rho) for rho and comparing rho^2 and its sign with the model",
        "scipy.stats.t.ppf (t_stat), pandas skew/kurtosis and the constant MAD_k are not modelled (inputs / not claimed)",
        "the index of the frame is unique (Series.autocorr aligns on it)",
        "correspondence is sampled: agreement is established on the cases run",
    ]
    run.cov["trusted_base"] += ["harness/c16.py (generators, adapters, canonicalisation, Textbook oracle in Python fractions)",
                                "harness/translate_metrics.py (python ast over metrics.py / daily model.py: numeric literals and the operands of _safe_divide calls)",
                                "pandas / numpy semantics (isfinite filter, var(ddof=0), quantile 'linear', corr, autocorr) re-specified in Model/Metrics.v"]
    # step 0: the constants and the ratio table the source holds (fail-closed ast translator)
    try:
        import translate_metrics
        gen_text = translate_metrics.generate(run)
        run.cov["translated"] = [ln for ln in gen_text.split("\n") if ln.startswith("Definition gen_")][:40]
    except Exception as e:  # noqa
        run.proof_ok = False
        run.proof_log += "translate_metrics failed: %s: %s" % (type(e).__name__, e)
        run.log("TRANSLATOR FAILED: %s: %s" % (type(e).__name__, e))
    ok0 = run.proof_ok
    run.check_proofs("Properties/C16.v", ["Proofs/MetricsProofs.v", "Proofs/MetricsRealProofs.v", "Proofs/MetricsQuantileProofs.v",
                                          "Proofs/MetricsUtilsProofs.v", "Proofs/MetricsReportProofs.v"],
                     generated=["Generated/MetricsGen.v"])
    run.proof_ok = run.proof_ok and ok0
    run.ensure_models(["Model/MetricsRun.v", "Model/MetricsUtilsRun.v", "Model/MetricsReportRun.v", "Model/CasesLib.v"])
    pol, wit = probe_policy()
    run.cov["division_policy"] = {"modelled_as": pol, "witnesses": {"_safe_divide(-5,-1)": wit[0], "_safe_divide(-5,0.0005)": wit[1],
                                                                   "_safe_divide(0.005,0)": wit[2]}}
    phase(run, "proofs checked; _safe_divide behaves as policy %s" % pol)
    if run.replay:
        rep = json.load(open(run.replay))
        replay(run, rep["case"])
        run.finish()
    corpus = corpus_cases()
    stream_safe_divide(run)
    phase(run, "safe_divide done")
    stream_utils(run)
    phase(run, "utils done")
    # data objects first, then the worker pool (workers inherit them)
    hourly_data_object()
    daily_data_object(False)
    daily_data_object(True)
    rng = run.rng

    def series(n, kind_index=lambda k: k):
        out = []
        for k in range(n):
            c = gen_series(rng, kind_index(k))
            c["seed"] = rng.randrange(2 ** 62)
            out.append(c)
        return out
    def batches(total, size=3000):
        while total > 0:
            yield min(size, total)
            total -= size
    handles = start_fits(run) if run.quick() else None
    first = True
    for b in batches(cnt(run, 800, 12000)):
        stream_baseline(run, (list(corpus.get("baseline", [])) if first else []) + series(b))
        first = False
    phase(run, "baseline + gate done")
    first = True
    for b in batches(cnt(run, 160, 2000)):
        stream_hourly_stub(run, (list(corpus.get("hourly_stub", [])) if first else []) + series(b))
        first = False
    phase(run, "hourly stub done")
    for b in batches(cnt(run, 160, 2000)):
        stream_daily_stub(run, [gen_daily(rng, k) for k in range(b)])
    phase(run, "daily stub done")
    for b in batches(cnt(run, 150, 2000)):
        # mostly ordinary baselines here (the uncertainty needs a defined cvrmse_autocorr_adj and n' > 0)
        stream_reporting(run, series(b, lambda k: rng.choice([0, 1, 2, 0, 1, 2, 6, 8, 100])))
    phase(run, "reporting done")
    stream_fits(run, handles=handles)
    phase(run, "fits done")
    if _POOL[0] is not None:
        _POOL[0].close()
        _POOL[0].terminate()
        _POOL[0] = None
    run.finish()


def replay(run, c):
    s = c.get("stream")
    if s == "safe_divide":
        num, den, mn = Fr(c["num"]), Fr(c["den"]), Fr(c["mn"])
        o = run_safe_divide(num, den, mn, c.get("numpy", False))
        dc = den_class(den, mn)
        if (dc != "safe" and o is not None) or (dc == "safe" and (o is None or isinstance(o, str) or not close(Fr(o), num / den))):
            run.violation({"defect": "ratio reported for a denominator that is not safely positive" if dc != "safe" else
                           "statistic differs from the textbook formula", "denominator": dc,
                           "numerator": ">10*min_denominator" if num > 10 * mn else "<=10*min_denominator", "field": "_safe_divide"},
                          "C16 _safe_divide(%s, %s, %s) -> %r" % (float(num), float(den), float(mn), o), case=c, observation=o)
    elif s in ("baseline", "gate"):
        stream_baseline(run, [c["case"]])
    elif s == "hourly_stub":
        stream_hourly_stub(run, [c["case"]])
    elif s == "daily_stub":
        stream_daily_stub(run, [c["case"]])
    elif s == "reporting":
        stream_reporting(run, [c["case"]])
    elif s == "utils":
        stream_utils(run, only=c.get("fn"))
    elif s == "hourly_fit":
        stream_fits(run, hjobs=[tuple(c["job"])], djobs=[])
    elif s == "daily_fit":
        stream_fits(run, hjobs=[], djobs=[tuple(c["job"])])


if __name__ == "__main__":
    vlib.run_main(main, "C16")
