"""Translator for C18: CalTRACK hourly segment-weight tables and the month -> prediction-segment map.

Reads (through Python `ast`, never by importing the package) the literals of
  opendsm/eemeter/models/hourly_caltrack/segmentation.py   _segment_weights_* and the dispatcher of segment_time_series
  opendsm/eemeter/models/hourly_caltrack/model.py          _PredictionSegmentInfo
  opendsm/eemeter/models/hourly_caltrack/wrapper.py        HourlyModel.segment_type, month_dict, model_month_dict
  opendsm/eemeter/common/features.py                       fit_temperature_bins(default_bins=[...], min_temperature_count=...),
                                                           estimate_hour_of_week_occupancy(threshold=...)
under vlib.repo_root() and writes coq/Generated/CalTrackTables.v.

Fail-closed: any shape that is not recognised raises TranslatorError (the check reports a broken tie).
What is translated is the *declarative* content (names, months, weights, defaults, column order, map); the meaning of
the three one-line expressions that consume it (`index.month == n`, `i in months`, `weights.get(str(i), default)`)
is fixed in Model/CalTrack.v and validated by the correspondence on every hour of two years.
"""
import ast
import os
from fractions import Fraction

import vlib

SEG_PY = "opendsm/eemeter/models/hourly_caltrack/segmentation.py"
MODEL_PY = "opendsm/eemeter/models/hourly_caltrack/model.py"
WRAP_PY = "opendsm/eemeter/models/hourly_caltrack/wrapper.py"
FEAT_PY = "opendsm/eemeter/common/features.py"
OUT = "Generated/CalTrackTables.v"


class TranslatorError(Exception):
    pass


def _need(cond, msg):
    if not cond:
        raise TranslatorError(msg)


def _parse(rel):
    p = os.path.join(vlib.repo_root(), rel)
    _need(os.path.exists(p), "source file missing: " + p)
    return ast.parse(open(p).read(), filename=p)


def _func(tree, name):
    found = [n for n in ast.walk(tree) if isinstance(n, ast.FunctionDef) and n.name == name]
    _need(len(found) == 1, "expected exactly one def %s, found %d" % (name, len(found)))
    return found[0]


def _frac(x, where):
    _need(isinstance(x, (int, float)) and not isinstance(x, bool), "weight is not a number in %s: %r" % (where, x))
    _need(x == x and x not in (float("inf"), float("-inf")), "non-finite weight in %s" % where)
    return Fraction(x)


def _dataframe_call(fn):
    """the single `return pd.DataFrame(...)` of a weight function"""
    rets = [n for n in ast.walk(fn) if isinstance(n, ast.Return)]
    _need(len(rets) == 1, "%s: expected a single return" % fn.name)
    call = rets[0].value
    _need(isinstance(call, ast.Call) and isinstance(call.func, ast.Attribute) and call.func.attr == "DataFrame",
          "%s: return value is not a DataFrame(...) call" % fn.name)
    _need(len(call.args) >= 1, "%s: DataFrame without data" % fn.name)
    kw = {k.arg: k.value for k in call.keywords}
    _need(set(kw) <= {"index", "columns"}, "%s: unexpected DataFrame keywords %s" % (fn.name, sorted(kw)))
    _need("index" in kw and isinstance(kw["index"], ast.Name) and kw["index"].id == fn.args.args[0].arg,
          "%s: DataFrame index is not the function argument" % fn.name)
    return call.args[0], kw


def _columns(kw, fn, names):
    """DataFrame(columns=[...]) selects and orders; a listed column without data would be all-NaN"""
    if "columns" not in kw:
        return list(names)
    cols = ast.literal_eval(kw["columns"])
    _need(isinstance(cols, list) and all(isinstance(c, str) for c in cols), "%s: columns is not a list of strings" % fn.name)
    _need(len(set(cols)) == len(cols), "%s: duplicated column" % fn.name)
    for c in cols:
        _need(c in names, "%s: column %r has no weights (would be NaN)" % (fn.name, c))
    return cols


def _comprehension(fn, data):
    _need(isinstance(data, ast.DictComp) and len(data.generators) == 1, "%s: data is not a one-generator dict comprehension" % fn.name)
    gen = data.generators[0]
    _need(not gen.ifs and isinstance(gen.target, ast.Tuple) and len(gen.target.elts) == 2
          and all(isinstance(e, ast.Name) for e in gen.target.elts), "%s: unexpected comprehension target" % fn.name)
    kname, vname = gen.target.elts[0].id, gen.target.elts[1].id
    _need(isinstance(data.key, ast.Name) and data.key.id == kname, "%s: comprehension key is not the segment name" % fn.name)
    items = ast.literal_eval(gen.iter)
    _need(isinstance(items, list) and all(isinstance(t, tuple) and len(t) == 2 and isinstance(t[0], str) for t in items),
          "%s: comprehension does not iterate over a literal list of (name, ...) pairs" % fn.name)
    return dict(items), vname, data.value      # dict(): a repeated name keeps its last entry, as the comprehension does


def _uses(expr, name):
    return any(isinstance(n, ast.Name) and n.id == name for n in ast.walk(expr))


def _astype_float(fn, expr):
    ok = any(isinstance(n, ast.Call) and isinstance(n.func, ast.Attribute) and n.func.attr == "astype"
             and len(n.args) == 1 and isinstance(n.args[0], ast.Name) and n.args[0].id == "float" for n in ast.walk(expr))
    _need(ok, "%s: weights are not cast with .astype(float)" % fn.name)


def _month_attr(fn, expr):
    ok = any(isinstance(n, ast.Attribute) and n.attr == "month" and isinstance(n.value, ast.Name)
             and n.value.id == fn.args.args[0].arg for n in ast.walk(expr))
    _need(ok, "%s: weights are not computed from index.month" % fn.name)


def table_single(tree):
    fn = _func(tree, "_segment_weights_single")
    data, kw = _dataframe_call(fn)
    d = ast.literal_eval(data)
    _need(isinstance(d, dict) and all(isinstance(k, str) for k in d), "_segment_weights_single: data is not a literal dict")
    cols = _columns(kw, fn, list(d))
    return [(c, [], _frac(d[c], "single/" + c)) for c in cols]


def table_one_month(tree):
    fn = _func(tree, "_segment_weights_one_month")
    data, kw = _dataframe_call(fn)
    items, vname, value = _comprehension(fn, data)
    cmps = [n for n in ast.walk(value) if isinstance(n, ast.Compare)]
    _need(len(cmps) == 1 and len(cmps[0].ops) == 1 and isinstance(cmps[0].ops[0], ast.Eq) and _uses(cmps[0], vname),
          "_segment_weights_one_month: expected `index.month == month_number`")
    _month_attr(fn, value)
    _astype_float(fn, value)
    cols = _columns(kw, fn, list(items))
    out = []
    for c in cols:
        m = items[c]
        _need(isinstance(m, int) and not isinstance(m, bool), "one_month/%s: month is not an int" % c)
        out.append((c, [(m, Fraction(1))], Fraction(0)))
    return out


def table_three_month(tree):
    fn = _func(tree, "_segment_weights_three_month")
    data, kw = _dataframe_call(fn)
    items, vname, value = _comprehension(fn, data)
    cmps = [n for n in ast.walk(value) if isinstance(n, ast.Compare)]
    _need(len(cmps) == 1 and len(cmps[0].ops) == 1 and isinstance(cmps[0].ops[0], ast.In) and _uses(cmps[0], vname),
          "_segment_weights_three_month: expected `i in month_numbers`")
    _month_attr(fn, value)
    _astype_float(fn, value)
    cols = _columns(kw, fn, list(items))
    out = []
    for c in cols:
        ms = items[c]
        _need(isinstance(ms, (tuple, list)) and all(isinstance(m, int) and not isinstance(m, bool) for m in ms),
              "three_month/%s: months are not a tuple of ints" % c)
        out.append((c, [(m, Fraction(1)) for m in ms], Fraction(0)))
    return out


def table_three_month_weighted(tree):
    fn = _func(tree, "_segment_weights_three_month_weighted")
    data, kw = _dataframe_call(fn)
    items, vname, value = _comprehension(fn, data)
    gets = [n for n in ast.walk(value) if isinstance(n, ast.Call) and isinstance(n.func, ast.Attribute)
            and n.func.attr == "get" and isinstance(n.func.value, ast.Name) and n.func.value.id == vname]
    _need(len(gets) == 1 and len(gets[0].args) == 2 and not gets[0].keywords,
          "_segment_weights_three_month_weighted: expected one `month_weights.get(str(i), default)`")
    key, dflt = gets[0].args
    _need(isinstance(key, ast.Call) and isinstance(key.func, ast.Name) and key.func.id == "str" and len(key.args) == 1,
          "_segment_weights_three_month_weighted: lookup key is not str(i)")
    default = _frac(ast.literal_eval(dflt), "three_month_weighted default")
    _month_attr(fn, value)
    _astype_float(fn, value)
    cols = _columns(kw, fn, list(items))
    out = []
    for c in cols:
        d = items[c]
        _need(isinstance(d, dict), "three_month_weighted/%s: weights are not a dict" % c)
        ent = []
        for k, w in d.items():
            _need(isinstance(k, str) and k.isdigit() and str(int(k)) == k,
                  "three_month_weighted/%s: key %r is not the decimal string of a month" % (c, k))
            ent.append((int(k), _frac(w, "three_month_weighted/%s/%s" % (c, k))))
        out.append((c, ent, default))
    return out


TABLE_FUNCS = {
    "_segment_weights_single": table_single,
    "_segment_weights_one_month": table_one_month,
    "_segment_weights_three_month": table_three_month,
    "_segment_weights_three_month_weighted": table_three_month_weighted,
}


def dispatcher(tree):
    fn = _func(tree, "segment_time_series")
    dicts = [n for n in ast.walk(fn) if isinstance(n, ast.Dict) and n.keys and all(
        isinstance(k, ast.Constant) and isinstance(k.value, str) for k in n.keys) and all(
        isinstance(v, ast.Name) for v in n.values)]
    _need(len(dicts) == 1, "segment_time_series: expected one {type: function} dispatcher dict")
    out = {}
    for k, v in zip(dicts[0].keys, dicts[0].values):
        _need(v.id in TABLE_FUNCS, "segment_time_series: unknown weight function %s" % v.id)
        out[k.value] = v.id      # a repeated key keeps the last, as Python does
    return out


def prediction_info(tree):
    """_PredictionSegmentInfo.__init__: per accepted fit segment type -> (prediction segment type, name mapping or None)"""
    cls = [n for n in ast.walk(tree) if isinstance(n, ast.ClassDef) and n.name == "_PredictionSegmentInfo"]
    _need(len(cls) == 1, "class _PredictionSegmentInfo not found")
    init = [n for n in cls[0].body if isinstance(n, ast.FunctionDef) and n.name == "__init__"]
    _need(len(init) == 1, "_PredictionSegmentInfo.__init__ not found")
    arg = init[0].args.args[1].arg
    info = {}
    accepted = None
    for st in init[0].body:
        if not isinstance(st, ast.If):
            _need(isinstance(st, ast.Expr) and isinstance(st.value, ast.Constant), "_PredictionSegmentInfo: unexpected statement")
            continue
        t = st.test
        _need(isinstance(t, ast.Compare) and len(t.ops) == 1 and isinstance(t.left, ast.Name) and t.left.id == arg
              and not st.orelse, "_PredictionSegmentInfo: unexpected if-test")
        if isinstance(t.ops[0], ast.NotIn):
            _need(len(st.body) == 1 and isinstance(st.body[0], ast.Raise), "_PredictionSegmentInfo: guard does not raise")
            accepted = ast.literal_eval(t.comparators[0])
            continue
        _need(isinstance(t.ops[0], ast.Eq) and isinstance(t.comparators[0], ast.Constant), "_PredictionSegmentInfo: unexpected if-test")
        fit_type = t.comparators[0].value
        ptype, mapping, seen = None, None, set()
        _need(isinstance(st.body[-1], ast.Return) and st.body[-1].value is None, "_PredictionSegmentInfo: branch does not end in return")
        for a in st.body[:-1]:
            _need(isinstance(a, ast.Assign) and len(a.targets) == 1 and isinstance(a.targets[0], ast.Attribute)
                  and isinstance(a.targets[0].value, ast.Name) and a.targets[0].value.id == "self",
                  "_PredictionSegmentInfo: unexpected statement in branch %r" % fit_type)
            name = a.targets[0].attr
            _need(name not in seen, "_PredictionSegmentInfo: %s assigned twice" % name)
            seen.add(name)
            if name == "prediction_segment_type":
                if isinstance(a.value, ast.Name) and a.value.id == arg:
                    ptype = fit_type
                else:
                    ptype = ast.literal_eval(a.value)
                _need(isinstance(ptype, str), "_PredictionSegmentInfo: prediction_segment_type is not a string")
            elif name == "prediction_segment_name_mapping":
                mapping = ast.literal_eval(a.value)
                _need(mapping is None or (isinstance(mapping, dict) and all(
                    isinstance(k, str) and isinstance(v, str) for k, v in mapping.items())),
                      "_PredictionSegmentInfo: mapping is not a dict of strings")
            else:
                raise TranslatorError("_PredictionSegmentInfo: unexpected attribute %s" % name)
        _need(seen == {"prediction_segment_type", "prediction_segment_name_mapping"},
              "_PredictionSegmentInfo: branch %r does not set both attributes" % fit_type)
        _need(fit_type not in info, "_PredictionSegmentInfo: branch %r twice" % fit_type)
        info[fit_type] = (ptype, None if mapping is None else list(mapping.items()))
    _need(accepted is not None and sorted(accepted) == sorted(info), "_PredictionSegmentInfo: accepted types %r != branches %r"
          % (accepted, sorted(info)))
    return info


def wrapper_segment_type(tree):
    cls = [n for n in ast.walk(tree) if isinstance(n, ast.ClassDef) and n.name == "HourlyModel"]
    _need(len(cls) == 1, "wrapper.HourlyModel not found")
    vals = [a.value for a in ast.walk(cls[0]) if isinstance(a, ast.Assign) and len(a.targets) == 1
            and isinstance(a.targets[0], ast.Attribute) and a.targets[0].attr == "segment_type"]
    _need(len(vals) == 1 and isinstance(vals[0], ast.Constant) and isinstance(vals[0].value, str),
          "wrapper.HourlyModel: segment_type is not one string constant")
    return vals[0].value


def default_bins(tree):
    """fit_temperature_bins(..., default_bins=[...]): the candidate endpoints every fitted endpoint list is a sub-list of"""
    fn = _func(tree, "fit_temperature_bins")
    names = [a.arg for a in fn.args.args]
    _need("default_bins" in names, "fit_temperature_bins has no default_bins argument")
    k = names.index("default_bins") - (len(names) - len(fn.args.defaults))
    _need(k >= 0, "fit_temperature_bins: default_bins has no default")
    try:
        vals = ast.literal_eval(fn.args.defaults[k])
    except ValueError:
        raise TranslatorError("fit_temperature_bins: default_bins is not a literal")
    _need(isinstance(vals, (list, tuple)) and len(vals) >= 1, "fit_temperature_bins: default_bins is not a non-empty list")
    out = []
    for v in vals:
        _need(isinstance(v, (int, float)) and not isinstance(v, bool) and v == v and abs(v) < 1e6,
              "fit_temperature_bins: candidate endpoint %r is not a finite number" % (v,))
        out.append(v)
    return out


def _default_of(tree, fname, arg):
    fn = _func(tree, fname)
    names = [a.arg for a in fn.args.args]
    _need(arg in names, "%s has no %s argument" % (fname, arg))
    k = names.index(arg) - (len(names) - len(fn.args.defaults))
    _need(k >= 0, "%s: %s has no default" % (fname, arg))
    try:
        return ast.literal_eval(fn.args.defaults[k])
    except ValueError:
        raise TranslatorError("%s: default of %s is not a literal" % (fname, arg))


def fit_defaults(tree):
    """fit_temperature_bins(min_temperature_count=...) and estimate_hour_of_week_occupancy(threshold=...)"""
    mc = _default_of(tree, "fit_temperature_bins", "min_temperature_count")
    _need(isinstance(mc, int) and not isinstance(mc, bool) and 0 <= mc <= 5000, "min_temperature_count default %r is not a small integer" % (mc,))
    th = _default_of(tree, "estimate_hour_of_week_occupancy", "threshold")
    _need(isinstance(th, (int, float)) and not isinstance(th, bool) and th == th and abs(th) < 1e6,
          "occupancy threshold default %r is not a finite number" % (th,))
    return {"min_temperature_count": mc, "threshold": th}


def wrapper_month_keys(tree):
    """wrapper.py: month_dict (abbreviation -> month number) and the expression that picks, from a fitted segment's name,
    the abbreviation of the month its uncertainty figures are filed under:
        {k.replace(A, B).split(SEP)[I]: k for k in self.model_metrics.keys()}"""
    md = [n for n in tree.body if isinstance(n, ast.Assign) and len(n.targets) == 1 and isinstance(n.targets[0], ast.Name)
          and n.targets[0].id == "month_dict"]
    _need(len(md) == 1, "wrapper.py: expected one module-level month_dict")
    d = ast.literal_eval(md[0].value)
    _need(isinstance(d, dict) and all(isinstance(k, str) and isinstance(v, int) and not isinstance(v, bool) for k, v in d.items()),
          "wrapper.py: month_dict is not a literal {str: int}")
    comps = [n for n in ast.walk(tree) if isinstance(n, ast.Assign) and len(n.targets) == 1 and isinstance(n.targets[0], ast.Name)
             and n.targets[0].id == "model_month_dict"]
    _need(len(comps) == 1 and isinstance(comps[0].value, ast.DictComp), "wrapper.py: expected one model_month_dict = {...} comprehension")
    dc = comps[0].value
    _need(len(dc.generators) == 1 and not dc.generators[0].ifs and isinstance(dc.generators[0].target, ast.Name),
          "wrapper.py: model_month_dict: unexpected comprehension")
    k = dc.generators[0].target.id
    _need(isinstance(dc.value, ast.Name) and dc.value.id == k, "wrapper.py: model_month_dict values are not the segment names")
    it = dc.generators[0].iter
    _need(isinstance(it, ast.Call) and isinstance(it.func, ast.Attribute) and it.func.attr == "keys"
          and isinstance(it.func.value, ast.Attribute) and it.func.value.attr == "model_metrics",
          "wrapper.py: model_month_dict does not iterate over model_metrics.keys()")
    e = dc.key
    ok = (isinstance(e, ast.Subscript) and isinstance(e.slice, ast.Constant) and isinstance(e.slice.value, int)
          and not isinstance(e.slice.value, bool) and e.slice.value >= 0
          and isinstance(e.value, ast.Call) and isinstance(e.value.func, ast.Attribute) and e.value.func.attr == "split"
          and len(e.value.args) == 1 and not e.value.keywords and isinstance(e.value.args[0], ast.Constant)
          and isinstance(e.value.args[0].value, str) and len(e.value.args[0].value) == 1)
    _need(ok, "wrapper.py: model_month_dict key is not <expr>.split(<one character>)[<index>]")
    idx, sep = e.slice.value, e.value.args[0].value
    r = e.value.func.value
    ok = (isinstance(r, ast.Call) and isinstance(r.func, ast.Attribute) and r.func.attr == "replace" and len(r.args) == 2
          and not r.keywords and all(isinstance(a, ast.Constant) and isinstance(a.value, str) for a in r.args)
          and isinstance(r.func.value, ast.Name) and r.func.value.id == k and len(r.args[0].value) >= 1)
    _need(ok, "wrapper.py: model_month_dict key is not k.replace(<str>, <str>).split(...)[...]")
    # the loop that files the figures: month_n = month_dict[month_abbr]; meter_data[meter_data["month"] == month_n];
    # self._autocorr_unc_vars[month_n] = {... self.model_metrics[model_key] ...}
    return {"month_dict": list(d.items()), "replace": (r.args[0].value, r.args[1].value), "sep": sep, "index": idx}


def extract():
    """-> dict with everything the Coq file states (also used by harness/c18.py as the regenerated tables)"""
    seg = _parse(SEG_PY)
    disp = dispatcher(seg)
    tables = {fname: f(seg) for fname, f in TABLE_FUNCS.items()}
    return {
        "dispatch": disp,
        "tables": {typ: tables[fname] for typ, fname in disp.items()},
        "prediction_info": prediction_info(_parse(MODEL_PY)),
        "wrapper_segment_type": wrapper_segment_type(_parse(WRAP_PY)),
        "default_bins": default_bins(_parse(FEAT_PY)),
        "fit_defaults": fit_defaults(_parse(FEAT_PY)),
        "wrapper_month_keys": wrapper_month_keys(_parse(WRAP_PY)),
    }


# ------------------------------------------------------------------ Coq emission

def _seg(s):
    name, ent, dflt = s
    return "(%s, %s, %s)" % (vlib.coq_string(name), vlib.coq_list(["(%s, %s)" % (vlib.zlit(m), vlib.qlit(w)) for m, w in ent]),
                             vlib.qlit(dflt))


def _ident(typ):
    _need(typ.replace("_", "").isalnum(), "segment type %r is not an identifier" % typ)
    return "tbl_" + typ


def render(ex):
    L = ["(* GENERATED on every run by harness/translate_caltrack.py from",
         "     %s (_segment_weights_*, segment_time_series)" % SEG_PY,
         "     %s (_PredictionSegmentInfo)" % MODEL_PY,
         "     %s (HourlyModel.segment_type, month_dict, model_month_dict)" % WRAP_PY,
         "     %s (fit_temperature_bins default_bins / min_temperature_count, occupancy threshold)" % FEAT_PY,
         "   Do not edit. A segment is (name, explicit (month, weight) entries, weight of every other month);",
         "   segments are listed in DataFrame column order. *)",
         "From Coq Require Import ZArith QArith List String Ascii PrimFloat.",
         "Import ListNotations.",
         "",
         "Definition seg : Type := (string * list (Z * Q) * Q)%type.",
         ""]
    for typ in ex["tables"]:
        L.append("Definition %s : list seg := [" % _ident(typ))
        L.append(";\n".join("  " + _seg(s) for s in ex["tables"][typ]))
        L.append("].")
        L.append("")
    L.append("(* segment_time_series: segment type -> weight table *)")
    L.append("Definition segment_tables : list (string * list seg) := %s." % vlib.coq_list(
        ["(%s, %s)" % (vlib.coq_string(t), _ident(t)) for t in ex["tables"]]))
    L.append("")
    L.append("(* _PredictionSegmentInfo: fit segment type -> (segment type used when predicting,")
    L.append("   prediction segment name -> fitted segment name; None = predict with the fitted names) *)")
    rows = []
    for fit, (ptype, mapping) in ex["prediction_info"].items():
        mp = "None" if mapping is None else "(Some %s)" % vlib.coq_list(
            ["(%s, %s)" % (vlib.coq_string(a), vlib.coq_string(b)) for a, b in mapping])
        rows.append("  (%s, (%s, %s))" % (vlib.coq_string(fit), vlib.coq_string(ptype), mp))
    L.append("Definition prediction_info : list (string * (string * option (list (string * string)))) := [")
    L.append(";\n".join(rows))
    L.append("].")
    L.append("")
    L.append("(* the segment type the HourlyModel wrapper fits with *)")
    L.append("Definition wrapper_segment_type : string := %s." % vlib.coq_string(ex["wrapper_segment_type"]))
    L.append("")
    L.append("(* fit_temperature_bins: the candidate bin endpoints (the same numbers as rationals and as binary64) *)")
    L.append("Definition default_bins : list Q := %s." % vlib.coq_list([vlib.qlit(Fraction(v)) for v in ex["default_bins"]]))
    L.append("Definition default_bins_f : list float := %s." % vlib.coq_list([vlib.fhex(float(v)) for v in ex["default_bins"]]))
    L.append("")
    fd = ex["fit_defaults"]
    L.append("(* fit_temperature_bins(min_temperature_count=...), estimate_hour_of_week_occupancy(threshold=...): the defaults the")
    L.append("   wrapper runs with (the threshold is the exact value of the binary64 literal) *)")
    L.append("Definition default_min_temperature_count : nat := %d." % fd["min_temperature_count"])
    L.append("Definition default_occupancy_threshold : Q := %s." % vlib.qlit(Fraction(fd["threshold"])))
    L.append("Definition default_occupancy_threshold_f : float := %s." % vlib.fhex(float(fd["threshold"])))
    L.append("")
    wk = ex["wrapper_month_keys"]
    L.append("(* HourlyModel.fit, uncertainty figures: month_dict, and k.replace(A, B).split(SEP)[I] *)")
    L.append("Definition wrapper_month_dict : list (string * Z) := %s." % vlib.coq_list(
        ["(%s, %s)" % (vlib.coq_string(a), vlib.zlit(n)) for a, n in wk["month_dict"]]))
    L.append("Definition wrapper_key_replace : string * string := (%s, %s)." % (vlib.coq_string(wk["replace"][0]),
                                                                              vlib.coq_string(wk["replace"][1])))
    _need(32 <= ord(wk["sep"]) < 127 and wk["sep"] != '"', "wrapper.py: separator %r is not a plain character" % wk["sep"])
    L.append('Definition wrapper_key_sep : ascii := "%s"%%char.' % wk["sep"])
    L.append("Definition wrapper_key_index : nat := %d." % wk["index"])
    L.append("")
    return "\n".join(L)


def generate(run=None):
    """write coq/Generated/CalTrackTables.v (only when changed); returns the extracted content"""
    ex = extract()
    text = render(ex)
    if run is not None:
        run.write_generated(OUT, text)
    else:
        p = os.path.join(vlib.COQ, OUT)
        os.makedirs(os.path.dirname(p), exist_ok=True)
        with vlib.Lock(True):
            old = open(p).read() if os.path.exists(p) else None
            if old != text:
                tmp = p + ".tmp%d" % os.getpid()
                open(tmp, "w").write(text)
                os.replace(tmp, p)
    return ex


if __name__ == "__main__":
    import json
    print(json.dumps(generate(None), indent=1, default=str)[:3000])
