"""C01 helpers: generators of synthetic daily / billing documents, implementation adapters, the property oracle
(the statement, literally), Gallina emitters.  Everything that runs the implementation is a top-level function of
plain-data arguments so that it can run in a process pool."""
import contextlib
import copy
import io
import json
import logging
import math
import os
import random
import traceback
import warnings

import numpy as np
import pandas as pd

import vlib
from vlib import fhex, zlit, coq_list, coq_string, coq_bool
from translate_c01 import cjson

warnings.simplefilter("ignore")
logging.disable(logging.CRITICAL)

SHAPES = ["hdd_tidd_cdd_smooth", "hdd_tidd_cdd", "hdd_tidd_smooth", "tidd_cdd_smooth", "hdd_tidd", "tidd_cdd", "tidd"]
COQ_SHAPE = {"hdd_tidd_cdd_smooth": "HddTiddCddSmooth", "hdd_tidd_cdd": "HddTiddCdd", "hdd_tidd_smooth": "HddTiddSmooth",
             "tidd_cdd_smooth": "TiddCddSmooth", "hdd_tidd": "HddTidd", "tidd_cdd": "TiddCdd", "tidd": "Tidd"}
CFIELDS = ["hdd_bp", "hdd_beta", "hdd_k", "cdd_bp", "cdd_beta", "cdd_k"]
TCKEYS = ["T_min", "T_max", "T_min_seg", "T_max_seg"]
ZONES = ["US/Pacific", "UTC", "Europe/Berlin", "Australia/Sydney", "America/New_York", "Asia/Kolkata"]
MONTHS = ["january", "february", "march", "april", "may", "june", "july", "august", "september", "october",
          "november", "december"]
DAYS = ["monday", "tuesday", "wednesday", "thursday", "friday", "saturday", "sunday"]
CORNER = "bp_h' == bp_c' >= T_max"


# ----------------------------------------------------------------------------------------------------- time zones
# a zone "spec" is a plain string (so that cases replay): an IANA name (pandas resolves it), or
#   fixed:<minutes>[:<name>]  datetime.timezone        pytz:<name>  pytz         dateutil:<name>  dateutil tzfile
SPECIAL_ZONES = ["fixed:-360", "dateutil:US/Central"]
ALIASES = {"US/Pacific": "America/Los_Angeles", "UTC": "Etc/UTC", "America/New_York": "US/Eastern", "Asia/Kolkata": "Asia/Calcutta",
           "Australia/Sydney": "Australia/NSW", "Europe/Berlin": "Europe/Berlin"}


def tz_of(spec):
    """spec -> what pandas takes as tz (a name or a tzinfo object)"""
    import datetime
    if spec.startswith("fixed:"):
        parts = spec.split(":")
        off = datetime.timedelta(minutes=int(parts[1]))
        return datetime.timezone(off, parts[2]) if len(parts) > 2 else datetime.timezone(off)
    if spec.startswith("pytz:"):
        import pytz
        return pytz.timezone(spec[5:])
    if spec.startswith("dateutil:"):
        import dateutil.tz
        return dateutil.tz.gettz(spec[9:])
    return spec


def tz_text(spec):
    """str() of the tzinfo a frame in that zone carries (what a stored document holds)"""
    return str(pd.Timestamp("2023-01-01", tz=tz_of(spec)).tz)


def tz_variants(spec):
    """reporting zones offered to a model whose baseline zone is `spec`: the same zone through another tz implementation,
    an alias / equal-but-renamed tzinfo, and a different zone.  [(label, spec)]"""
    if spec.startswith("fixed:"):
        mins = spec.split(":")[1]
        return [("equal tzinfo, other name", "fixed:%s:CST" % mins), ("same offset, IANA", "Etc/GMT+6" if mins == "-360" else "UTC"),
                ("different zone", "Asia/Kolkata")]
    if spec.startswith("dateutil:"):
        name = spec[9:]
        alias = {"US/Central": "America/Chicago"}.get(name, name)
        return [("equal tzfile, alias name", "dateutil:" + alias), ("same zone, zoneinfo", name), ("same zone, pytz", "pytz:" + name),
                ("different zone", "Asia/Kolkata")]
    out = [("same zone, pytz", "pytz:" + spec), ("same zone, dateutil", "dateutil:" + spec)]
    if spec == "UTC":
        out.append(("same zone, datetime.timezone.utc", "fixed:0:UTC"))
    if ALIASES.get(spec, spec) != spec:
        out.append(("alias name", ALIASES[spec]))
    out.append(("different zone", "Asia/Kolkata" if spec != "Asia/Kolkata" else "US/Pacific"))
    return out


@contextlib.contextmanager
def quiet():
    with contextlib.redirect_stdout(io.StringIO()):
        yield


def jsonify(obj):
    """python-mode dump (enum members, numpy scalars) -> the JSON-level tree json.dumps/json.loads gives"""
    return json.loads(json.dumps(obj))


# =====================================================================================================
# generator of synthetic daily / billing documents
# =====================================================================================================

def pick_float(rng, lo, hi):
    if rng.random() < 0.5:
        return rng.randrange(int(math.ceil(lo * 4)), int(math.floor(hi * 4)) + 1) / 4.0
    return rng.uniform(lo, hi)


def pick_pct(rng):
    u = rng.random()
    if u < 0.14:
        return 0.0
    if u < 0.24:
        return rng.choice([0.005, 0.0099999, 0.001])          # below min_pct_k
    if u < 0.30:
        return 0.01
    if u < 0.42:
        return 1.0                                             # k sum > 1 together with the other side
    if u < 0.52:
        return rng.choice([0.25, 0.5, 0.75])
    return rng.uniform(0.01, 1.0)


def pick_bp(rng, lo, hi, face=0.12):
    u = rng.random()
    if u < face:
        return lo
    if u < 2 * face:
        return hi
    return pick_float(rng, lo, hi)


def pick_beta(rng):
    u = rng.random()
    if u < 0.08:
        return 0.0
    if u < 0.5:
        return rng.randrange(1, 64) / 8.0
    return rng.uniform(1e-3, 8.0)


def gen_sub(rng, shape, allow_corner):
    t_min = pick_float(rng, -20, 45)
    t_max = pick_float(rng, max(t_min + 10, 55), 110)
    if rng.random() < 0.55:
        t_min_seg, t_max_seg = t_min, t_max
    else:
        t_min_seg, t_max_seg = t_min + pick_float(rng, 0, 4), t_max - pick_float(rng, 0, 4)
    lo, hi = t_min_seg, t_max_seg
    c = {"model_type": shape, "intercept": pick_float(rng, 0, 80) if rng.random() < 0.9 else pick_float(rng, -5, 0)}
    for f in CFIELDS:
        c[f] = None
    if shape in ("hdd_tidd_cdd_smooth", "hdd_tidd_cdd"):
        a, b = pick_bp(rng, lo, hi), pick_bp(rng, lo, hi)
        if rng.random() < 0.12:
            b = a
        c["hdd_bp"], c["cdd_bp"] = min(a, b), max(a, b)
        c["hdd_beta"], c["cdd_beta"] = pick_beta(rng), pick_beta(rng)
        if shape == "hdd_tidd_cdd_smooth":
            c["hdd_k"], c["cdd_k"] = pick_pct(rng), pick_pct(rng)
    elif shape in ("hdd_tidd_smooth", "hdd_tidd"):
        c["hdd_bp"] = pick_bp(rng, lo, hi)
        c["hdd_beta"] = -pick_beta(rng)
        if shape == "hdd_tidd_smooth":
            c["hdd_k"] = rng.choice([0.0, 0.25, 1.0, 2.0, 8.0, rng.uniform(1e-3, 30.0), rng.uniform(1e-3, 30.0)])
    elif shape in ("tidd_cdd_smooth", "tidd_cdd"):
        c["cdd_bp"] = pick_bp(rng, lo, hi)
        c["cdd_beta"] = pick_beta(rng)
        if shape == "tidd_cdd_smooth":
            c["cdd_k"] = rng.choice([0.0, 0.25, 1.0, 2.0, 8.0, rng.uniform(1e-3, 30.0), rng.uniform(1e-3, 30.0)])
    c = {k: (float(v) if isinstance(v, (int, float)) and k != "model_type" else v) for k, v in c.items()}
    sub = {"coefficients": c,
           "temperature_constraints": {"T_min": float(t_min), "T_max": float(t_max), "T_min_seg": float(t_min_seg),
                                       "T_max_seg": float(t_max_seg)},
           "f_unc": float(rng.choice([rng.uniform(0, 10), rng.randrange(0, 40) / 8.0, float("inf"), 0.0]))}
    if not allow_corner and in_corner(sub):
        # move the range end away from the balance point (the corner is a separate, rare, stream)
        sub["temperature_constraints"]["T_max"] = float(t_max + 5)
    return sub


def gen_warning(rng):
    name = rng.choice(["eemeter.sufficiency_criteria.missing_monthly_temperature_data",
                       "eemeter.sufficiency_criteria.too_many_days_with_missing_data",
                       "eemeter.model_fit_metrics.cvrmse", "eemeter.data_quality.utc_index"])
    data = rng.choice([{}, {"CVRMSE": rng.uniform(1, 3)}, {"n_days": rng.randrange(1, 400), "limit": 0.9},
                       {"months": [1, 2, 12]}, [1.5, "x", None], {"nested": {"a": [1, 2.5], "b": None}, "flag": True}])
    return {"qualified_name": name, "description": rng.choice(["too many missing days", "Fit model has CVRMSE > 1.0", ""]),
            "data": data}


SOUTH = {"january": "summer", "february": "summer", "march": "shoulder", "april": "shoulder", "may": "winter",
         "june": "winter", "july": "winter", "august": "winter", "september": "shoulder", "october": "shoulder",
         "november": "summer", "december": "summer"}


def rand_season(rng):
    u = rng.random()
    if u < 0.3:
        return dict(SOUTH)
    if u < 0.5:
        return {rng.choice(MONTHS): rng.choice(["summer", "shoulder", "winter"]) for _ in range(rng.randrange(1, 4))}
    return {m: rng.choice(["summer", "shoulder", "winter"]) for m in MONTHS}


def rand_week(rng):
    return {d: rng.choice(["weekday", "weekend"]) for d in rng.sample(DAYS, rng.randrange(1, 8))}


DEV_OVERRIDES = [
    {"allow_smooth_model": False}, {"segment_minimum_count": 8}, {"alpha_selection": 1.5},
    {"split_selection": {"allow_separate_weekday_weekend": False}}, {"split_selection": {"penalty_power": 3.0}},
    {"regularization_alpha": 0.01}, {"cvrmse_threshold": 0.5}, {"full_model": "c_hdd_tidd"},
    {"split_selection": {"reduce_splits_by_gaussian": False, "reduce_splits_num_std": None}},
    {"maximum_slope_oom_scalar": 3}, {"alpha_final": 1.0},
]


def gen_profile(rng, k):
    """(profile name, class name, constructor base, user settings).  The settings tree of the document is what the
    real constructor of that profile dumps."""
    kinds = ["current", "current-season", "current-weekday", "current-dev", "current-unc", "current-season-weekday",
             "legacy", "legacy-dev", "billing", "billing-season", "billing-dev", "billing-weekday", "legacy-season"]
    # the legacy kinds without developer mode are rejected on reload (finding C01-K1): visited, but rarely
    kind = kinds[k % len(kinds)] if k < len(kinds) else rng.choice(
        kinds[:6] * 2 + kinds[7:12] * 2 + ["legacy", "legacy-season", "current-weekday", "current-season-weekday", "billing-weekday"])
    base = kind.split("-")[0]
    u = {}
    if "season" in kind:
        u["season"] = rand_season(rng)
    if "weekday" in kind:
        u["weekday_weekend"] = rand_week(rng)
    if "dev" in kind:
        u.update(copy.deepcopy(rng.choice(DEV_OVERRIDES)))
        u["developer_mode"] = True
        u["silent_developer_mode"] = True
        if rng.random() < 0.3:
            u["season"] = rand_season(rng)
        if rng.random() < 0.4:
            u["weekday_weekend"] = rand_week(rng)
    if "unc" in kind:
        u["uncertainty_alpha"] = rng.choice([0.05, 0.2, 0.32, 1, 0])
    return kind, base, u


def profile_settings(base, u):
    """the settings tree a model of this profile stores: the real constructor's dump (billing: with the forced flag)"""
    from opendsm.eemeter import BillingModel, DailyModel
    with quiet():
        if base == "billing":
            m = BillingModel(settings=copy.deepcopy(u))
        else:
            m = DailyModel(model=base, settings=copy.deepcopy(u))
    st = jsonify(m.settings.model_dump())
    if base == "billing":
        st["developer_mode"] = True
    return st


TAMPERS = ["drop-keys", "lock", "bad-season", "bad-type", "int-for-float", "out-of-bounds", "unknown-key", "drop-nested",
           "lock-nested", "no-force", "cross-field", "cross-field"]
# the cross-field validators of the settings classes (developer fields: developer mode on); True = must be accepted
CROSS = [({"alpha_final": None}, False), ({"alpha_final": None, "alpha_final_type": None, "final_bounds_scalar": None}, True),
         ({"alpha_final": 3.0}, False), ({"alpha_final": 1.5}, True), ({"alpha_final": -200.0}, False), ({"alpha_final": 2}, True),
         ({"final_bounds_scalar": 0.0}, False), ({"final_bounds_scalar": None}, False), ({"final_bounds_scalar": 2.5}, True),
         ({"initial_step_percentage": 0.75}, False), ({"initial_step_percentage": 0.5}, True), ({"initial_step_percentage": 0.0}, False),
         ({"initial_step_percentage": None}, False), ({"initial_step_percentage": None, "algorithm_choice": "scipy_slsqp"}, True),
         ({"split_selection": {"reduce_splits_num_std": [1.0]}}, False), ({"split_selection": {"reduce_splits_num_std": [1.0, -1.0]}}, False),
         ({"split_selection": {"reduce_splits_num_std": [2.0, 0.5]}}, True), ({"split_selection": {"reduce_splits_num_std": None}}, True),
         ({"alpha_minimum": -50.0, "alpha_final": -60.0}, False), ({"alpha_minimum": -50.0, "alpha_final": -40.0}, True)]


def tamper(rng, st, how):
    """documents no constructor writes: they exercise the settings re-validation of the model (correspondence only)"""
    st = copy.deepcopy(st)
    if how == "drop-keys":
        for k in rng.sample([k for k in st if k not in ("developer_mode",)], rng.randrange(1, 6)):
            del st[k]
    elif how == "lock":
        st["developer_mode"] = False
        st[rng.choice(["segment_minimum_count"])] = 7
    elif how == "lock-nested":
        st["developer_mode"] = False
        st["split_selection"] = dict(st.get("split_selection", {}), penalty_multiplier=0.5)
    elif how == "bad-season":
        st["season"] = dict(st.get("season", {}), **{rng.choice(MONTHS): "monsoon"})
    elif how == "bad-type":
        st[rng.choice(["segment_minimum_count", "allow_smooth_model", "season"])] = "x y"
    elif how == "int-for-float":
        st["uncertainty_alpha"] = rng.choice([0, 1])
    elif how == "out-of-bounds":
        st["uncertainty_alpha"] = rng.choice([1.5, -0.25])
    elif how == "unknown-key":
        st["not_a_setting"] = 3
    elif how == "drop-nested":
        st.pop(rng.choice(["season", "weekday_weekend", "split_selection"]), None)
    elif how == "no-force":
        st["developer_mode"] = False
    elif how == "cross-field":
        upd, _ = rng.choice(CROSS)
        st["developer_mode"] = True
        for k, v in copy.deepcopy(upd).items():
            if isinstance(v, dict):
                st[k] = dict(st.get(k) or {}, **v)
            else:
                st[k] = v
    return st


def cross_cases(rng, splits):
    """one document per entry of CROSS (every run): the cross-field validators, model vs the real settings classes"""
    out = []
    for i, (upd, _) in enumerate(CROSS):
        case = gen_doc(rng, i % 13, splits)                 # k < 26: never tampered by gen_doc itself
        st = case["doc"]["settings"]
        st["developer_mode"] = True
        for k, v in copy.deepcopy(upd).items():
            st[k] = dict(st.get(k) or {}, **v) if isinstance(v, dict) else v
        case["tamper"] = "cross-field"
        out.append(case)
    return out


def gen_doc(rng, k, splits, corner=False):
    kind, base, u = gen_profile(rng, k)
    st = profile_settings(base, u)
    split = splits[k % len(splits)] if k < 2 * len(splits) else rng.choice(splits)
    keys = split.split("__")
    subs = {}
    for j, key in enumerate(keys):
        shape = SHAPES[(k + j) % 7] if k < 140 else rng.choice(SHAPES)
        subs[key] = gen_sub(rng, shape, allow_corner=False)
    if corner:
        key = keys[0]
        s = gen_sub(rng, rng.choice(["hdd_tidd", "hdd_tidd_smooth"]), allow_corner=True)
        tc = s["temperature_constraints"]
        tc["T_max_seg"] = tc["T_max"]
        s["coefficients"]["hdd_bp"] = tc["T_max"]
        if s["coefficients"]["hdd_beta"] == 0:
            s["coefficients"]["hdd_beta"] = -1.5
        subs[key] = s
    zone = rng.choice(ZONES * 2 + SPECIAL_ZONES)
    err = {"wRMSE": rng.uniform(0, 5), "RMSE": rng.uniform(0, 5), "MAE": rng.uniform(0, 5),
           "CVRMSE": rng.choice([rng.uniform(0, 2), float("nan")]), "PNRMSE": rng.uniform(0, 2)}
    doc = {"submodels": subs,
           "info": {"error": err, "baseline_timezone": tz_text(zone),
                    "disqualification": [gen_warning(rng) for _ in range(rng.choice([0, 0, 0, 1, 2]))],
                    "warnings": [gen_warning(rng) for _ in range(rng.choice([0, 1, 1, 2]))]},
           "settings": st}
    case = {"k": k, "profile": kind, "cls": "billing" if base == "billing" else "daily", "doc": doc, "tamper": None,
            "corner": corner, "base": base, "user": u, "zone": zone}
    if not corner and k >= 26 and rng.random() < 0.22:
        how = rng.choice(TAMPERS)
        if how == "no-force" and base != "billing":
            how = "drop-keys"
        case["tamper"] = how
        doc["settings"] = tamper(rng, st, how)
    return case


# =====================================================================================================
# the documented formula, evaluated from the JSON parameters alone (oracle, independent of the package code)
# =====================================================================================================

def eff_vector(sub, uncross=True):
    """(bp_h', beta_h, k_h, bp_c', beta_c, k_c) of a stored sub-model document: balance points shifted by the smoothing
    length, slope magnitudes, a side switched off when its balance point sits on the end of the fitted range"""
    c, tc = sub["coefficients"], sub["temperature_constraints"]
    s = c["model_type"]
    t_min, t_max, lo, hi = tc["T_min"], tc["T_max"], tc["T_min_seg"], tc["T_max_seg"]
    if s in ("hdd_tidd_cdd_smooth", "hdd_tidd_cdd"):
        hbp, cbp, bh, bc = c["hdd_bp"], c["cdd_bp"], c["hdd_beta"], c["cdd_beta"]
        ph, pc = (c["hdd_k"], c["cdd_k"]) if s == "hdd_tidd_cdd_smooth" else (0.0, 0.0)
        if hbp != cbp:
            if cbp >= t_max:
                bc = 0.0
            elif hbp <= t_min:
                bh = 0.0
        if bh == 0:
            ph = 0.0
        if bc == 0:
            pc = 0.0
        if s == "hdd_tidd_cdd":
            return hbp, bh, 0.0, cbp, bc, 0.0
        if ph < 0.01 and pc < 0.01:
            return hbp, bh, 0.0, cbp, bc, 0.0
        tot = ph + pc
        if tot > 1:
            ph, pc = ph / tot, pc / tot
        kh, kc = ph * (cbp - hbp), pc * (cbp - hbp)
        hs, cs = hbp + kh, cbp - kc
        if uncross and hbp <= cbp and cs < hs:
            cs = hs            # the shifted points meet over the reals; rounding must not cross them
        return hs, bh, kh, cs, bc, kc
    if s in ("hdd_tidd_smooth", "hdd_tidd"):
        bp = c["hdd_bp"] if s == "hdd_tidd_smooth" else min(max(c["hdd_bp"], lo), hi)
        k = c["hdd_k"] if s == "hdd_tidd_smooth" and c["hdd_beta"] != 0 else 0.0
        return bp, -c["hdd_beta"], k, bp, 0.0, 0.0
    if s in ("tidd_cdd_smooth", "tidd_cdd"):
        bp = c["cdd_bp"] if s == "tidd_cdd_smooth" else min(max(c["cdd_bp"], lo), hi)
        k = c["cdd_k"] if s == "tidd_cdd_smooth" and c["cdd_beta"] != 0 else 0.0
        return bp, 0.0, 0.0, bp, c["cdd_beta"], k
    return 0.0, 0.0, 0.0, 0.0, 0.0, 0.0


def in_corner(sub):
    hbp, bh, kh, cbp, bc, kc = eff_vector(sub)
    return hbp == cbp and cbp >= sub["temperature_constraints"]["T_max"] and (bh != 0 or bc != 0)


CROSSED = "bp_h' > bp_c' by rounding, sum pct_k >= 1"


def is_crossed(sub):
    """ordered stored balance points whose shifted images cross in binary64 (over the reals they meet exactly when the
    smoothing fractions add up to one or more); the kernel then swaps the two sides"""
    if sub["coefficients"]["model_type"] != "hdd_tidd_cdd_smooth":
        return False
    hbp, bh, kh, cbp, bc, kc = eff_vector(sub, uncross=False)
    return hbp > cbp


def hinge(d, k, ln_min):
    d = max(d, 0.0)
    if k == 0:
        return d
    u = d / k
    return k * (u + math.exp(max(-u, ln_min)) - 1.0)


def closed_form(sub, T, ln_min):
    hbp, bh, kh, cbp, bc, kc = eff_vector(sub)
    H = bh * hinge(hbp - T, kh, ln_min) if bh != 0 else 0.0
    C = bc * hinge(T - cbp, kc, ln_min) if bc != 0 else 0.0
    return sub["coefficients"]["intercept"] + H + C, H, C


def temp_grid(sub, rng):
    """temperatures -60..140 F: far outside the fitted range, the range ends, exactly on / one ulp around every
    (stored and shifted) balance point, two random ones"""
    c, tc = sub["coefficients"], sub["temperature_constraints"]
    pts = {-60.0, 140.0, tc["T_min"], tc["T_max"], tc["T_max"] + 1.0, tc["T_min"] - 1.0, rng.choice([0.0, 32.0, 50.0, 65.0, 80.0, 100.0])}
    hbp, bh, kh, cbp, bc, kc = eff_vector(sub)
    for b in {c["hdd_bp"], c["cdd_bp"], hbp, cbp} - {None}:
        if math.isfinite(b):
            pts.update([b, float(np.nextafter(b, -np.inf)), float(np.nextafter(b, np.inf)), b + rng.choice([-0.5, 0.5, -3.0, 3.0])])
    for _ in range(2):
        pts.add(rng.uniform(-60, 140))
    return sorted(pts)


# =====================================================================================================
# implementation adapters (run inside pool workers)
# =====================================================================================================

_DATA = {}


def daily_data(cls_name, tz):
    """a reporting-data object per (class, zone spec): 120 local days, temperatures -60 ... 140 F incl. two missing"""
    key = (cls_name, tz)
    if key not in _DATA:
        import fitlib
        n = 120
        tz = tz_of(tz)
        idx = pd.date_range("2023-01-01", periods=n, freq="D", tz=tz)
        T = np.linspace(-60.0, 140.0, n)
        T[[7, 51]] = np.nan
        obs = 20.0 + 0.1 * np.arange(n)
        df = pd.DataFrame({"observed": obs, "temperature": T}, index=idx)
        if cls_name == "daily":
            d1 = fitlib.daily_reporting(df)
        else:
            from opendsm.eemeter import BillingReportingData
            d1 = BillingReportingData(df, is_electricity_data=True)
        # a second set spanning a whole year (every month / weekday cell), in-range temperatures
        idx2 = pd.date_range("2022-03-01", periods=400, freq="D", tz=tz)
        T2 = 55 + 25 * np.sin(np.arange(400) / 58.0)
        df2 = pd.DataFrame({"observed": 10.0 + np.arange(400) % 7, "temperature": T2}, index=idx2)
        if cls_name == "daily":
            d2 = fitlib.daily_reporting(df2)
        else:
            from opendsm.eemeter import BillingReportingData
            d2 = BillingReportingData(df2, is_electricity_data=True)
        _DATA[key] = [d1, d2]
    return _DATA[key]


def frame_sig(df):
    """order-sensitive digest of a prediction frame; floats bit-level, every NaN the same NaN (the statement compares
    the NaN pattern, not NaN payload bits)"""
    import fitlib
    df = df.copy()
    for c in df.columns:
        if df[c].dtype.kind == "f":
            x = df[c].to_numpy(copy=True)
            x[np.isnan(x)] = np.nan
            df[c] = x
    return fitlib.frame_digest(df)


def warn_list(ws):
    out = []
    for w in ws or []:
        if isinstance(w, dict):
            out.append({"qualified_name": w.get("qualified_name"), "description": w.get("description"), "data": w.get("data")})
        else:
            out.append({"qualified_name": w.qualified_name, "description": w.description, "data": jsonify(w.data)})
    return out


def first_diff(a, b, path=""):
    """first difference between two JSON-level trees (type-aware: 12 vs 12.0 differ); None if identical"""
    if isinstance(a, float) and isinstance(b, float):
        if (a != a and b != b) or (a == b and math.copysign(1, a) == math.copysign(1, b)):
            return None
        return {"path": path, "a": repr(a), "b": repr(b), "kind": "value"}
    if type(a) is not type(b):
        same_value = isinstance(a, (int, float)) and isinstance(b, (int, float)) and not isinstance(a, bool) \
            and not isinstance(b, bool) and a == b
        return {"path": path, "a": repr(a)[:80], "b": repr(b)[:80], "kind": "number-text" if same_value else "type"}
    if isinstance(a, dict):
        if list(a) != list(b):
            return {"path": path, "a": list(a)[:12], "b": list(b)[:12], "kind": "keys"}
        for k in a:
            d = first_diff(a[k], b[k], path + "/" + str(k))
            if d:
                return d
        return None
    if isinstance(a, list):
        if len(a) != len(b):
            return {"path": path, "a": len(a), "b": len(b), "kind": "length"}
        for i, (x, y) in enumerate(zip(a, b)):
            d = first_diff(x, y, path + "/%d" % i)
            if d:
                return d
        return None
    return None if a == b else {"path": path, "a": repr(a)[:80], "b": repr(b)[:80], "kind": "value"}


def generic_path(p):
    """/submodels/wd-su/coefficients/hdd_bp -> /submodels/*/coefficients/hdd_bp ; list indices -> *"""
    parts = p.split("/")
    out = []
    for i, x in enumerate(parts):
        if x.isdigit() or (i >= 2 and parts[i - 1] in ("submodels", "model_lookup", "unc_vars", "totals_metrics",
                                                        "avgs_metrics", "temperature_edge_bin_coefficients")):
            out.append("*")
        else:
            out.append(x)
    return "/".join(out)


def roundtrip_obs(cls, m, predict_sets, predict_kwargs=None, snapshot=None):
    """The statement's observations on one model object m of class cls (implementation against itself):
    serialise, reload, serialise again, predict on both.  Returns a plain dict."""
    predict_kwargs = predict_kwargs or {}
    obs = {"cls": cls.__module__.split(".")[-2] + "." + cls.__name__}
    try:
        js = m.to_json()
    except Exception as e:
        obs["dump_error"] = "%s: %s" % (type(e).__name__, str(e)[:200])
        return obs, None, None, None
    obs["js_len"] = len(js)
    try:
        with quiet():
            m2 = cls.from_json(js)
    except Exception as e:
        obs["load_error"] = "%s: %s" % (type(e).__name__, str(e)[:300].replace("\n", " "))
        obs["load_error_cls"] = type(e).__name__
        return obs, js, None, None
    if snapshot is not None:
        try:
            obs["_state2"] = snapshot(m2)          # attributes of the reloaded object, before anything uses it
        except Exception as e:
            obs["_state2_error"] = "%s: %s" % (type(e).__name__, str(e)[:200])
    js2 = None
    try:
        js2 = m2.to_json()
        obs["text_equal"] = js2 == js
        if js2 != js:
            d = first_diff(json.loads(js), json.loads(js2))
            obs["doc_diff"] = d or {"path": "", "kind": "text-only", "a": "", "b": ""}
        with quiet():
            js3 = cls.from_json(js2).to_json()
        obs["second_generation_equal"] = js3 == js2
    except Exception as e:
        obs["redump_error"] = "%s: %s" % (type(e).__name__, str(e)[:200].replace("\n", " "))
        obs["redump_error_cls"] = type(e).__name__
    # metadata
    obs["tz"] = [str(getattr(m, "baseline_timezone", None)), str(getattr(m2, "baseline_timezone", None))]
    obs["warnings"] = [warn_list(getattr(m, "warnings", [])), warn_list(getattr(m2, "warnings", []))]
    obs["dq"] = [warn_list(getattr(m, "disqualification", [])), warn_list(getattr(m2, "disqualification", []))]
    # predictions
    preds = []
    for name, mk in predict_sets:
        r = {"set": name}
        outs = []
        for obj in (m, m2):
            try:
                with quiet():
                    df = obj.predict(mk(), **predict_kwargs)
                outs.append(("ok", df))
            except Exception as e:
                outs.append(("err", "%s: %s" % (type(e).__name__, str(e)[:160].replace("\n", " "))))
        (k1, a), (k2, b) = outs
        r["kinds"] = [k1, k2]
        if k1 == "ok" and k2 == "ok":
            r["n"] = int(len(a))
            r["n_pred"] = int(a["predicted"].notna().sum()) if "predicted" in a else 0
            r["identical"] = frame_sig(a) == frame_sig(b)
            if not r["identical"]:
                bad = []
                for c in a.columns:
                    if c not in b.columns:
                        bad.append(c + " (missing)")
                    else:
                        x, y = a[c].to_numpy(), b[c].to_numpy()
                        try:
                            same = np.array_equal(x, y, equal_nan=True)
                        except TypeError:
                            same = list(map(str, x)) == list(map(str, y))
                        if not same:
                            bad.append(c)
                r["diff_cols"] = bad or ["index/columns/dtype"]
                if "predicted" in bad:
                    x, y = a["predicted"].to_numpy(dtype=float), b["predicted"].to_numpy(dtype=float)
                    i = int(np.flatnonzero(~((x == y) | ((x != x) & (y != y))))[0])
                    r["first"] = {"row": i, "t": str(a.index[i]), "original": repr(float(x[i])), "reloaded": repr(float(y[i]))}
        else:
            r["errors"] = [a if k1 == "err" else None, b if k2 == "err" else None]
        preds.append(r)
    obs["predict"] = preds
    return obs, js, m2, js2


def oracle_roundtrip(obs, sig0):
    """The statement, literally, on one implementation-against-itself observation.
    sig0: the classifier's description of the model (family, constructor base, ...).
    Returns [(signature, message)]; empty = the statement holds on this model."""
    out = []
    if "dump_error" in obs:
        out.append((dict(sig0, call="to_json", broken="original cannot be serialised"), "to_json raised: " + obs["dump_error"]))
        return out
    if "load_error" in obs:
        out.append((dict(sig0, call="from_json", broken="rejected", raised=obs["load_error_cls"]),
                    "from_json(to_json()) raised: " + obs["load_error"]))
        return out
    if "redump_error" in obs:
        out.append((dict(sig0, call="from_json(js).to_json", broken="reloaded model cannot be serialised",
                         raised=obs["redump_error_cls"]), "from_json(js).to_json() raised: " + obs["redump_error"]))
    elif not obs["text_equal"]:
        d = obs["doc_diff"]
        out.append((dict(sig0, call="from_json(js).to_json", broken="document differs", kind=d["kind"],
                         path=generic_path(d["path"])),
                    "from_json(js).to_json() != js at %s: %s vs %s" % (d["path"], d["a"], d["b"])))
    elif not obs.get("second_generation_equal", True):
        out.append((dict(sig0, call="from_json(js2).to_json", broken="second generation differs"),
                    "the second reload re-serialises differently"))
    if obs["tz"][0] != obs["tz"][1]:
        out.append((dict(sig0, broken="baseline timezone not kept"), "baseline timezone %r -> %r" % tuple(obs["tz"])))
    if obs["warnings"][0] != obs["warnings"][1]:
        out.append((dict(sig0, broken="warnings not kept"), "warnings differ after reload (%d -> %d)" % (
            len(obs["warnings"][0]), len(obs["warnings"][1]))))
    if obs["dq"][0] != obs["dq"][1]:
        out.append((dict(sig0, broken="disqualifications not kept"), "disqualification list differs after reload (%d -> %d)" % (
            len(obs["dq"][0]), len(obs["dq"][1]))))
    for r in obs.get("predict", []):
        if r["kinds"] == ["ok", "ok"]:
            if not r["identical"]:
                cols = r["diff_cols"]
                out.append((dict(sig0, broken="prediction differs", columns=",".join(sorted(cols))),
                            "predict differs after reload on set %s in columns %s %s" % (r["set"], cols, r.get("first", ""))))
        elif r["kinds"] == ["ok", "err"]:
            out.append((dict(sig0, broken="reloaded model cannot predict", raised=r["errors"][1].split(":")[0]),
                        "reloaded model raised on set %s: %s" % (r["set"], r["errors"][1])))
        elif r["kinds"] == ["err", "ok"]:
            out.append((dict(sig0, broken="only the reloaded model predicts", raised=r["errors"][0].split(":")[0]),
                        "original raised on set %s but the reloaded model predicts: %s" % (r["set"], r["errors"][0])))
        elif r["errors"][0].split(":")[0] != r["errors"][1].split(":")[0]:
            out.append((dict(sig0, broken="different exceptions"), "original and reloaded raise differently on %s: %s" % (
                r["set"], r["errors"])))
    return out


DEFAULT_SEASON = ["winter", "winter", "shoulder", "shoulder", "shoulder", "summer", "summer", "summer", "summer",
                  "shoulder", "winter", "winter"]
DEFAULT_WEEK = ["weekday"] * 5 + ["weekend"] * 2
SEASON_CODE = {"su": "summer", "sh": "shoulder", "wi": "winter"}


def stored_maps(settings):
    """(season of month 1..12, day class of Monday..Sunday) as the stored settings tree says (missing key = class default)"""
    se = settings.get("season") or {}
    wk = settings.get("weekday_weekend") or {}
    return ([se.get(m, DEFAULT_SEASON[i]) for i, m in enumerate(MONTHS)], [wk.get(d, DEFAULT_WEEK[i]) for i, d in enumerate(DAYS)])


def expected_keys(doc, month, dow):
    """the split keys of the document that cover a day of that month / weekday (Monday = 1) under the stored maps"""
    seasons, week = stored_maps(doc["settings"])
    out = []
    for key in doc["submodels"]:
        days, codes = key[:2], key[3:].split("_")
        if seasons[month - 1] not in [SEASON_CODE.get(c) for c in codes]:
            continue
        if days == "fw" or (days == "wd" and week[dow - 1] == "weekday") or (days == "we" and week[dow - 1] == "weekend"):
            out.append(key)
    return out


def constructor_made(cls, case):
    """a model object as fit() leaves it, made WITHOUT from_dict: the real constructor of the profile with the user's
    settings, then the stored parameters (what _create_params_from_fit_model builds), timezone, warnings, disqualification"""
    from opendsm.eemeter.models.daily.parameters import DailyModelParameters
    from opendsm.eemeter.common.warnings import EEMeterWarning
    doc = case["doc"]
    u = copy.deepcopy(case.get("user") or {})
    with quiet():
        m = cls(settings=u) if case["cls"] == "billing" else cls(model=case["base"], settings=u)
    info = copy.deepcopy(doc["info"])
    m.params = DailyModelParameters(submodels=copy.deepcopy(doc["submodels"]), settings=m.settings.model_dump(), info=info)
    mk = lambda ws: [EEMeterWarning(qualified_name=w["qualified_name"], description=w["description"], data=w["data"]) for w in ws]
    m.warnings, m.disqualification = mk(info["warnings"]), mk(info["disqualification"])
    # fit() stores the tzinfo OBJECT of the baseline data (a reloaded model holds its str())
    m.baseline_timezone = daily_data(case["cls"], case.get("zone") or info["baseline_timezone"])[1].tz
    m.error = info["error"]
    m.is_fitted = True
    return m


def day_rows(frame, step=29):
    """every step-th predicted day of a predict() frame: [month, dow (Monday = 1), split key, T, predicted, unc, heating, cooling]"""
    rows = []
    ok = frame[frame["predicted"].notna()]
    for i in range(0, len(ok), step):
        r = ok.iloc[i]
        t = ok.index[i]
        rows.append([int(t.month), int(t.dayofweek) + 1, str(r["model_split"]), float(r["temperature"]), float(r["predicted"]),
                     float(r["predicted_unc"]), float(r["heating_load"]), float(r["cooling_load"])])
    return rows


def routing_failures(doc, frame):
    """days of a predict() frame whose model_split is not the sub-model the stored maps assign"""
    bad = []
    for t, key, p in zip(frame.index, frame["model_split"], frame["predicted"]):
        if p != p:
            continue
        exp = expected_keys(doc, int(t.month), int(t.dayofweek) + 1)
        if exp != [key]:
            bad.append({"date": str(t), "month": int(t.month), "dow": int(t.dayofweek) + 1, "model_split": str(key), "expected": exp})
            if len(bad) >= 3:
                break
    return bad


# ---- key order: a stored document is an unordered JSON object
def permute_keys(obj, mode, rng):
    """every nested mapping re-ordered: sorted / reversed / shuffled (lists keep their order)"""
    if isinstance(obj, dict):
        keys = list(obj)
        if mode == "sorted":
            keys = sorted(keys)
        elif mode == "reversed":
            keys = keys[::-1]
        else:
            rng.shuffle(keys)
        return {k: permute_keys(obj[k], mode, rng) for k in keys}
    if isinstance(obj, list):
        return [permute_keys(x, mode, rng) for x in obj]
    return obj


def reorder_like(obj, ref):
    """obj with every mapping's keys in the order ref has them (keys ref lacks go last)"""
    if isinstance(obj, dict) and isinstance(ref, dict):
        keys = [k for k in ref if k in obj] + [k for k in obj if k not in ref]
        return {k: reorder_like(obj[k], ref.get(k)) for k in keys}
    if isinstance(obj, list) and isinstance(ref, list) and len(obj) == len(ref):
        return [reorder_like(a, b) for a, b in zip(obj, ref)]
    return obj


def writer_order(d):
    """a daily document with the free-form mappings in the key order a fitted model writes them"""
    d = copy.deepcopy(d)
    pick = lambda m, keys: {k: m[k] for k in keys if k in m} | {k: v for k, v in m.items() if k not in keys}
    for k, sub in d.get("submodels", {}).items():
        sub["temperature_constraints"] = pick(sub["temperature_constraints"], TCKEYS)
    info = d.get("info") or {}
    for name in ("disqualification", "warnings"):
        info[name] = [pick(w, ["qualified_name", "description", "data"]) for w in info.get(name) or []]
    d["info"] = pick(info, ["error", "baseline_timezone", "disqualification", "warnings"])
    return d


def key_order_case(case, mode, rng):
    out = copy.deepcopy(case)
    out["canon"] = case["doc"]
    out["doc"] = permute_keys(case["doc"], mode, rng)
    out["tamper"] = "key-order:" + mode
    return out


# ----------------------------------------------------------------------------------------------------- stream A worker

def run_docs(cases, seed):
    """synthetic documents through the implementation; returns one observation per case"""
    from opendsm.eemeter import BillingModel, DailyModel
    from opendsm.common.utils import LN_MIN_POS_SYSTEM_VALUE
    ln_min = float(LN_MIN_POS_SYSTEM_VALUE)
    out = []
    for case in cases:
        rng = random.Random(seed * 1000003 + case["k"])
        cls = BillingModel if case["cls"] == "billing" else DailyModel
        doc = case["doc"]
        o = {"k": case["k"]}
        try:
            with quiet():
                if (case.get("tamper") or "").startswith("key-order:sorted"):
                    M = cls.from_json(json.dumps(doc, sort_keys=True))          # the text path, keys sorted by the writer
                else:
                    M = cls.from_dict(copy.deepcopy(doc))
        except Exception as e:
            o["rejected"] = type(e).__name__
            o["rejected_msg"] = str(e)[:200].replace("\n", " ")
            out.append(o)
            continue
        try:
            o["redump"] = json.loads(M.to_json())
            if "canon" in case:
                # to_dict keeps the key order it was given for the free-form mappings (temperature_constraints, info,
                # warnings); documents are compared as unordered objects there: into the order the package writes
                o["redump"] = writer_order(o["redump"])
            o["season"] = [M.settings.season._num_dict[i] for i in range(1, 13)]
            o["weekday"] = [M.settings.weekday_weekend._num_dict[i] for i in range(1, 8)]
            preds, cf_fail = {}, []
            for key, sub in doc["submodels"].items():
                grid = temp_grid(sub, rng)
                T = np.array(grid, dtype=float)
                model, unc, hl, cl = M._predict_submodel(M.params.submodels[key], T)
                rows = [[float(t), float(a), float(b), float(c), float(d)] for t, a, b, c, d in zip(T, model, unc, hl, cl)]
                preds[key] = rows
                # the documented formula from the JSON parameters alone
                hbp, bh, kh, cbp, bc, kc = eff_vector(sub)
                scale = max([1.0, abs(sub["coefficients"]["intercept"]), max(bh, bc, 0.0) * 200.0] +
                            [abs(r[1]) for r in rows if math.isfinite(r[1])])
                for t, p, _, h, c in rows:
                    e, eh, ec = closed_form(sub, t, ln_min)
                    if not (abs(p - e) <= 1e-9 * scale and abs(h - eh) <= 1e-9 * scale and abs(c - ec) <= 1e-9 * scale):
                        cf_fail.append({"key": key, "shape": sub["coefficients"]["model_type"], "T": t, "predicted": [p, h, c],
                                        "formula": [e, eh, ec], "corner": in_corner(sub), "crossed": is_crossed(sub),
                                        "above_T_max": t > sub["temperature_constraints"]["T_max"]})
                        break
            o["preds"] = preds
            o["closed_form_fail"] = cf_fail
            tz = case.get("zone") or doc["info"]["baseline_timezone"]
            with quiet():
                year = M.predict(daily_data(case["cls"], tz)[1], ignore_disqualification=True)
            o["days"] = day_rows(year)
            o["routing_fail"] = routing_failures(doc, year)
            if "canon" in case:
                # the same document with its keys in the canonical order must give the same model
                with quiet():
                    Mc = cls.from_dict(copy.deepcopy(case["canon"]))
                    yc = Mc.predict(daily_data(case["cls"], tz)[1], ignore_disqualification=True)
                if frame_sig(yc) != frame_sig(year):
                    x, y = yc["predicted"].to_numpy(dtype=float), year["predicted"].to_numpy(dtype=float)
                    i = int(np.flatnonzero(~((x == y) | ((x != x) & (y != y))))[0]) if len(x) == len(y) and not np.array_equal(x, y, equal_nan=True) else 0
                    o["order_fail"] = {"date": str(yc.index[i]), "canonical_order": repr(float(x[i])), "this_order": repr(float(y[i])),
                                       "model_split": [str(yc["model_split"].iloc[i]), str(year["model_split"].iloc[i])]}
            # the statement's observations: the original is a constructor-made model (never went through from_dict)
            # whenever the document is what a constructor's model stores, else the object from_dict built
            sets = [("year", lambda: daily_data(case["cls"], tz)[1])]
            if case["k"] % 2 == 0:
                sets.append(("sweep", lambda: daily_data(case["cls"], tz)[0]))
            else:
                # the same zone through another tzinfo (equal-but-renamed for the fixed-offset / dateutil baselines):
                # the original holds a tzinfo object, the reloaded model a string -- they must decide alike
                label, variant = tz_variants(tz)[0]
                sets.append(("tz: %s (%s)" % (label, variant), lambda: daily_data(case["cls"], variant)[0]))
            original = constructor_made(cls, case) if case.get("tamper") is None and "base" in case else M
            o["original"] = "constructor" if original is not M else "from_dict"
            o["rt"] = roundtrip_obs(cls, original, sets, {"ignore_disqualification": True})[0]
        except Exception as e:
            o["crash"] = "%s: %s" % (type(e).__name__, traceback.format_exc()[-600:])
        out.append(o)
    return out


# =====================================================================================================
# Gallina emitters
# =====================================================================================================

def coq_optf(v):
    return "None" if v is None else "(Some %s)" % fhex(v)


def coq_coeffs(c):
    return "(Build_coeffs F %s %s %s %s %s %s %s %s)" % (
        COQ_SHAPE[c["model_type"]], fhex(c["intercept"]), coq_optf(c.get("hdd_bp")), coq_optf(c.get("hdd_beta")),
        coq_optf(c.get("hdd_k")), coq_optf(c.get("cdd_bp")), coq_optf(c.get("cdd_beta")), coq_optf(c.get("cdd_k")))


def coq_tc(tc):
    return "(Build_tconstr F %s %s %s %s)" % tuple(fhex(tc[k]) for k in TCKEYS)


def coq_warning(w, sh):
    return "{| w_name := %s; w_desc := %s; w_data := %s |}" % (sh.s(w["qualified_name"]), sh.s(w["description"]), sh.json(w["data"]))


def coq_daily_state(st, sh):
    """st: {"subs": [(key, coefficients, tc, f_unc)], "error", "tz", "dq", "warnings", "settings" (Gallina term)}"""
    subs = coq_list(["{| sm_key := %s; sm_c := %s; sm_tc := %s; sm_func := %s |}" % (
        sh.s(k), coq_coeffs(c), coq_tc(tc), fhex(u)) for k, c, tc, u in st["subs"]])
    return "{| ds_subs := %s; ds_error := %s; ds_tz := %s; ds_dq := %s; ds_warnings := %s; ds_settings := %s |}" % (
        subs, sh.json(st["error"]), sh.s(st["tz"]), coq_list([coq_warning(w, sh) for w in st["dq"]]),
        coq_list([coq_warning(w, sh) for w in st["warnings"]]), st["settings"])


def coq_prow(r):
    return "(%s, %s, %s, %s, %s)" % tuple(fhex(x) for x in r)


class Shared:
    """big sub-terms (settings trees) and every string shared through prelude definitions: a string literal is a
    tree of 9 constructors per character for Coq's elaborator, a constant is one node"""
    def __init__(self, prefix):
        self.prefix = prefix
        self.defs = {}
        self.strings = {}

    def s(self, text):
        if text not in self.strings:
            self.strings[text] = "s%s_%d" % (self.prefix, len(self.strings))
        return self.strings[text]

    def json(self, o):
        """python JSON value -> Gallina json term with interned strings"""
        if o is None:
            return "JNull"
        if isinstance(o, bool):
            return "(JBool %s)" % coq_bool(o)
        if isinstance(o, int):
            return "(JInt %s)" % zlit(o)
        if isinstance(o, float):
            return "(JNum %s)" % fhex(o)
        if isinstance(o, str):
            return "(JStr %s)" % self.s(o)
        if isinstance(o, (list, tuple)):
            return "(JArr %s)" % coq_list([self.json(x) for x in o])
        if isinstance(o, dict):
            return "(JObj %s)" % coq_list(["(%s, %s)" % (self.s(str(k)), self.json(v)) for k, v in o.items()])
        raise ValueError("not a JSON value: %r" % (o,))

    def name(self, obj):
        key = vlib.sha(json.dumps(obj, sort_keys=False))
        nm = "%s_%s" % (self.prefix, key)
        if nm not in self.defs:
            self.defs[nm] = "Definition %s : json := %s." % (nm, self.json(obj))
        return nm

    def prelude(self):
        strs = "\n".join("Definition %s : string := %s." % (nm, coq_string(text)) for text, nm in self.strings.items())
        return strs + "\n" + "\n".join(self.defs.values())


def coq_doc_with_shared(doc, shared):
    """a daily document as a json term whose settings tree is a shared definition"""
    parts = []
    for k, v in doc.items():
        if k == "settings" and isinstance(v, dict):
            parts.append("(%s, %s)" % (shared.s(k), shared.name(v)))
        else:
            parts.append("(%s, %s)" % (shared.s(k), shared.json(v)))
    return "(JObj %s)" % coq_list(parts)
