"""C01: state-level correspondences of the hourly and CalTRACK-hourly document models (streams state-*, reload-*)."""
import json

import vlib
from vlib import fhex, zlit, coq_list, coq_string

import c01lib
from translate_c01 import cjson

IMPORTS_H = ("From Coq Require Import PrimFloat.\nFrom V Require Import Model.Json Model.DailyDoc Model.HourlyDoc Model.HourlyDocRun "
             "Generated.C01Gen.\nOpen Scope string_scope.")
IMPORTS_C = ("From Coq Require Import PrimFloat.\nFrom V Require Import Model.Json Model.DailyDoc Model.CalTrackDoc Model.HourlyDocRun "
             "Model.CalTrackDocRun.\nOpen Scope string_scope.")


def coq_floats(l):
    return coq_list([fhex(x) for x in l])


def coq_strings(l, sh):
    return coq_list([sh.s(x) for x in l])


def coq_opt_json(j, sh):
    return "None" if j is None else "(Some %s)" % sh.json(j)


# ----------------------------------------------------------------------------------------------------- hourly

def edge_keys_int(st):
    return st["edge_coeffs"] is None or all(isinstance(k, int) for k, _ in st["edge_coeffs"])


def coq_hourly_state(st, sh):
    if st["edge_coeffs"] is None:
        edges = "None"
    else:
        edges = "(Some %s)" % coq_list(["(%s, %s)" % (zlit(k), coq_list(["(%s, %s)" % (sh.s(a), fhex(b)) for a, b in kv]))
                                         for k, kv in st["edge_coeffs"]])
    return ("{| hs_settings := %s; hs_clusters := %s; hs_bin_edges := %s; hs_edge_coeffs := %s; hs_ts_features := %s; "
            "hs_cat_features := %s; hs_loc := %s; hs_scale := %s; hs_y := (%s, %s); hs_coef := %s; hs_intercept := %s; "
            "hs_metrics := %s; hs_warnings := %s; hs_dq := %s; hs_error := %s; hs_tz := %s; hs_version := %s |}") % (
        sh.json(st["settings"]),
        coq_list(["(%s, %s, %s)" % tuple(zlit(x) for x in row) for row in st["clusters"]]),
        coq_floats(st["bin_edges"] or []), edges, coq_strings(st["ts_features"], sh), coq_strings(st["cat_features"], sh),
        coq_floats(st["loc"]), coq_floats(st["scale"]), fhex(st["y"][0]), fhex(st["y"][1]),
        coq_list([coq_floats(r) for r in st["coef"]]), coq_floats(st["intercept"]), sh.json(st["metrics"]),
        coq_list([c01lib.coq_warning(w, sh) for w in st["warnings"]]), coq_list([c01lib.coq_warning(w, sh) for w in st["dq"]]),
        sh.json(st["error"]), sh.s(st["tz"]), sh.s(st["version"]))


def process_hourly(run, results):
    sh = c01lib.Shared("h")
    st_terms, st_kept, rl_terms, rl_kept = [], [], [], []
    for res in results:
        if res["job"]["family"] != "hourly" or res.get("js") is None:
            continue
        doc = json.loads(res["js"])
        run.dist("hourly: coefficient matrix", "%d x %d" % (len(res["state"]["coef"]), len(res["state"]["coef"][0]) if res["state"]["coef"] else 0))
        run.dist("hourly: temporal cluster rows", len(res["state"]["clusters"]))
        fo = res.get("feature_order") or [[], []]
        run.dist("hourly: settings.train_features vs sorted ts_features", "same order" if fo[0] == fo[1] else "different order %s / %s" % (fo[0], fo[1]))
        if not edge_keys_int(res["state"]):
            run.corr_failures.append({"stream": "state_hourly", "case": {"job": res["job"]}, "impl": "non-integer keys in _T_edge_bin_coeffs",
                                      "model": "integer keys"})
            continue
        st_terms.append("(%s, %s)" % (coq_hourly_state(res["state"], sh), sh.json(doc)))
        st_kept.append(res)
        s2 = res.get("state2")
        if s2 is not None and not edge_keys_int(s2):
            run.corr_failures.append({"stream": "reload_hourly", "case": {"job": res["job"]},
                                      "impl": "reloaded _T_edge_bin_coeffs has non-integer keys: %r" % [k for k, _ in s2["edge_coeffs"]],
                                      "model": "from_doc restores integer keys (C01_hourly_edge_keys_restored)"})
            continue
        redump = json.loads(res["js2"]) if res.get("js2") else None
        rl_terms.append("(%s, %s, %s)" % (sh.json(doc), "None" if s2 is None else "(Some %s)" % coq_hourly_state(s2, sh), coq_opt_json(redump, sh)))
        rl_kept.append(res)
    for stream, terms, kept, fn, ty in (("state_hourly", st_terms, st_kept, "check_hstate", "(hourly_state * json)%type"),
                                        ("reload_hourly", rl_terms, rl_kept, "check_hreload", "(json * option hourly_state * option json)%type")):
        if not terms:
            continue
        bad = run.coq_cases(stream, IMPORTS_H, sh.prelude(), terms, fn, shard=2, case_type=ty)
        if bad is None:
            run.proof_ok = False
            continue
        for i in bad:
            res = kept[i]
            run.corr_failures.append({"stream": stream, "case": {"job": res["job"]},
                                      "impl": {"load_error": res["obs"].get("load_error"), "redump_error": res["obs"].get("redump_error"),
                                               "doc_diff": res["obs"].get("doc_diff")},
                                      "model": "hourly_to_doc / hourly_from_doc of Model/HourlyDoc.v disagrees (replay the job to see the documents)"})


# ----------------------------------------------------------------------------------------------------- CalTRACK

def coq_warns(w, sh):
    if w["typed"]:
        return "(WTyped %s)" % coq_list([c01lib.coq_warning(x, sh) for x in w["items"]])
    return "(WRaw %s)" % coq_list([sh.json(x) for x in w["items"]])


def coq_metrics(m, sh):
    if m is None:
        return "MNone"
    kinds = {k for _, k, _ in m}
    ctor = "MReloaded" if kinds == {"reloaded"} else "MNative"
    return "(%s %s)" % (ctor, coq_list(["(%s, %s)" % (sh.s(k), sh.json(j)) for k, _, j in m]))


def coq_ukey(k, sh):
    kind, v = k
    if kind == "int":
        return "(KMonth %s)" % zlit(v)
    return "KAll" if v == "all" else "(KText %s)" % sh.s(v)


def coq_uentry(v, sh):
    """one uncertainty entry: values typed int / float (NaN kept) / null"""
    items = []
    for name, x in v.items():
        if x is None:
            val = "UNull"
        elif isinstance(x, bool):
            raise ValueError("boolean in unc_vars")
        elif isinstance(x, int):
            val = "(UInt %s)" % zlit(x)
        else:
            val = "(UFloat %s)" % fhex(float(x))
        items.append("(%s, %s)" % (sh.s(name), val))
    return coq_list(items)


def coq_ct_state(st, sh):
    segs = coq_list(["{| sg_name := %s; sg_formula := %s; sg_params := %s; sg_warnings := %s |}" % (
        sh.s(s["name"]), "None" if s["formula"] is None else "(Some %s)" % sh.s(s["formula"]),
        coq_list(["(%s, %s)" % (sh.s(k), fhex(v)) for k, v in s["params"]]), coq_warns(s["warnings"], sh)) for s in st["segments"]])
    mapping = "None" if st["mapping"] is None else "(Some %s)" % coq_list(["(%s, %s)" % (sh.s(a), sh.s(b)) for a, b in st["mapping"]])
    return ("{| ct_status := %s; ct_method := %s; ct_segments := %s; ct_pred_type := %s; ct_mapping := %s; ct_processor := %s; "
            "ct_occupancy := %s; ct_occ_bins := %s; ct_unocc_bins := %s; ct_segment_type := %s; ct_unc := %s; ct_warnings := %s; "
            "ct_metadata := %s; ct_settings := %s; ct_totals := %s; ct_avgs := %s |}") % (
        sh.s(st["status"]), sh.s(st["method_name"]), segs, sh.s(st["prediction_segment_type"]), mapping,
        sh.s(st["processor"]), sh.s(st["occupancy"]), sh.s(st["occ_bins"]), sh.s(st["unocc_bins"]),
        sh.s(st["segment_type"]), coq_list(["(%s, %s)" % (coq_ukey(k, sh), coq_uentry(v, sh)) for k, v in st["unc"]]),
        coq_warns(st["warnings"], sh), sh.json(st["metadata"]), sh.json(st["settings"]), coq_metrics(st["totals"], sh), coq_metrics(st["avgs"], sh))


def process_caltrack(run, results):
    sh = c01lib.Shared("c")
    st_terms, st_kept, rl_terms, rl_kept = [], [], [], []
    for res in results:
        if res["job"]["family"] != "caltrack" or res.get("js") is None:
            continue
        doc = json.loads(res["js"])
        run.dist("caltrack: segment models", len(res["state"]["segments"]))
        run.dist("caltrack: unc_vars keys", ",".join(sorted({k[0] for k, _ in res["state"]["unc"]})))
        run.dist("caltrack: calendar months with NaN uncertainty statistics", len(res.get("nan_months", [])))
        st_terms.append("(%s, %s)" % (coq_ct_state(res["state"], sh), sh.json(doc)))
        st_kept.append(res)
        s2 = res.get("state2")
        redump = json.loads(res["js2"]) if res.get("js2") else None
        rl_terms.append("(%s, %s, %s)" % (sh.json(doc), "None" if s2 is None else "(Some %s)" % coq_ct_state(s2, sh), coq_opt_json(redump, sh)))
        rl_kept.append(res)
    for stream, terms, kept, fn, ty in (("state_caltrack", st_terms, st_kept, "check_cstate", "(ct_state * json)%type"),
                                        ("reload_caltrack", rl_terms, rl_kept, "check_creload", "(json * option ct_state * option json)%type")):
        if not terms:
            continue
        bad = run.coq_cases(stream, IMPORTS_C, sh.prelude(), terms, fn, shard=1, case_type=ty)
        if bad is None:
            run.proof_ok = False
            continue
        for i in bad:
            res = kept[i]
            run.corr_failures.append({"stream": stream, "case": {"job": res["job"]},
                                      "impl": {"load_error": res["obs"].get("load_error"), "redump_error": res["obs"].get("redump_error"),
                                               "unc_keys": [k for k, _ in (res.get("state2") or {}).get("unc", [])]},
                                      "model": "ct_to_doc / ct_from_doc of Model/CalTrackDoc.v disagrees (replay the job to see the documents)"})
