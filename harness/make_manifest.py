#!/venv/bin/python
"""Writes /verif/MANIFEST.json from the table below (kept in one place so it stays valid)."""
import json, os, sys
VERIF = os.path.dirname(os.path.dirname(os.path.abspath(__file__)))
ALL = ["C%02d" % i for i in range(1, 21)]

import glob
CHECKS = {}
_enabled = open(os.path.join(VERIF, "manifest.d", "ENABLED")).read().split()   # registered by the coordinator only
for _p in sorted(glob.glob(os.path.join(VERIF, "manifest.d", "C*.json"))):
    if os.path.basename(_p)[:-5] in _enabled:
        CHECKS[os.path.basename(_p)[:-5]] = json.load(open(_p))   # keys: category, design_ref, text, note, technique
REASONS = {}
_r = os.path.join(VERIF, "manifest.d", "not_applicable.json")
if os.path.exists(_r):
    REASONS = json.load(open(_r))
NOT_YET = "check not built yet in this revision (planned, see DESIGN.md section 10)"

def main():
    checks = []
    for pid in ALL:
        if pid not in CHECKS:
            continue
        c = CHECKS[pid]
        checks.append({
            "property_id": pid,
            "quick_cmd": "./check %s quick" % pid,
            "thorough_cmd": "./check %s thorough" % pid,
            "evidence_file": "/verif/evidence/%s.json" % pid,
            "replay_cmd_template": "./check %s --replay {path}" % pid,
            "engine": "coq+correspondence",
            "level_claimed": {"category": c["category"], "text": c["text"], "design_ref": c["design_ref"]},
            "level_note": c["note"],
            "technique": c["technique"],
        })
    m = {
        "version": 1,
        "setup_cmd": "./setup.sh",
        "hooks": {
            "guard": "OPENDSM_EEMETER_VERIF",
            "enable": "environment variable OPENDSM_EEMETER_VERIF=1 (set by ./check); pure-Python repository, nothing to rebuild",
            "baseline_off_cmd": "/venv/bin/python /verif/harness/baseline_off.py",
            "source_commits": ["78a61ec01f3abf67deee99a30d73462f35d60c3f"],
            "add_only": True,
        },
        "engines": [{
            "name": "coq+correspondence", "path": "/verif/check",
            "serves_properties": [c["property_id"] for c in checks],
            "kind_free_text": "Coq 8.16.1 theorems over hand-written / translator-generated Gallina models; models tied to /repo "
                              "on every run by translators (Generated/*.v) and by differential correspondence (generated "
                              "Cases/*.v evaluated with vm_compute); literal property oracles on the implementation decide "
                              "concrete violations",
        }],
        "checks": checks,
        "not_applicable": [{"property_id": p, "reason": REASONS.get(p, NOT_YET)} for p in ALL if p not in CHECKS],
        "notes": "All checks: cwd=/verif, honour VERIF_SEED and VERIF_TIER, rewrite evidence/<id>.json on every run, rebuild the "
                 "property's proofs from source on every run. known_findings.json lists repaired (fixed:) and recorded (known) defects.",
    }
    json.dump(m, open(os.path.join(VERIF, "MANIFEST.json"), "w"), indent=1)
    try:
        import jsonschema
        jsonschema.validate(m, json.load(open("/root/.vp/MANIFEST.schema.json")))
        print("manifest valid:", len(checks), "checks")
    except ImportError:
        print("manifest written (jsonschema not available here)")

if __name__ == "__main__":
    main()
