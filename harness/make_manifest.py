#!/venv/bin/python
"""Writes /verif/MANIFEST.json from the table below (kept in one place so it stays valid)."""
import json, os, sys
VERIF = os.path.dirname(os.path.dirname(os.path.abspath(__file__)))
ALL = ["C%02d" % i for i in range(1, 21)]

CHECKS = {
 "C20": dict(
   category="proof", design_ref="DESIGN.md section 5, C20",
   text="Coq theorems (no-leak, max_days bound, nearest boundary under overshoot, contiguous slice with only the final row "
        "blanked, gap warnings iff gap, dedicated error iff empty selection) over a Gallina model of get_baseline_data/"
        "get_reporting_data for every sorted index, cut instant and option combination; the model is tied to the code by a "
        "differential correspondence evaluated with vm_compute, and a literal oracle of the statement runs on every "
        "implementation observation.",
   note="Trusted: Coq kernel + vm_compute; pandas label slicing / get_indexer(nearest) re-specified in Model/Windows.v and "
        "validated only on the sampled calls; harness/c20.py. No axioms (Print Assumptions: closed).",
   technique="Coq proof over list model + vm_compute correspondence"),
 "C04": dict(
   category="proof", design_ref="DESIGN.md section 5, C04",
   text="Coq theorems over a life-cycle state machine of the three model families (guard order of fit/predict as coded, "
        "to_json/from_json, arbitrary poor-fit oracle): fit raises DataSufficiencyError iff disqualified data and no override, "
        "predict returns a frame only behind every guard (fitted, own data type, same time zone, no disqualification or override), "
        "the gate and the inherited / poor-fit disqualifications survive storage and any history of operations. One corner is "
        "refuted and recorded (refit of a reloaded hourly object). The machine is tied to the code by a correspondence over "
        "operation histories with real fits; a literal oracle of the statement decides violations.",
   note="Trusted: Coq kernel + vm_compute; Model/Gate.v (hand-written guard order) validated on sampled histories only; the numeric "
        "fit is an oracle (that it never raises on qualified data is sampled); harness/c04.py, harness/fitlib.py. No axioms.",
   technique="Coq proof over life-cycle state machine + history correspondence"),
}
NOT_YET = "check not built yet in this revision (planned, see DESIGN.md section 10)"

def main():
    checks = []
    for pid in ALL:
        if pid not in CHECKS:
            continue
        c = CHECKS[pid]
        checks.append({
            "property_id": pid,
            "quick_cmd": "./check %s quick" % pid,
            "thorough_cmd": "./check %s thorough" % pid,
            "evidence_file": "/verif/evidence/%s.json" % pid,
            "replay_cmd_template": "./check %s --replay {path}" % pid,
            "engine": "coq+correspondence",
            "level_claimed": {"category": c["category"], "text": c["text"], "design_ref": c["design_ref"]},
            "level_note": c["note"],
            "technique": c["technique"],
        })
    m = {
        "version": 1,
        "setup_cmd": "./setup.sh",
        "hooks": {
            "guard": "OPENDSM_EEMETER_VERIF",
            "enable": "environment variable OPENDSM_EEMETER_VERIF=1 (set by ./check); pure-Python repository, nothing to rebuild",
            "baseline_off_cmd": "/venv/bin/python /verif/harness/baseline_off.py",
            "source_commits": ["78a61ec01f3abf67deee99a30d73462f35d60c3f"],
            "add_only": True,
        },
        "engines": [{
            "name": "coq+correspondence", "path": "/verif/check",
            "serves_properties": [c["property_id"] for c in checks],
            "kind_free_text": "Coq 8.16.1 theorems over hand-written / translator-generated Gallina models; models tied to /repo "
                              "on every run by translators (Generated/*.v) and by differential correspondence (generated "
                              "Cases/*.v evaluated with vm_compute); literal property oracles on the implementation decide "
                              "concrete violations",
        }],
        "checks": checks,
        "not_applicable": [{"property_id": p, "reason": NOT_YET} for p in ALL if p not in CHECKS],
        "notes": "All checks: cwd=/verif, honour VERIF_SEED and VERIF_TIER, rewrite evidence/<id>.json on every run, rebuild the "
                 "property's proofs from source on every run. known_findings.json lists repaired (fixed:) and recorded (known) defects.",
    }
    json.dump(m, open(os.path.join(VERIF, "MANIFEST.json"), "w"), indent=1)
    try:
        import jsonschema
        jsonschema.validate(m, json.load(open("/root/.vp/MANIFEST.schema.json")))
        print("manifest valid:", len(checks), "checks")
    except ImportError:
        print("manifest written (jsonschema not available here)")

if __name__ == "__main__":
    main()
