"""Translator for C14: writes coq/Generated/SettingsGen.v from the pydantic settings classes in vlib.repo_root().

Nothing is copied by hand: field names, nesting, `json_schema_extra["developer"]`, defaults, bounds, enum members,
`exclude`, the list and order of model validators and the hourly `_add_required_features` lists are read from the
live classes (`model_fields`, `__pydantic_decorators__`, `model_config`).  The *semantics* of each validator is
hand-written in coq/Model/Settings.v and tied by the correspondence of harness/c14.py; the translator only accepts
validator names it knows (fail-closed: anything it does not recognise raises TranslateError = broken tie).

Fields are emitted sorted by name at every level, so that a re-ordering of the fields inside a class (which changes
no behaviour) changes nothing here.

/verif/approved_settings.json is the frozen transcription of the approved method constants (path, default,
locked) per settings class plus the constructor -> class map; it is turned into Coq data next to the regenerated
trees so that `C14_defaults_are_approved` / `C14_every_method_constant_is_dev_locked` compare the two by vm_compute.
`python translate_settings.py --freeze` (re)writes it from the current tree — done once, by hand, never by a check."""
import enum
import json
import os
import sys
import types
import typing
from fractions import Fraction

import vlib

APPROVED = os.path.join(vlib.VERIF, "approved_settings.json")

TOP_CLASSES = ["DailySettings", "DailyLegacySettings", "BillingSettings",
               "BaseHourlySettings", "HourlySolarSettings", "HourlyNonSolarSettings"]
LOCKED_FAMILIES = ["DailySettings", "DailyLegacySettings", "BillingSettings"]

# the fields each validator reads in Model/Settings.v (a renamed field must not silently turn into a crash value)
VALIDATOR_READS = {
    "VDevMode": ["developer_mode"],
    "VAlphaFinal": ["alpha_final", "alpha_final_type", "alpha_minimum"],
    "VFinalBounds": ["final_bounds_scalar", "alpha_final_type"],
    "VInitStep": ["initial_step_percentage", "algorithm_choice"],
    "VReduceStd": ["reduce_splits_num_std"],
    "VOptions": ["options"],
    "VTempBins": ["method", "n_bins", "bin_width"],
    "VEdgeBins": ["method", "include_edge_bins", "edge_bin_rate", "edge_bin_percent"],
    "VWavelet": ["wavelet_name", "wavelet_mode"],
    "VAdaptive": ["adaptive_weights", "adaptive_weight_max_iter", "adaptive_weight_tol"],
    "VSeed": [],
}
# a validator is recognised by the set of settings fields its source reads through `self.<field>` (so that renaming
# a validator changes nothing, while a validator that starts reading another field is not silently taken for the old one)
VALIDATOR_SIGNATURE = {
    frozenset(["developer_mode", "silent_developer_mode"]): "VDevMode",
    frozenset(["alpha_final", "alpha_final_type", "alpha_minimum"]): "VAlphaFinal",
    frozenset(["final_bounds_scalar", "alpha_final_type"]): "VFinalBounds",
    frozenset(["initial_step_percentage", "algorithm_choice"]): "VInitStep",
    frozenset(["reduce_splits_num_std"]): "VReduceStd",
    frozenset(["options"]): "VOptions",
    frozenset(["method", "n_bins", "bin_width"]): "VTempBins",
    frozenset(["method", "include_edge_bins", "edge_bin_rate", "edge_bin_percent"]): "VEdgeBins",
    frozenset(["wavelet_name", "wavelet_mode"]): "VWavelet",
    frozenset(["adaptive_weights", "adaptive_weight_max_iter", "adaptive_weight_tol"]): "VAdaptive",
    frozenset(["seed", "elasticnet", "temporal_cluster"]): "VSeed",
}


def validator_reads(cls, vname):
    import ast
    import inspect
    import textwrap
    fn = getattr(cls, vname)
    fn = getattr(fn, "__func__", fn)
    tree = ast.parse(textwrap.dedent(inspect.getsource(fn)))
    args = [a.arg for a in next(n for n in ast.walk(tree) if isinstance(n, ast.FunctionDef)).args.args]
    _need(args, "%s.%s takes no self" % (cls.__name__, vname))
    me = args[0]
    return frozenset(n.attr for n in ast.walk(tree)
                     if isinstance(n, ast.Attribute) and isinstance(n.value, ast.Name) and n.value.id == me
                     and n.attr in cls.model_fields)


# ------------------------------------------------------------------ validator bodies -> programs of Model/SettingsProg.v
PROG_VIDS = ["VDevMode", "VAlphaFinal", "VFinalBounds", "VInitStep", "VReduceStd"]


class _Compiler:
    """python `ast` of one model validator -> Coq text of a `list vstmt` (fail-closed: any construct outside the small
    language of Model/SettingsProg.v raises TranslateError)"""

    def __init__(self, cls, vname):
        import ast
        import inspect
        import textwrap
        self.ast = ast
        self.cls = cls
        self.where = "%s.%s" % (cls.__name__, vname)
        fn = getattr(cls, vname)
        fn = getattr(fn, "__func__", fn)
        self.globals = fn.__globals__
        tree = ast.parse(textwrap.dedent(inspect.getsource(fn)))
        self.fn = next(n for n in ast.walk(tree) if isinstance(n, ast.FunctionDef))
        _need(len(self.fn.args.args) == 1, "%s: unexpected signature" % self.where)
        self.me = self.fn.args.args[0].arg

    def fail(self, node, what):
        raise TranslateError("%s line %s: %s (%s)" % (self.where, getattr(node, "lineno", "?"), what, self.ast.dump(node)[:120]))

    def program(self):
        return self.block(self.fn.body)

    def block(self, stmts):
        out = []
        for st in stmts:
            r = self.stmt(st)
            if r is not None:
                out.append(r)
        return "[" + "; ".join(out) + "]"

    def stmt(self, st):
        ast = self.ast
        if isinstance(st, ast.Return):
            if not (isinstance(st.value, ast.Name) and st.value.id == self.me):
                self.fail(st, "return of something else than self")
            return "SReturn"
        if isinstance(st, ast.Raise):
            e = st.exc
            if not (isinstance(e, ast.Call) and isinstance(e.func, ast.Name) and e.func.id == "ValueError" and st.cause is None):
                self.fail(st, "raise of something else than ValueError(...)")
            return "SRaise"
        if isinstance(st, ast.If):
            return "SIf %s %s %s" % (self.cond(st.test), self.block(st.body), self.block(st.orelse))
        if isinstance(st, ast.Expr):
            v = st.value
            if isinstance(v, ast.Constant) and isinstance(v.value, str):
                return None                                              # docstring
            if isinstance(v, ast.Call) and isinstance(v.func, ast.Name) and not v.keywords:
                if v.func.id == "print" and all(isinstance(a, (ast.Constant, ast.JoinedStr)) for a in v.args):
                    return None                                          # the warning text: no effect on the outcome
                if v.func.id == "_check_developer_mode" and len(v.args) == 1 and isinstance(v.args[0], ast.Name) \
                        and v.args[0].id == self.me:
                    target = self.globals.get("_check_developer_mode")
                    _need(callable(target) and getattr(target, "__module__", "").endswith("daily.utilities.settings"),
                          "%s: _check_developer_mode does not resolve to the module-level walk" % self.where)
                    return "SLock"
            self.fail(st, "expression statement outside the language")
        self.fail(st, "statement outside the language")

    def term(self, e):
        ast = self.ast
        if isinstance(e, ast.Attribute) and isinstance(e.value, ast.Name) and e.value.id == self.me:
            if e.attr not in self.cls.model_fields:
                self.fail(e, "self.%s is not a settings field" % e.attr)
            return "(TField %s)" % coq_str(e.attr)
        if isinstance(e, ast.Constant):
            if e.value is None:
                return "TNone"
            if isinstance(e.value, bool):
                self.fail(e, "boolean literal")
            if isinstance(e.value, (int, float)):
                return "(TNum %s)" % vlib.qlit(Fraction(e.value))
            if isinstance(e.value, str):
                return "(TStr %s)" % coq_str(e.value)
        if isinstance(e, ast.UnaryOp) and isinstance(e.op, ast.USub) and isinstance(e.operand, ast.Constant) \
                and isinstance(e.operand.value, (int, float)) and not isinstance(e.operand.value, bool):
            return "(TNum %s)" % vlib.qlit(-Fraction(e.operand.value))
        if isinstance(e, ast.Subscript):
            sl = e.slice
            if isinstance(sl, ast.Constant) and isinstance(sl.value, int) and not isinstance(sl.value, bool) and sl.value >= 0:
                return "(TIndex %s %d)" % (self.term(e.value), sl.value)
            if isinstance(sl, ast.Slice) and sl.lower is None and sl.step is None and isinstance(sl.upper, ast.Constant) \
                    and isinstance(sl.upper.value, int) and sl.upper.value >= 0:
                return "(TPrefix %s %d)" % (self.term(e.value), sl.upper.value)
        self.fail(e, "term outside the language")

    def cond(self, e):
        ast = self.ast
        if isinstance(e, ast.BoolOp):
            parts = [self.cond(v) for v in e.values]
            ctor = "COr" if isinstance(e.op, ast.Or) else "CAnd"
            acc = parts[-1]
            for p_ in reversed(parts[:-1]):
                acc = "(%s %s %s)" % (ctor, p_, acc)
            return acc
        if isinstance(e, ast.UnaryOp) and isinstance(e.op, ast.Not):
            return "(CNot %s)" % self.cond(e.operand)
        if isinstance(e, ast.Call) and isinstance(e.func, ast.Name) and e.func.id == "isinstance" and len(e.args) == 2 \
                and isinstance(e.args[1], ast.Name) and e.args[1].id in ("float", "str") and not e.keywords:
            return "(%s %s)" % ("CIsFloat" if e.args[1].id == "float" else "CIsStr", self.term(e.args[0]))
        if isinstance(e, ast.Compare) and len(e.ops) == 1:
            op, a, b = e.ops[0], e.left, e.comparators[0]
            none_b = isinstance(b, ast.Constant) and b.value is None
            if isinstance(op, (ast.Is, ast.IsNot)):
                if not none_b:
                    self.fail(e, "`is` with something else than None")
                c = "(CIsNone %s)" % self.term(a)
                return c if isinstance(op, ast.Is) else "(CNot %s)" % c
            if isinstance(a, ast.Call) and isinstance(a.func, ast.Name) and a.func.id == "len" and len(a.args) == 1 \
                    and isinstance(b, ast.Constant) and isinstance(b.value, int) and isinstance(op, (ast.Eq, ast.NotEq)):
                c = "(CLenEq %s %d)" % (self.term(a.args[0]), b.value)
                return c if isinstance(op, ast.Eq) else "(CNot %s)" % c
            if isinstance(op, (ast.In, ast.NotIn)):
                if not (isinstance(b, (ast.List, ast.Tuple)) and all(isinstance(x, ast.Constant) and isinstance(x.value, str) for x in b.elts)):
                    self.fail(e, "`in` with something else than a literal list of strings")
                c = "(CInStrs %s [%s])" % (self.term(a), "; ".join(coq_str(x.value) for x in b.elts))
                return c if isinstance(op, ast.In) else "(CNot %s)" % c
            if isinstance(op, (ast.Eq, ast.NotEq)):
                c = "(CEq %s %s)" % (self.term(a), self.term(b))
                return c if isinstance(op, ast.Eq) else "(CNot %s)" % c
            if isinstance(op, ast.LtE):
                return "(CLe %s %s)" % (self.term(a), self.term(b))
            if isinstance(op, ast.Lt):
                return "(CLt %s %s)" % (self.term(a), self.term(b))
            if isinstance(op, ast.GtE):
                return "(CLe %s %s)" % (self.term(b), self.term(a))
            if isinstance(op, ast.Gt):
                return "(CLt %s %s)" % (self.term(b), self.term(a))
            self.fail(e, "comparison outside the language")
        if isinstance(e, ast.Attribute):
            return "(CTruthy %s)" % self.term(e)
        self.fail(e, "condition outside the language")


def compile_programs(classes, seen):
    """vid -> Coq text of the validator's program; every class that runs the validator must compile to the same text"""
    progs = {}
    for cname, info in seen.items():
        cls = None
        for c in classes.values():
            for k in c.__mro__:
                if k.__name__ == cname:
                    cls = k
        if cls is None:      # nested classes: find through annotations
            cls = _NESTED.get(cname)
        _need(cls is not None, "class object of %s not found" % cname)
        for v in info["validators"]:
            if v["vid"] in PROG_VIDS:
                text = _Compiler(cls, v["py"]).program()
                _need(progs.setdefault(v["vid"], text) == text, "%s compiles differently in %s" % (v["vid"], cname))
    _need(sorted(progs) == sorted(PROG_VIDS), "validators compiled: %r" % sorted(progs))
    return progs


_NESTED = {}


EXPECTED_CONFIG = {"frozen": True, "arbitrary_types_allowed": True, "str_to_lower": True, "str_strip_whitespace": True}


class TranslateError(Exception):
    pass


def _need(cond, msg):
    if not cond:
        raise TranslateError(msg)


def import_repo():
    root = os.path.realpath(vlib.repo_root())
    if root not in [os.path.realpath(p) for p in sys.path if p]:
        sys.path.insert(0, root)
    import opendsm
    where = os.path.realpath(os.path.dirname(opendsm.__file__))
    _need(where.startswith(root + os.sep), "opendsm imported from %s, expected under %s" % (where, root))
    from opendsm.common.base_settings import BaseSettings
    from opendsm.eemeter.models.daily.utilities import settings as ds
    from opendsm.eemeter.models.billing import settings as bs
    from opendsm.eemeter.models.hourly import settings as hs
    classes = {
        "DailySettings": ds.DailySettings, "DailyLegacySettings": ds.DailyLegacySettings,
        "BillingSettings": bs.BillingSettings, "BaseHourlySettings": hs.BaseHourlySettings,
        "HourlySolarSettings": hs.HourlySolarSettings, "HourlyNonSolarSettings": hs.HourlyNonSolarSettings,
    }
    return BaseSettings, classes


# ------------------------------------------------------------------ values

def to_plain(v):
    """python default -> canonical plain value (None/bool/Fraction/str/list)"""
    if v is None or isinstance(v, bool):
        return v
    if isinstance(v, enum.Enum):
        _need(isinstance(v.value, str), "enum member with a non-string value: %r" % (v,))
        return v.value
    if isinstance(v, int):
        return Fraction(v)
    if isinstance(v, float):
        _need(v == v and abs(v) != float("inf"), "non-finite default")
        return Fraction(v)
    if isinstance(v, str):
        return v
    if isinstance(v, (list, tuple)):
        return [to_plain(x) for x in v]
    raise TranslateError("default value of unsupported type: %r" % (v,))


def coq_str(s):
    _need(all(32 <= ord(c) < 127 for c in s), "non-printable / non-ASCII string %r" % s)
    return '"' + s.replace('"', '""') + '"'


def coq_jv(v):
    if v is None:
        return "JNull"
    if isinstance(v, bool):
        return "(JBool %s)" % ("true" if v else "false")
    if isinstance(v, Fraction):
        return "(JNum %s)" % vlib.qlit(v)
    if isinstance(v, str):
        return "(JStr %s)" % coq_str(v)
    if isinstance(v, list):
        return "(JList [%s])" % "; ".join(coq_jv(x) for x in v)
    raise TranslateError("cannot emit %r" % (v,))


def json_plain(v):
    """plain value -> JSON-able (Fractions as floats when exact, else as {"num":..,"den":..})"""
    if isinstance(v, Fraction):
        if v.denominator == 1:
            return int(v)
        f = float(v)
        _need(Fraction(f) == v, "default is not a binary64 number")
        return f
    if isinstance(v, list):
        return [json_plain(x) for x in v]
    return v


def plain_json(v):
    if isinstance(v, bool) or v is None or isinstance(v, str):
        return v
    if isinstance(v, (int, float)):
        return Fraction(v)
    if isinstance(v, list):
        return [plain_json(x) for x in v]
    raise TranslateError("approved_settings.json holds an unsupported value %r" % (v,))


# ------------------------------------------------------------------ types

def parse_annotation(ann, BaseSettings):
    """-> ('leaf', base, optional) | ('node', cls, optional); base is a dict {"b": ..., ...}"""
    optional = False
    args = None
    origin = typing.get_origin(ann)
    if origin is typing.Union or (hasattr(types, "UnionType") and origin is types.UnionType):
        args = [a for a in typing.get_args(ann)]
        if type(None) in args:
            optional = True
            args = [a for a in args if a is not type(None)]
        if len(args) == 1:
            ann = args[0]
            origin = typing.get_origin(ann)
            args = None
    if args is not None:     # a real union
        _need(len(args) == 2 and args[0] is float and typing.get_origin(args[1]) is typing.Literal
              and len(typing.get_args(args[1])) == 1 and isinstance(typing.get_args(args[1])[0], str),
              "unsupported union %r" % (ann,))
        return "leaf", {"b": "BFloatOrLit", "lit": typing.get_args(args[1])[0]}, optional
    if ann is bool:
        return "leaf", {"b": "BBool"}, optional
    if ann is float:
        return "leaf", {"b": "BFloat"}, optional
    if ann is int:
        return "leaf", {"b": "BInt"}, optional
    if ann is str:
        return "leaf", {"b": "BStr"}, optional
    if isinstance(ann, type) and issubclass(ann, enum.Enum):
        vals = sorted(m.value for m in ann)
        _need(issubclass(ann, str) and all(isinstance(v, str) for v in vals), "enum %r is not a str enum" % (ann,))
        _need(all(v == v.lower().strip() for v in vals), "enum %r has members that are not lower-case" % (ann,))
        return "leaf", {"b": "BEnum", "vals": vals}, optional
    if ann is list:
        return "leaf", {"b": "BListAny"}, optional
    if origin is list:
        (item,) = typing.get_args(ann)
        if item is float:
            return "leaf", {"b": "BListFloat"}, optional
        if item is str:
            return "leaf", {"b": "BListStr"}, optional
        raise TranslateError("unsupported list item type %r" % (item,))
    if isinstance(ann, type) and issubclass(ann, BaseSettings):
        return "node", ann, optional
    raise TranslateError("unsupported annotation %r" % (ann,))


def parse_bounds(meta, base):
    import annotated_types as at
    lo = hi = None
    for m in meta:
        if isinstance(m, at.Ge):
            _need(lo is None, "two lower bounds")
            lo = (Fraction(m.ge), False)
        elif isinstance(m, at.Gt):
            _need(lo is None, "two lower bounds")
            lo = (Fraction(m.gt), True)
        elif isinstance(m, at.Le):
            _need(hi is None, "two upper bounds")
            hi = (Fraction(m.le), False)
        elif isinstance(m, at.Lt):
            _need(hi is None, "two upper bounds")
            hi = (Fraction(m.lt), True)
        else:
            raise TranslateError("unsupported field constraint %r" % (m,))
    if lo is not None or hi is not None:
        _need(base["b"] in ("BFloat", "BInt"), "bounds on a non-numeric field")
    return lo, hi


def py_add_required(req, lst):
    lst = list(lst)
    for r in req:
        if r not in lst:
            lst.insert(0, r)
    return lst


def allowed_option_names(cls):
    """the literal tuple of `for opt in self.options: if opt not in (<names>): raise ...` in set_numeric_dict
    (None when the loop is absent), cross-checked by probing the class"""
    import ast
    import inspect
    import textwrap
    tree = ast.parse(textwrap.dedent(inspect.getsource(cls.set_numeric_dict)))
    found = []
    for node in ast.walk(tree):
        if isinstance(node, ast.For) and isinstance(node.iter, ast.Attribute) and node.iter.attr == "options" \
                and isinstance(node.target, ast.Name):
            _need(len(node.body) == 1 and isinstance(node.body[0], ast.If) and not node.body[0].orelse
                  and len(node.body[0].body) == 1 and isinstance(node.body[0].body[0], ast.Raise),
                  "%s.set_numeric_dict: loop over options has an unknown shape" % cls.__name__)
            t = node.body[0].test
            _need(isinstance(t, ast.Compare) and isinstance(t.left, ast.Name) and t.left.id == node.target.id
                  and len(t.ops) == 1 and isinstance(t.ops[0], ast.NotIn) and isinstance(t.comparators[0], (ast.Tuple, ast.List))
                  and all(isinstance(e, ast.Constant) and isinstance(e.value, str) for e in t.comparators[0].elts),
                  "%s.set_numeric_dict: test on an option has an unknown shape" % cls.__name__)
            found.append([e.value for e in t.comparators[0].elts])
    _need(len(found) <= 1, "%s.set_numeric_dict: several loops over options" % cls.__name__)
    allowed = found[0] if found else None
    # probes: a foreign option name is refused exactly when the tuple exists; a permutation of the defaults is fine
    dflt = list(cls.model_fields["options"].default)

    def accepted(opts):
        try:
            cls(options=opts)
            return True
        except Exception:
            return False
    _need(accepted(list(reversed(dflt))), "%s: a permutation of the default options is refused" % cls.__name__)
    _need(accepted(dflt + ["zzz_not_an_option"]) == (allowed is None),
          "%s: probing with a foreign option name contradicts the source pattern" % cls.__name__)
    if allowed is not None:
        _need(all(a == a.lower().strip() for a in allowed) and set(dflt) <= set(allowed),
              "%s: allowed option names %r do not cover the defaults" % (cls.__name__, allowed))
    return allowed


def class_info(cls, BaseSettings, seen):
    """-> dict describing one settings class (recursively registers nested classes into `seen`)"""
    name = cls.__name__
    _NESTED[name] = cls
    if name in seen:
        return seen[name]
    info = {"name": name, "fields": [], "validators": [], "ancestors": []}
    seen[name] = info
    cfg = dict(cls.model_config)
    _need(cfg == EXPECTED_CONFIG, "%s.model_config is %r" % (name, cfg))
    info["ancestors"] = [c.__name__ for c in cls.__mro__ if isinstance(c, type) and issubclass(c, BaseSettings)
                         and c is not BaseSettings]
    dec = cls.__pydantic_decorators__
    _need(not dec.root_validators and not dec.field_serializers and not dec.model_serializers
          and not dec.computed_fields and not dec.validators, "%s has decorators the translator does not know" % name)
    # field validators
    req = {}
    star = 0
    for vname, d in dec.field_validators.items():      # recognised by scope and mode, not by name
        if tuple(d.info.fields) == ("*",) and d.info.mode == "before":
            star += 1
        elif tuple(d.info.fields) == ("train_features",) and d.info.mode == "after":
            fn = getattr(cls, vname)
            full = fn([])
            r = list(reversed(full))
            for probe in ([], ["ghi"], ["temperature"], ["x"], ["ghi", "x", "temperature"], ["temperature", "ghi"]):
                _need(fn(list(probe)) == py_add_required(r, probe), "_add_required_features is not 'insert missing at 0'")
            req["train_features"] = r
        else:
            raise TranslateError("%s: unknown field validator %s" % (name, vname))
    _need(star == 1, "%s: %d field validators on '*' (mode before), the model has exactly one (lowercase_values)" % (name, star))
    # model validators
    befores = [n for n, d in dec.model_validators.items() if d.info.mode == "before"]
    _need(len(befores) == 1, "%s: before-validators are %r, the model has exactly one (key normalisation)" % (name, befores))
    for vname, d in dec.model_validators.items():
        if d.info.mode == "before":
            continue
        _need(d.info.mode == "after", "%s.%s has mode %s" % (name, vname, d.info.mode))
        reads = validator_reads(cls, vname)
        _need(reads in VALIDATOR_SIGNATURE, "%s: model validator %s reads %r, which matches no validator of Model/Settings.v"
              % (name, vname, sorted(reads)))
        info["validators"].append({"vid": VALIDATOR_SIGNATURE[reads], "py": vname})
    # fields
    for fname in sorted(cls.model_fields):
        f = cls.model_fields[fname]
        _need(fname == fname.lower().strip() and fname.isidentifier(), "field name %r is not normalised" % fname)
        kind, base, optional = parse_annotation(f.annotation, BaseSettings)
        extra = f.json_schema_extra
        if extra is None:
            dev = None
        else:
            _need(isinstance(extra, dict) and set(extra) == {"developer"} and isinstance(extra["developer"], bool),
                  "%s.%s json_schema_extra is %r" % (name, fname, extra))
            dev = extra["developer"]
        _need(f.alias is None and f.validation_alias is None and f.serialization_alias is None, "%s.%s has an alias" % (name, fname))
        _need(not f.is_required(), "%s.%s has no default" % (name, fname))
        if kind == "node":
            sub = class_info(base, BaseSettings, seen)
            _need(f.default_factory is base, "%s.%s default_factory is not its own class" % (name, fname))
            _need(not f.metadata, "%s.%s carries constraints" % (name, fname))
            _need(not f.exclude, "%s.%s is excluded" % (name, fname))
            _need(all(x["kind"] == "leaf" for x in sub["fields"]), "nested class %s is not flat" % sub["name"])
            info["fields"].append({"name": fname, "kind": "node", "dev": dev, "cls": sub["name"], "optional": optional})
        else:
            _need(f.default_factory is None, "%s.%s uses a default_factory" % (name, fname))
            lo, hi = parse_bounds(f.metadata, base)
            default = to_plain(f.default)
            if base["b"] == "BFloatOrLit":
                _need(default is None or isinstance(f.default, (float, str)),
                      "%s.%s default %r is neither float nor str (isinstance(..., float) in the validator)" % (name, fname, f.default))
            info["fields"].append({"name": fname, "kind": "leaf", "dev": dev, "base": base, "optional": optional,
                                   "lo": lo, "hi": hi, "default": default, "excl": bool(f.exclude),
                                   "req": req.get(fname, [])})
    names = {x["name"] for x in info["fields"]}
    for v in info["validators"]:
        for r in VALIDATOR_READS[v["vid"]]:
            _need(r in names, "%s: validator %s reads field %s which does not exist" % (name, v["py"], r))
        if v["vid"] == "VOptions":
            strs = sorted(x["name"] for x in info["fields"] if x["kind"] == "leaf" and x["base"]["b"] == "BStr")
            import opendsm.eemeter.models.daily.utilities.const as const
            cands = [sorted(k.lower() for k in d) for d in (const.season_num, const.weekday_num)]
            _need(strs in cands, "%s: set_numeric_dict iterates %r, string fields are %r" % (name, cands, strs))
            v["names"] = strs
            v["allowed"] = allowed_option_names(cls)
        if v["vid"] == "VWavelet":
            import pywt
            v["names"] = list(pywt.wavelist(kind="discrete"))
            v["modes"] = list(pywt.Modes.modes)
    if any(v["vid"] == "VDevMode" for v in info["validators"]):
        _need(info["validators"][0]["vid"] == "VDevMode", "%s: the developer-mode check is not the first validator" % name)
        for x in info["fields"]:
            _need(x["dev"] is not None, "%s.%s has no developer flag but the class runs _check_developer_mode" % (name, x["name"]))
    return info


def extract():
    BaseSettings, classes = import_repo()
    seen = {}
    for n in TOP_CLASSES:
        _need(classes[n].__name__ == n, "class %s is named %s" % (n, classes[n].__name__))
        class_info(classes[n], BaseSettings, seen)
    # nested classes must not run the lock themselves (the model enters them from the root only)
    for n, info in seen.items():
        for f in info["fields"]:
            if f["kind"] == "node":
                sub = seen[f["cls"]]
                _need(all(v["vid"] != "VDevMode" for v in sub["validators"]), "nested class %s runs the lock itself" % sub["name"])
                if f["dev"] is None:
                    _need(all(x["dev"] is None for x in sub["fields"]), "mixed developer flags in %s" % sub["name"])
    for n in LOCKED_FAMILIES:
        _need(seen[n]["validators"] and seen[n]["validators"][0]["vid"] == "VDevMode", "%s does not run the developer-mode check" % n)
    return {"classes": seen, "top": list(TOP_CLASSES), "programs": compile_programs(classes, seen)}


# ------------------------------------------------------------------ flat view / approved file

def domain_of(f):
    """JSON-able description of a leaf's type (what the approved file freezes next to the default)"""
    d = {"b": f["base"]["b"], "optional": f["optional"]}
    if f["base"]["b"] in ("BFloat", "BInt"):
        d["lo"] = None if f["lo"] is None else [json_plain(f["lo"][0]), f["lo"][1]]
        d["hi"] = None if f["hi"] is None else [json_plain(f["hi"][0]), f["hi"][1]]
    if f["base"]["b"] == "BEnum":
        d["vals"] = list(f["base"]["vals"])
    if f["base"]["b"] == "BFloatOrLit":
        d["lit"] = f["base"]["lit"]
    return d


def leaf_of_domain(d):
    """inverse of domain_of, into the shape coq_base() wants"""
    base = {"b": d["b"]}
    if d["b"] == "BEnum":
        base["vals"] = list(d["vals"])
    if d["b"] == "BFloatOrLit":
        base["lit"] = d["lit"]
    lo = hi = None
    if d["b"] in ("BFloat", "BInt"):
        lo = None if d["lo"] is None else (Fraction(d["lo"][0]), bool(d["lo"][1]))
        hi = None if d["hi"] is None else (Fraction(d["hi"][0]), bool(d["hi"][1]))
    return {"base": base, "lo": lo, "hi": hi, "optional": bool(d["optional"])}


def flat_fields(info, cname):
    """[(path tuple, default plain, dev flag or None, leaf dict)] of a top class, nested classes expanded"""
    out = []
    for f in info["classes"][cname]["fields"]:
        if f["kind"] == "leaf":
            out.append(((f["name"],), f["default"], f["dev"], f))
        else:
            for g in info["classes"][f["cls"]]["fields"]:
                out.append(((f["name"], g["name"]), g["default"], g["dev"], g))
    return out


CONSTRUCTORS = {
    "DailyModel()": "DailySettings",
    "DailyModel(model='legacy')": "DailyLegacySettings",
    "BillingModel()": "DailyLegacySettings",
    "BillingWeightedModel()": "BillingSettings",
    "HourlyModel()": "BaseHourlySettings",
}
OPEN_FIELDS = ["developer_mode", "silent_developer_mode", "uncertainty_alpha", "season.*", "weekday_weekend.*"]


def freeze(info):
    doc = {
        "_comment": "Frozen transcription of the approved method constants (defaults and developer locks of the settings "
                    "classes) as of the tree verified in round 2. Written once by `translate_settings.py --freeze`; the C14 "
                    "check compares the regenerated trees with it. Change only together with a method change.",
        "constructors": CONSTRUCTORS,
        "open_fields": OPEN_FIELDS,
        "families": {},
    }
    for c in info["top"]:
        doc["families"][c] = [{"path": ".".join(p), "default": json_plain(d), "locked": bool(dev), "domain": domain_of(lf)}
                              for p, d, dev, lf in flat_fields(info, c)]
    with open(APPROVED, "w") as f:      # one field per line
        f.write("{\n")
        for k in ("_comment", "constructors", "open_fields"):
            f.write(" %s: %s,\n" % (json.dumps(k), json.dumps(doc[k])))
        f.write(' "families": {\n')
        for i, c in enumerate(info["top"]):
            f.write("  %s: [\n" % json.dumps(c))
            rows = doc["families"][c]
            f.write(",\n".join("   " + json.dumps(r) for r in rows))
            f.write("\n  ]%s\n" % ("," if i + 1 < len(info["top"]) else ""))
        f.write(" }\n}\n")
    return doc


def load_approved():
    _need(os.path.exists(APPROVED), "approved_settings.json is missing")
    doc = json.load(open(APPROVED))
    _need(set(doc["families"]) == set(TOP_CLASSES), "approved_settings.json families: %r" % sorted(doc["families"]))
    return doc


# ------------------------------------------------------------------ Coq text

def coq_bound(b):
    return "None" if b is None else "(Some (%s, %s))" % (vlib.qlit(b[0]), "true" if b[1] else "false")


def coq_base(f):
    b = f["base"]
    k = b["b"]
    if k in ("BFloat", "BInt"):
        return "(%s %s %s)" % (k, coq_bound(f["lo"]), coq_bound(f["hi"]))
    if k == "BEnum":
        return "(BEnum [%s])" % "; ".join(coq_str(v) for v in b["vals"])
    if k == "BFloatOrLit":
        return "(BFloatOrLit %s)" % coq_str(b["lit"])
    return k


def coq_vid(v):
    if v["vid"] == "VOptions":
        al = "None" if v["allowed"] is None else "(Some [%s])" % "; ".join(coq_str(n) for n in v["allowed"])
        return "(VOptions [%s] %s)" % ("; ".join(coq_str(n) for n in v["names"]), al)
    if v["vid"] == "VWavelet":
        return "(VWavelet wavelet_names wavelet_modes)"
    return v["vid"]


def coq_leaf(f):
    return ("Leaf {| lname := %s; ldev := %s; lty := {| base := %s; optional := %s |}; ldefault := %s; lexcl := %s; lreq := [%s] |}"
            % (coq_str(f["name"]), "true" if f["dev"] else "false", coq_base(f), "true" if f["optional"] else "false",
               coq_jv(f["default"]), "true" if f["excl"] else "false", "; ".join(coq_str(r) for r in f["req"])))


def coq_children(info, cname):
    out = []
    for f in info["classes"][cname]["fields"]:
        if f["kind"] == "leaf":
            out.append(coq_leaf(f))
        else:
            out.append("node_%s %s %s %s" % (f["cls"], coq_str(f["name"]), "true" if f["dev"] else "false",
                                             "true" if f["optional"] else "false"))
    return "[\n    " + ";\n    ".join(out) + "\n  ]"


def coq_text(info, approved):
    cl = info["classes"]
    wave = None
    for c in cl.values():
        for v in c["validators"]:
            if v["vid"] == "VWavelet":
                wave = v
    out = ["(* GENERATED by harness/translate_settings.py from the pydantic classes of opendsm — do not edit. *)",
           "From Coq Require Import ZArith QArith List Bool String.", "From V Require Import Model.Settings Model.SettingsProg.",
           "Import ListNotations.", "Open Scope string_scope.", ""]
    if wave:
        out += ["Definition wavelet_names : list string := [%s]." % "; ".join(coq_str(n) for n in wave["names"]),
                "Definition wavelet_modes : list string := [%s]." % "; ".join(coq_str(n) for n in wave["modes"]), ""]
    order = []           # nested classes first
    for n, c in cl.items():
        if all(f["kind"] == "leaf" for f in c["fields"]) and n not in info["top"]:
            order.append(n)
    for n in order:
        c = cl[n]
        out += ["Definition vals_%s : list vid := [%s]." % (n, "; ".join(coq_vid(v) for v in c["validators"])),
                "Definition children_%s : list stree := %s." % (n, coq_children(info, n)),
                "Definition node_%s (name : string) (dev opt : bool) : stree :=\n  Node name dev %s opt vals_%s children_%s."
                % (n, coq_str(n), n, n), ""]
    for n in info["top"]:
        c = cl[n]
        out += ["Definition children_%s : list stree := %s." % (n, coq_children(info, n)),
                "Definition t_%s : stree :=\n  Node \"\" false %s false [%s] children_%s."
                % (n, coq_str(n), "; ".join(coq_vid(v) for v in c["validators"]), n), ""]
    out += ["(* the bodies of the daily-family model validators, compiled from their source (python ast) *)"]
    for vid in PROG_VIDS:
        out += ["Definition prog_%s : list vstmt :=\n  %s." % (vid, info["programs"][vid])]
    out += [""]
    regs = []
    for n in order:
        regs.append("(%s, ([%s], node_%s \"\" false false))" % (coq_str(n), "; ".join(coq_str(a) for a in cl[n]["ancestors"]), n))
    for n in info["top"]:
        regs.append("(%s, ([%s], t_%s))" % (coq_str(n), "; ".join(coq_str(a) for a in cl[n]["ancestors"]), n))
    out += ["Definition reg : registry := [\n  " + ";\n  ".join(regs) + "\n].", ""]
    out += ["Definition top_classes : list string := [%s]." % "; ".join(coq_str(n) for n in info["top"]),
            "Definition locked_families : list string := [%s]." % "; ".join(coq_str(n) for n in LOCKED_FAMILIES), ""]
    # approved (from /verif/approved_settings.json)
    out += ["(* from /verif/approved_settings.json (frozen) *)"]
    for n in info["top"]:
        rows = []
        for r in approved["families"][n]:
            rows.append("([%s], %s, %s)" % ("; ".join(coq_str(p) for p in r["path"].split(".")),
                                           coq_jv(plain_json(r["default"])), "true" if r["locked"] else "false"))
        out += ["Definition approved_%s : list (list string * jv * bool) := [\n  %s\n]." % (n, ";\n  ".join(rows)), ""]
        doms = []
        for r in approved["families"][n]:
            lf = leaf_of_domain(r["domain"])
            doms.append("([%s], {| base := %s; optional := %s |})" % ("; ".join(coq_str(p) for p in r["path"].split(".")),
                                                                    coq_base(lf), "true" if lf["optional"] else "false"))
        out += ["Definition approved_dom_%s : list (list string * ftype) := [\n  %s\n]." % (n, ";\n  ".join(doms)), ""]
    opens = []
    for p in approved["open_fields"]:
        parts = p.split(".")
        opens.append("[%s]" % "; ".join(coq_str(x) for x in parts))
    out += ["(* the documented open (non-developer) fields; \"*\" stands for every field of that nested object *)",
            "Definition open_fields : list (list string) := [%s]." % "; ".join(opens), ""]
    out += ["Definition approved_of (c : string) : list (list string * jv * bool) :=\n  "
            + "\n  ".join("if String.eqb c %s then approved_%s else" % (coq_str(n), n) for n in info["top"]) + " [].", ""]
    out += ["Definition approved_dom_of (c : string) : list (list string * ftype) :=\n  "
            + "\n  ".join("if String.eqb c %s then approved_dom_%s else" % (coq_str(n), n) for n in info["top"]) + " [].", ""]
    return "\n".join(out)


def generate(run=None):
    info = extract()
    approved = load_approved()
    text = coq_text(info, approved)
    if run is not None:
        run.write_generated("Generated/SettingsGen.v", text)
    else:
        p = os.path.join(vlib.COQ, "Generated", "SettingsGen.v")
        os.makedirs(os.path.dirname(p), exist_ok=True)
        with vlib.Lock(True):
            old = open(p).read() if os.path.exists(p) else None
            if old != text:
                tmp = p + ".tmp%d" % os.getpid()
                open(tmp, "w").write(text)
                os.replace(tmp, p)
    info["approved"] = approved
    return info


if __name__ == "__main__":
    if "--freeze" in sys.argv:
        print(json.dumps(freeze(extract()), indent=1)[:2000])
    else:
        i = generate(None)
        print("classes:", sorted(i["classes"]))
