#!/venv/bin/python
"""Regenerates the generated tables of DESIGN.md section 11 (between the markers) from manifest.d/, evidence/,
known_findings*.json and seeded/*/meta.json, so that the document describes the tree."""
import glob, json, os, re
V = os.path.dirname(os.path.dirname(os.path.abspath(__file__)))
B, E = "<!-- BEGIN GENERATED STATUS -->", "<!-- END GENERATED STATUS -->"

def cell(s, n=None):
    s = str(s).replace("|", "\\|").replace("\n", " ")
    return s if n is None or len(s) <= n else s[: n - 1] + "…"

def main():
    out = []
    enabled = open(os.path.join(V, "manifest.d", "ENABLED")).read().split()
    out.append("### 11.2 Status per property (generated from manifest.d/, evidence/ of the last run)\n")
    out.append("| id | registered | theorems+examples (discharged) | supporting lemmas | axioms reported by Print Assumptions | cases last quick run (distinct non-trivial) | wall s | known findings reproduced |")
    out.append("|---|---|---|---|---|---|---|---|")
    for i in range(1, 21):
        pid = "C%02d" % i
        ev = os.path.join(V, "evidence", pid + ".json")
        if os.path.exists(ev):
            e = json.load(open(ev)); c = e["coverage"]
            ax = ", ".join(a.split(".")[-1] for a in c.get("axioms", []) if not re.match(r"(PrimFloat|PrimInt63|Uint63|PrimArray)", a)) or "none"
            out.append("| %s | %s | %s (%s) | %s | %s | %s (%s) | %s | %s |" % (
                pid, "yes" if pid in enabled else "no", c.get("obligations"), c.get("discharged"), c.get("supporting_lemmas", ""),
                ax, c.get("evaluations"), c.get("distinct_nontrivial"), int(e.get("wall_s", 0)),
                ", ".join(sorted(c.get("known_findings_reproduced", {}).keys())) or "-"))
        else:
            out.append("| %s | %s | - | - | - | - | - | - |" % (pid, "yes" if pid in enabled else "no"))
    out.append("")
    # findings
    allf = list(json.load(open(os.path.join(V, "known_findings.json")))["findings"])
    for p in sorted(glob.glob(os.path.join(V, "known_findings.d", "*.json"))):
        allf += json.load(open(p))["findings"]
    seen = set(); fixed = []; known = []
    for f in allf:
        if f["id"] in seen:
            continue
        seen.add(f["id"])
        (fixed if f["status"] == "fixed" else known).append(f)
    out.append("### 11.3a Genuine defects repaired in /repo (`fix:` commits; `fixed` entries suppress nothing)\n")
    out.append("| finding | commit | what failed |")
    out.append("|---|---|---|")
    for f in sorted(fixed, key=lambda f: f["id"]):
        w = re.sub(r"^fixed: property=\S+ \S+ ", "", f["what"])
        out.append("| %s | %s | %s |" % (f["id"], f.get("commit", ""), cell(w, 260)))
    out.append("")
    out.append("### 11.3b Genuine defects recorded as known findings (printed as KNOWN-FINDING, matched by signature)\n")
    out.append("| finding | signature | what fails |")
    out.append("|---|---|---|")
    for f in sorted(known, key=lambda f: f["id"]):
        out.append("| %s | `%s` | %s |" % (f["id"], cell(json.dumps(f["signature"], sort_keys=True), 160), cell(f["what"], 300)))
    out.append("")
    out.append("### 11.4 Seeded-change trials (independent sub-agents; changes kept under seeded/<id>/)\n")
    out.append("| change | property | what it breaks | needs | result |")
    out.append("|---|---|---|---|---|")
    for d in sorted(glob.glob(os.path.join(V, "seeded", "C*-*"))):
        m = os.path.join(d, "meta.json")
        tag = os.path.basename(d)
        if os.path.exists(m):
            j = json.load(open(m))
            out.append("| %s | %s | %s | %s | %s |" % (tag, j["property"], cell(j["breaks"], 220), cell(j["needs_to_manifest"], 160), cell(j["result"], 320)))
        else:
            out.append("| %s | %s | (not tried yet) | | |" % (tag, tag.split("-")[0]))
    out.append("")
    p = os.path.join(V, "DESIGN.md")
    s = open(p).read()
    i, j = s.index(B), s.index(E)
    s = s[: i + len(B)] + "\n\n" + "\n".join(out) + "\n" + s[j:]
    open(p, "w").write(s)
    print("DESIGN.md tables regenerated: %d fixed, %d known, %d seeded dirs" % (len(fixed), len(known), len(glob.glob(os.path.join(V, "seeded", "C*-*")))))

if __name__ == "__main__":
    main()
