"""Synthetic meters and data objects for the checks that need real fits (C02, C03, C04, C05, C01 …).
Everything is derived from an explicit random.Random so that cases replay exactly."""
import math
import warnings

import numpy as np
import pandas as pd

warnings.simplefilter("ignore")


def _np_rng(rng):
    return np.random.default_rng(rng.randrange(2**32))


def weather_daily(rng, ndays, t_mean=55.0, t_amp=22.0, phase=None, noise=4.0):
    r = _np_rng(rng)
    doy = np.arange(ndays)
    phase = rng.uniform(80, 120) if phase is None else phase
    return t_mean + t_amp * np.sin((doy - phase) / 365.0 * 2 * np.pi) + r.normal(0, noise, ndays)


def usage_from_temp(rng, T, base=20.0, bh=1.2, bc=0.8, bph=52.0, bpc=68.0, noise=0.03, weekend=1.0, dow=None):
    r = _np_rng(rng)
    y = base + bh * np.maximum(bph - T, 0) + bc * np.maximum(T - bpc, 0)
    if dow is not None and weekend != 1.0:
        y = np.where(dow >= 5, y * weekend, y)
    return y * (1 + r.normal(0, noise, len(T)))


def daily_frame(rng, tz="US/Pacific", start="2022-01-01", ndays=365, noise=0.03, **kw):
    idx = pd.date_range(start, periods=ndays, freq="D", tz=tz)
    T = weather_daily(rng, ndays)
    y = usage_from_temp(rng, T, noise=noise, dow=idx.dayofweek.values, **kw)
    return pd.DataFrame({"observed": y, "temperature": T}, index=idx)


def hourly_frame(rng, tz="US/Pacific", start="2022-01-01", ndays=365, noise=0.05, ghi=False, scale=1.0):
    idx = pd.date_range(start, periods=ndays * 24, freq="h", tz=tz)
    n = len(idx)
    r = _np_rng(rng)
    Td = np.repeat(weather_daily(rng, ndays + 2), 24)[:n]
    hour = idx.hour.values
    Th = Td + 6 * np.sin((hour - 9) / 24 * 2 * np.pi)
    y = 1 + 0.05 * np.maximum(50 - Th, 0) + 0.04 * np.maximum(Th - 68, 0) + 0.3 * np.sin(hour / 24 * 2 * np.pi) ** 2
    y = y + np.where(idx.dayofweek.values >= 5, 0.15, 0.0)
    y = scale * y * (1 + r.normal(0, noise, n))
    df = pd.DataFrame({"observed": y, "temperature": Th}, index=idx)
    if ghi:
        df["ghi"] = np.maximum(0, 800 * np.sin((hour - 6) / 12 * np.pi)) * (0.6 + 0.4 * r.random(n))
    return df


def billing_series(rng, tz="US/Pacific", start="2021-12-15", nperiods=12, noise=0.03):
    """monthly billed usage (period totals stamped at period start, NaN-terminated) + hourly temperature"""
    starts = [pd.Timestamp(start, tz=tz)]
    for _ in range(nperiods):
        starts.append((starts[-1] + pd.Timedelta(days=rng.randrange(28, 33))).normalize())
    ndays = (starts[-1] - starts[0]).days + 2
    didx = pd.date_range(starts[0], periods=ndays, freq="D", tz=tz)
    T = weather_daily(rng, ndays)
    y = usage_from_temp(rng, T, noise=noise)
    daily = pd.Series(y, index=didx)
    vals = []
    for a, b in zip(starts[:-1], starts[1:]):
        vals.append(daily[(daily.index >= a) & (daily.index < b)].sum())
    vals.append(np.nan)
    meter = pd.Series(vals, index=pd.DatetimeIndex(starts), name="observed")
    hidx = pd.date_range(starts[0], periods=ndays * 24, freq="h", tz=tz)
    temp = pd.Series(np.repeat(T, 24)[: len(hidx)], index=hidx, name="temperature")
    return meter, temp


# ------------------------------------------------------------------ data objects

def daily_baseline(df, electric=True):
    from opendsm.eemeter import DailyBaselineData
    return DailyBaselineData(df, is_electricity_data=electric)


def daily_reporting(df, electric=True):
    from opendsm.eemeter import DailyReportingData
    return DailyReportingData(df, is_electricity_data=electric)


def hourly_baseline(df, electric=True):
    from opendsm.eemeter import HourlyBaselineData
    return HourlyBaselineData(df, is_electricity_data=electric)


def hourly_reporting(df, electric=True):
    from opendsm.eemeter import HourlyReportingData
    return HourlyReportingData(df, is_electricity_data=electric)


def billing_baseline(meter, temp, electric=True):
    from opendsm.eemeter import BillingBaselineData
    return BillingBaselineData.from_series(meter, temp, is_electricity_data=electric)


def billing_reporting(meter, temp, electric=True):
    from opendsm.eemeter import BillingReportingData
    return BillingReportingData.from_series(meter, temp, is_electricity_data=electric)


def caltrack_baseline(df, electric=True):
    from opendsm.eemeter import HourlyCaltrackBaselineData
    return HourlyCaltrackBaselineData.from_series(df["observed"], df["temperature"], is_electricity_data=electric)


def caltrack_reporting(df, electric=True):
    from opendsm.eemeter import HourlyCaltrackReportingData
    return HourlyCaltrackReportingData.from_series(df["observed"] if "observed" in df else None, df["temperature"],
                                                   is_electricity_data=electric)


def frame_digest(obj):
    """deep, order-sensitive digest of a DataFrame / Series / list of warnings (bit-level for floats)"""
    import hashlib
    h = hashlib.sha256()
    if isinstance(obj, (pd.DataFrame, pd.Series)):
        fr = obj.to_frame() if isinstance(obj, pd.Series) else obj
        h.update(repr(list(map(str, fr.columns))).encode())
        h.update(repr(str(fr.index.dtype)).encode())
        idx = fr.index
        if isinstance(idx, pd.DatetimeIndex):
            h.update(idx.asi8.tobytes())
            h.update(str(idx.tz).encode())
        else:
            h.update(repr(list(idx)).encode())
        for c in fr.columns:
            col = fr[c]
            if col.dtype.kind in "fiub":
                h.update(np.ascontiguousarray(col.to_numpy()).tobytes())
            else:
                h.update(repr(list(col)).encode())
    else:
        h.update(repr(obj).encode())
    return h.hexdigest()[:16]


def warning_names(ws):
    return sorted(w.qualified_name for w in ws)
