"""C06 — predictions come back one row per input timestamp, on the real clock.
Model: coq/Model/Dst.v (+ PredictRows.v); theorems: coq/Properties/C06.v; tie: correspondence (this file).

Streams
  gi   _get_dst_indices                    real function on tz-aware hourly frames          vs Dst.get_dst_indices
  cd   correct_dst closure + np.array      through HourlyModel._get_feature_matrices         vs Dst.feature_matrix
  td   _transform_dst                      real function                                     vs Dst.transform_dst
  ts   the commented insert/delete loop    text taken from the source file and executed      vs Dst.transform_spec
  ex   correct_dst -> _transform_dst chain  goes through / fails on random clock patterns     vs Dst.pattern_ok (exact guard)
  ci   _get_contiguous_datetime            index of HourlyReportingData(...).df              vs Dst.contiguous_index
  hp   HourlyModel.predict                 outcome (rows / index kept / exception class)     vs Dst.hourly_predict
  dp   DailyModel / BillingModel.predict   row accounting and finiteness pattern             vs PredictRows.daily_predict
Local clock fields, transition instants and the resolvability of date labels come from zoneinfo (harness/c06zones.py),
not from pandas; they are cross-checked against the index pandas builds (a difference is a harness alarm)."""
import contextlib
import io
import json
import logging
import math
import os
import random
import re
import sys
import traceback
import warnings
from multiprocessing import get_context

import numpy as np
import pandas as pd

import c06zones as cz
import vlib
from vlib import Run, zlit, coq_list, coq_bool

warnings.simplefilter("ignore")
logging.disable(logging.CRITICAL)

IMPORTS = "From V Require Import Model.Dst Model.PredictRows Model.DstRun."
MIN = 60 * 10**9
ERR = {"KeyError": "EKey", "IndexError": "EIndex", "UnboundLocalError": "EUnbound"}
XCLS = {"ValueError": "XValueError", "IndexError": "XIndexError", "UnboundLocalError": "XUnboundLocalError",
        "KeyError": "XKeyError"}

CASE_TYPE = {
    "gi": "(policy * list cday * res dst_indices)%type",
    "cd": "(list (list Z) * dst_indices * res (list (list Z)))%type",
    "td": "(list Z * dst_indices * res (list Z))%type",
    "ts": "(list Z * dst_indices * option (list Z))%type",
    "ci": "(Z * Z * list Z)%type",
    "hp": "(policy * list cday * outcome)%type",
    "dp": "(bool * nat * list dcase_row * list (Z * bool))%type",
    "ex": "(list daykind * bool)%type",
}

POLICY = "(policy_of false false)"      # behaviour of the implementation on the probes (set in main)

MODEL_JSON = None          # one fitted hourly model, re-labelled per zone (set in main before the pool forks)


# ------------------------------------------------------------------ small helpers

def idx_minutes(idx):
    unit = getattr(idx, "unit", "ns")
    div = {"ns": 60 * 10**9, "us": 60 * 10**6, "ms": 60 * 10**3, "s": 60}[unit]
    a = idx.asi8
    if len(a) and any(int(t) % div for t in a[:3]):
        raise RuntimeError("index not on whole minutes")
    return [int(t) // div for t in a]


def where_of(exc):
    """innermost function of the package under verification in the traceback"""
    fn = None
    for fr in traceback.extract_tb(exc.__traceback__):
        if "/opendsm/" in fr.filename:
            fn = fr.name
    return fn or "?"


def exc_obs(e):
    return {"raised": type(e).__name__, "where": where_of(e), "msg": str(e)[:90]}


def group_days(minutes, z):
    """[(ordinal, [(utc minute, hour, minute)])]: the rows of each local date in index order, dates ascending — what
    `groupby(df.index.date)` / `groupby("date")` see.  (Rows of one date are consecutive except where the clock is
    set back across midnight: Antarctica/Casey 2010-03-05 02:00 -> 2010-03-04 23:00.)"""
    by = {}
    for m in minutes:
        od, hh, mm, _ = cz.local_fields(m, z)
        by.setdefault(od, []).append((m, hh, mm))
    return [(od, by[od]) for od in sorted(by)]


def day_loc(od, z):
    """exception class of df.loc["YYYY-MM-DD"] on a tz-aware index, from the tz database: KeyError when local
    00:00 of the date does not exist or is ambiguous, ValueError when 23:59:59.999999 is"""
    st, en = cz.day_label_status(od, z)
    if st != "ok":
        return "EKey"
    if en != "ok":
        return "EValue"
    return None


def flags_of(days, z):
    """classification of a span by what the clock does in it (days: group_days of the hourly grid the span OUGHT to have:
    local 00:00 of the first supplied day .. wall-clock 23:00 of the last one — from the tz database, not from the frame
    the implementation built, so that a frame with a truncated or surplus day is not mistaken for an unusual zone)"""
    sub = any(mm for _, rows in days for _, _, mm in rows)
    counts = [len(rows) for _, rows in days]
    multi = any(c not in (23, 24, 25) for c in counts)
    midnight = any(day_loc(od, z) is not None for od, rows in days if len(rows) in (23, 25))
    change = any(c != 24 for c in counts) or sub
    short23 = any(len(rows) == 23 and 23 not in {h for _, h, _ in rows} for _, rows in days)
    long23_last = bool(days) and len(days[-1][1]) == 25 and [h for _, h, _ in days[-1][1]].count(23) == 2
    return {"sub_hour_shift": sub, "multi_hour_shift": multi, "midnight_change": midnight, "clock_change_in_span": change,
            "skips_hour_23": short23, "ends_on_repeated_hour_23": long23_last}


def ideal_grid(first, last, z):
    """the hourly grid a data object built from readings first..last (UTC minutes) has to carry"""
    return list(range(cz.replace_hour(first, z, 0), cz.replace_hour(last, z, 23) + 1, 60))


def coq_cdays(days, z, obs_nonnull):
    """days: group_days output; obs_nonnull: {utc minute: bool} or a list aligned with the rows in `days` order.
    A day whose rows are not 60 minutes apart (rows dropped by a test variant, or a date visited twice) is given
    unique artificial stamps: only the uniqueness of the stamps enters the model, never their value."""
    out = []
    k = 0
    for n_day, (od, rows) in enumerate(days):
        base = rows[0][0]
        if any(b[0] - a[0] != 60 for a, b in zip(rows, rows[1:])):
            base = -(10**9) - n_day * 10**5
        if isinstance(obs_nonnull, dict):
            pat = [obs_nonnull[r[0]] for r in rows]
        else:
            pat = obs_nonnull[k:k + len(rows)]
        k += len(rows)
        default = sum(pat) * 2 >= len(pat)
        holes = [i for i, p in enumerate(pat) if p != default]
        loc = day_loc(od, z)
        out.append("(%s, %s, (%s, %s), %s)" % (zlit(base), coq_list([str(h) for _, h, _ in rows]), coq_bool(default),
                                               coq_list([str(i) for i in holes]), "None" if loc is None else "(Some %s)" % loc))
    return coq_list(out)


def coq_pairs(l):
    return coq_list(["(%d, %d)" % (int(a), int(b)) for a, b in l])


def coq_idx(idx):
    return "(%s, %s)" % (coq_pairs(idx[0]), coq_pairs(idx[1]))


def coq_zlist(l):
    return coq_list([zlit(int(v)) for v in l])


def as_int_list(a):
    out = []
    for v in a:
        f = float(v)
        if f != int(f):
            raise RuntimeError("non-integer value %r in an exact stream" % v)
        out.append(int(f))
    return out


# ------------------------------------------------------------------ implementation adapters

def impl_gi(df):
    from opendsm.eemeter.models.hourly.model import _get_dst_indices
    try:
        i, m = _get_dst_indices(df)
        return {"ok": [[list(map(int, p)) for p in i], [list(map(int, p)) for p in m]]}
    except Exception as e:   # noqa
        return exc_obs(e)


_BARE = None


def bare_model(nfeat):
    from opendsm.eemeter import HourlyModel
    m = HourlyModel.__new__(HourlyModel)
    m._ts_feature_norm = ["f%d" % i for i in range(nfeat)]
    m._categorical_features = []
    m.is_fitted = True
    return m


def impl_cd(day_lengths, idx, nfeat=1):
    """the correct_dst closure, reached through _get_feature_matrices of a bare fitted model.
    feature f of row r of day d holds 4 * (1000 * f + running row number + 1)"""
    from opendsm.eemeter import HourlyModel
    date, cols = [], [[] for _ in range(nfeat)]
    r = 0
    agg = [[[] for _ in day_lengths] for _ in range(nfeat)]
    for d, n in enumerate(day_lengths):
        for _ in range(n):
            date.append(d)
            for f in range(nfeat):
                v = 4 * (100000 * f + r + 1)
                cols[f].append(float(v))
                agg[f][d].append(v)
            r += 1
    df = pd.DataFrame({"f%d" % f: cols[f] for f in range(nfeat)})
    df["date"] = date
    try:
        X, _ = HourlyModel._get_feature_matrices(bare_model(nfeat), df, ([tuple(p) for p in idx[0]], [tuple(p) for p in idx[1]]))
    except Exception as e:   # noqa
        return agg, exc_obs(e)
    L = X.shape[1] // nfeat
    mats = [[as_int_list(2 * X[d, f * L:(f + 1) * L]) for d in range(X.shape[0])] for f in range(nfeat)]
    return agg, {"ok2": mats}       # values doubled: a mean of two multiples of 4 is an integer, kept exact


def impl_td(pred, idx):
    from opendsm.eemeter.models.hourly.model import _transform_dst
    try:
        out = _transform_dst(np.array(pred, dtype=float), ([tuple(p) for p in idx[0]], [tuple(p) for p in idx[1]]))
        return {"ok": as_int_list(out)}
    except Exception as e:   # noqa
        return exc_obs(e)


_LOOP = None


def source_loop():
    """the commented "equivalent" block at the end of _transform_dst, taken from the source file"""
    global _LOOP
    if _LOOP is None:
        src = open(os.path.join(vlib.repo_root(), "opendsm/eemeter/models/hourly/model.py")).read()
        m = re.search(r"## the block above is equivalent to:\n((?:[ \t]*#[^\n]*\n)+)", src)
        if not m:
            _LOOP = False
        else:
            body = [re.sub(r"^\s*# ?", "", ln) for ln in m.group(1).splitlines()]
            code = "def loop(prediction, ops, REMOVE, INTERPOLATE):\n" + "\n".join("    " + ln for ln in body) + "\n"
            ns = {"np": np}
            try:
                exec(code, ns)
                _LOOP = ns["loop"]
            except Exception:   # noqa
                _LOOP = False
    return _LOOP


def impl_ts(pred, idx):
    loop = source_loop()
    if not loop:
        return None
    REMOVE, INTERPOLATE = 1, 2
    rem = [(REMOVE, d * 24 + h) for d, h in idx[0]]
    ins = [(INTERPOLATE, d * 24 + h + 1) for d, h in idx[1]]
    ops = sorted(rem + ins, key=lambda t: t[1])
    try:
        return {"ok": as_int_list(loop(np.array(pred, dtype=float), ops, REMOVE, INTERPOLATE))}
    except IndexError:
        return {"none": True}


def hourly_model_for(z):
    from opendsm.eemeter import HourlyModel
    d = json.loads(MODEL_JSON)
    d["info"]["baseline_timezone"] = z
    return HourlyModel.from_dict(d)


def fit_hourly():
    import fitlib
    from opendsm.eemeter import HourlyModel
    rng = random.Random(7)
    df = fitlib.hourly_frame(rng, tz="UTC", start="2022-01-01", ndays=365)
    with contextlib.redirect_stdout(io.StringIO()):
        m = HourlyModel().fit(fitlib.hourly_baseline(df), ignore_disqualification=True)
    return json.dumps(m.to_dict())


def hourly_input(case):
    """the frame handed to HourlyReportingData: hourly readings from `start` (UTC minute), `n` hours, rows listed in
    `gaps` absent, temperature/observed NaN at the listed positions"""
    z = case["zone"]
    idx = pd.DatetimeIndex(pd.to_datetime([(case["start"] + 60 * k) * MIN for k in range(case["n"])], utc=True)).tz_convert(z)
    n = case["n"]
    hour = np.arange(n) % 24
    temp = 55.0 + 15.0 * np.sin(np.arange(n) / 24.0 / 30.0) + 6.0 * np.sin((hour - 9) / 24.0 * 2 * np.pi)
    obs = 1.0 + 0.05 * np.maximum(50 - temp, 0) + 0.04 * np.maximum(temp - 68, 0) + 0.3 * np.sin(hour / 24.0 * 2 * np.pi) ** 2
    df = pd.DataFrame({"observed": obs, "temperature": temp}, index=idx)
    for p in case.get("temp_nan", []):
        df.iloc[p, 1] = np.nan
    for p in case.get("obs_nan", []):
        df.iloc[p, 0] = np.nan
    if case.get("gaps"):
        keep = np.ones(n, dtype=bool)
        keep[case["gaps"]] = False
        df = df[keep]
    if not case["with_obs"]:
        df = df[["temperature"]]
    return df


def run_hp(case):
    """worker: one full HourlyModel.predict"""
    try:
        from opendsm.eemeter import HourlyReportingData
        z = case["zone"]
        inp = hourly_input(case)
        try:
            with contextlib.redirect_stdout(io.StringIO()):
                data = HourlyReportingData(inp, is_electricity_data=True)
        except Exception as e:   # noqa
            return {"ctor": exc_obs(e), "input_first": idx_minutes(inp.index)[0], "input_last": idx_minutes(inp.index)[-1]}
        df = data.df
        res = {"idx": idx_minutes(df.index), "obs_nonnull": [bool(b) for b in df["observed"].notna().to_numpy()],
               "pd_fields": [[d.toordinal(), int(h)] for d, h in zip(df.index.date, df.index.hour)],
               "input_first": idx_minutes(inp.index)[0], "input_last": idx_minutes(inp.index)[-1],
               "temp_null": int(df["temperature"].isna().sum())}
        res["gi"] = impl_gi(df)
        try:
            with contextlib.redirect_stdout(io.StringIO()):
                out = hourly_model_for(z).predict(data)
            oi = out.index
            res["predict"] = {"rows": len(out), "index_equal": bool(oi.equals(df.index)),
                              "increasing": bool(oi.is_monotonic_increasing and oi.is_unique),
                              "tz_kept": str(oi.tz) == str(df.index.tz),
                              "non_finite": int((~np.isfinite(out["predicted"].to_numpy(dtype=float))).sum()),
                              "out_idx_sha": vlib.sha(idx_minutes(oi)) if len(oi) == len(df) else None}
        except Exception as e:   # noqa
            res["predict"] = exc_obs(e)
        return res
    except Exception:   # noqa
        return {"crash": traceback.format_exc()[-1500:]}


# ---- cross-zone sequences: one process serving two zones whose frames cover the same instants

XZ_PAIRS = [("America/Denver", "America/Phoenix"), ("America/New_York", "America/Havana"), ("Europe/Helsinki", "Asia/Beirut"),
            ("Europe/London", "UTC"), ("Europe/Berlin", "Africa/Lagos"), ("Europe/Berlin", "UTC"),
            ("Australia/Sydney", "Australia/Brisbane"), ("America/Chicago", "America/Regina"), ("US/Pacific", "America/Denver")]


MULTI_CHANGE_ZONES = ["Australia/Sydney", "Pacific/Auckland", "Australia/Adelaide", "America/Santiago", "America/New_York",
                      "Europe/Berlin", "US/Pacific", "Europe/London", "America/Chicago", "America/Havana"]


def gen_xz_cases(rng, reps):
    """spans that start before and end after a DST excursion of the first zone, chosen so that local 00:00 of the first
    day and local 23:00 of the last day are the SAME instants in both zones whenever the zones share their base offset
    (then the two frames have the same first instant, last instant and length, and differ only in their local clock)"""
    cases = []
    for a, b in [p for p in XZ_PAIRS for _ in range(reps)]:
        tr = cz.transitions(a)
        exc = [(t1, t2) for (t1, o1, n1), (t2, o2, n2) in zip(tr, tr[1:]) if n2 == o1 and n1 > o1 and (t2 - t1).days < 300]
        if not exc:
            continue
        t1, t2 = rng.choice(exc)
        d1 = t1.astimezone(cz.zone(a)).date().toordinal() - rng.choice([1, 2, 3])
        d2 = t2.astimezone(cz.zone(a)).date().toordinal() + rng.choice([1, 2, 3])
        s = cz.local_midnight_utc(d1, a, 0)
        e = cz.local_midnight_utc(d2, a, 23)
        if s is None or e is None:
            continue
        s, e = cz.to_minutes(s), cz.to_minutes(e)
        with_obs = rng.random() < 0.7
        for order in ((a, b), (b, a)):
            cases.append({"zones": list(order), "start": s, "n": (e - s) // 60 + 1, "with_obs": with_obs})
    # long single-zone frames with SEVERAL clock changes, beginning with a fall-back: fall -> spring (a northern
    # October-April span, a southern calendar year) and fall -> spring -> fall; the operations of _transform_dst then
    # alternate REMOVE / INTERPOLATE in the other order than in a spring -> fall frame
    for z in [m for m in MULTI_CHANGE_ZONES for _ in range(reps)]:
        tr = cz.transitions(z)
        starts = [i for i in range(len(tr) - 2) if tr[i][2] < tr[i][1] and (tr[i + 2][0] - tr[i][0]).days < 420]
        if not starts:
            continue
        i = rng.choice(starts)
        k = rng.choice([1, 1, 2])
        d1 = tr[i][0].astimezone(cz.zone(z)).date().toordinal() - rng.choice([1, 2, 3])
        d2 = tr[i + k][0].astimezone(cz.zone(z)).date().toordinal() + rng.choice([1, 2, 3])
        s = cz.local_midnight_utc(d1, z, 0)
        e = cz.local_midnight_utc(d2, z, 23)
        if s is None or e is None:
            continue
        s, e = cz.to_minutes(s), cz.to_minutes(e)
        cases.append({"zones": [z], "start": s, "n": (e - s) // 60 + 1, "with_obs": rng.random() < 0.7,
                      "changes": "fall" + "->spring->fall"[:8 * k + 0] if False else ["fall->spring", "fall->spring->fall"][k - 1]})
    return cases


def run_xz(case):
    """worker (a FRESH process per sequence): predict on the same instants in the zones of the sequence, one after the
    other; the first call of a sequence is the reference for that zone (nothing has run before it in the process)"""
    try:
        from opendsm.eemeter import HourlyReportingData
        out = []
        for z in case["zones"]:
            c = {"zone": z, "start": case["start"], "n": case["n"], "with_obs": case["with_obs"]}
            inp = hourly_input(c)
            rec = {"zone": z, "input_first": idx_minutes(inp.index)[0], "input_last": idx_minutes(inp.index)[-1]}
            try:
                with contextlib.redirect_stdout(io.StringIO()):
                    data = HourlyReportingData(inp, is_electricity_data=True)
                df = data.df
                rec["idx_first"], rec["idx_last"], rec["rows_in"] = idx_minutes(df.index[:1])[0], idx_minutes(df.index[-1:])[0], len(df)
                with contextlib.redirect_stdout(io.StringIO()):
                    o = hourly_model_for(z).predict(data)
                pv = o["predicted"].to_numpy(dtype=float)
                rec["predict"] = {"rows": len(o), "index_equal": bool(o.index.equals(df.index)),
                                  "increasing": bool(o.index.is_monotonic_increasing and o.index.is_unique),
                                  "tz_kept": str(o.index.tz) == str(df.index.tz),
                                  "non_finite": int((~np.isfinite(pv)).sum()),
                                  "values_sha": vlib.sha([float(x).hex() for x in pv])}
            except Exception as e:   # noqa
                rec["predict"] = exc_obs(e)
            out.append(rec)
        return out
    except Exception:   # noqa
        return [{"crash": traceback.format_exc()[-1500:]}]


def process_xz(run, cases, results):
    """oracle of the property on every call + the result of a call must not depend on what the process did before"""
    fresh = {}
    for case, recs in zip(cases, results):
        if recs and "crash" in recs[0]:
            raise RuntimeError("worker crashed: " + recs[0]["crash"])
        fresh[(recs[0]["zone"], case["start"], case["n"], case["with_obs"])] = recs[0]["predict"]
    for case, recs in zip(cases, results):
        for pos, rec in enumerate(recs):
            z = rec["zone"]
            c1 = {"zone": z, "start": case["start"], "n": case["n"], "with_obs": case["with_obs"], "sequence": case["zones"],
                  "position_in_sequence": pos}
            grid = ideal_grid(rec["input_first"], rec["input_last"], z)
            flags = flags_of(group_days(grid, z), z)
            run.count(("xz", vlib.sha(c1)), nontrivial=flags["clock_change_in_span"] or pos > 0)
            p = rec["predict"]
            if case.get("changes"):
                run.dist("hourly_multi_change_frame", "%s %s: %s" % (z, case["changes"], p.get("raised", "ok")))
            else:
                run.dist("cross_zone_sequence", "%s after %s: %s" % (z, case["zones"][0] if pos else "nothing",
                                                                     p.get("raised", "ok")))
            res = {"idx": grid if "rows_in" not in rec else [None] * rec["rows_in"], "predict": p}
            for sig, msg in oracle_hp(c1, res, flags):
                sig["position_in_sequence"] = "first" if pos == 0 else "after another zone"
                run.violation(sig, "C06 HourlyModel.predict [%s, %s in the process, observed %s]: %s" % (
                    z, "first call" if pos == 0 else "after a frame of " + case["zones"][0], sig["observed"], msg),
                    case={"stream": "xz", "case": case}, observation=recs,
                    expected="predict(data).index equals data.df.index, strictly increasing, finite on every row",
                    generator="c06.gen_xz_cases")
            ref = fresh.get((z, case["start"], case["n"], case["with_obs"]))
            if pos > 0 and ref is not None and "raised" not in p and "raised" not in ref and p != ref:
                sig = hourly_signature(c1, flags, {"broken": "prediction depends on frames of another zone seen earlier in the process"})
                run.violation(sig, "C06 HourlyModel.predict [%s after a frame of %s]: the predictions differ from those of the same call "
                                   "in a fresh process (values shifted against the timestamps)" % (z, case["zones"][0]),
                              case={"stream": "xz", "case": case}, observation={"this": p, "fresh_process": ref},
                              expected="the same rows and values as the same call made first in a process", generator="c06.gen_xz_cases")


def window_bounds(z, T, before, after):
    d0 = T.astimezone(cz.zone(z)).date().toordinal()
    s = cz.local_midnight_utc(d0 - before, z, 0)
    e = cz.local_midnight_utc(d0 + after, z, 23)
    if s is None or e is None:
        return None
    return cz.to_minutes(s), cz.to_minutes(e)


def run_windows(job):
    """worker: the clock-normalisation functions on the contiguous hourly frames around the transitions of one zone"""
    try:
        z, trans, seed, all_variants = job
        rng = random.Random(seed)
        out = []
        for T in trans:
            b = window_bounds(z, T, rng.choice([1, 2, 2, 3]), rng.choice([1, 2, 2, 3]))
            if b is None:
                out.append({"zone": z, "T": str(T), "skipped": "window edge does not exist"})
                continue
            s, e = b
            n = (e - s) // 60 + 1
            idx = pd.DatetimeIndex(pd.to_datetime([(s + 60 * k) * MIN for k in range(n)], utc=True)).tz_convert(z)
            pdf = [[d.toordinal(), int(h)] for d, h in zip(idx.date, idx.hour)]
            for variant in (("full", "none", "hole", "dropped") if (all_variants or rng.random() < 0.3) else ("full", "none")):
                nonnull = [True] * n
                keep = list(range(n))
                if variant == "none":
                    nonnull = [False] * n
                elif variant == "hole":
                    for p in rng.sample(range(n), rng.choice([1, 1, 2])):
                        nonnull[p] = False
                elif variant == "dropped":
                    drop = set(rng.sample(range(n), rng.choice([1, 1, 2, 3])))
                    keep = [k for k in range(n) if k not in drop]
                obsv = np.where(np.array(nonnull), 1.0, np.nan)
                df = pd.DataFrame({"observed": obsv, "temperature": 50.0}, index=idx).iloc[keep]
                rec = {"zone": z, "T": str(T), "variant": variant, "s": s, "n": n, "keep": keep if variant == "dropped" else None,
                       "nonnull": [nonnull[k] for k in keep], "gi": impl_gi(df)}
                if variant == "full":
                    rec["pd_fields"] = pdf
                    if "ok" in rec["gi"]:
                        lens = [len(rows) for _, rows in group_days([s + 60 * k for k in range(n)], z)]
                        rec["lens"] = lens
                        rec["cd"] = impl_cd(lens, rec["gi"]["ok"], 1)[1]
                        rec["td"] = impl_td([4 * (j + 1) for j in range(24 * len(lens))], rec["gi"]["ok"])
                out.append(rec)
        return out
    except Exception:   # noqa
        return [{"crash": traceback.format_exc()[-1500:]}]


# ---- daily / billing

def kind_cell(x):
    x = float(x)
    if x != x:
        return None
    return bool(math.isfinite(x))


def run_dp(case):
    """worker: one DailyModel / BillingModel predict on a synthetic (un-fitted) model document"""
    try:
        import synth_daily as sd
        rng = random.Random(case["seed"])
        z, kind = case["zone"], case["model"]
        subs = sd.gen_submodels(rng)
        with contextlib.redirect_stdout(io.StringIO()):
            model = sd.build_model(kind, subs, z)
        cls = sd.data_classes(kind)
        n = case["n"]
        inp = case["input"]
        idx = None
        if inp == "daily":
            try:
                idx = pd.date_range(start=case["start_date"], periods=n, freq="D", tz=z)
            except Exception:   # noqa  (a local midnight of the span does not exist / is ambiguous: hourly readings instead)
                inp = "hourly"
        if idx is None:
            od = pd.Timestamp(case["start_date"]).toordinal()
            s = None
            for k in range(72):          # first wall-clock hour that exists (a whole calendar day can be skipped: Pacific/Apia)
                s = cz.local_midnight_utc(od + k // 24, z, k % 24)
                if s is not None:
                    break
            s0 = cz.to_minutes(s) + 60 * case["start_hour"]
            idx = pd.DatetimeIndex(pd.to_datetime([(s0 + 60 * k) * MIN for k in range(max(2, n * 24 - case["cut_end"]))],
                                                  utc=True)).tz_convert(z)
        m = len(idx)
        r = np.random.default_rng(case["seed"])
        per = 1 if inp == "daily" else 24
        temp = 55 + 25 * np.sin(np.arange(m) / per / 58.0) + r.normal(0, 3, m)
        obs = 20 + 0.8 * np.maximum(55 - temp, 0) + r.normal(0, 1, m)
        fr = pd.DataFrame({"observed": obs, "temperature": temp}, index=idx)
        sc = per if case["input"] == "daily" else 1        # span positions were drawn in units of the planned input
        for a, b in case["temp_nan"]:
            fr.iloc[a * sc:b * sc, 1] = np.nan
        for a, b in case["obs_nan"]:
            fr.iloc[a * sc:b * sc, 0] = np.nan
        for pos, sign in case.get("temp_inf", []):
            if pos * sc < m:
                fr.iloc[pos * sc, 1] = sign * np.inf
        for pos, sign in case.get("obs_inf", []):
            if pos * sc < m:
                fr.iloc[pos * sc, 0] = sign * np.inf
        if case["gaps"]:
            keep = np.ones(m, dtype=bool)
            for a, b in case["gaps"]:
                keep[a * sc:b * sc] = False
            if keep.sum() >= 2:
                fr = fr[keep]
        if not case["with_obs"]:
            fr = fr[["temperature"]]
        try:
            with contextlib.redirect_stdout(io.StringIO()):
                if kind == "billing":
                    if case["with_obs"]:
                        step = 30 * per
                        meter = fr["observed"].iloc[::step].copy() * 30.0
                        if len(meter):
                            meter.iloc[-1] = np.nan
                    else:
                        meter = None
                    data = cls.from_series(meter, fr["temperature"], is_electricity_data=case["electric"])
                elif case.get("ctor") == "series":
                    data = cls.from_series(fr["observed"] if case["with_obs"] else None, fr["temperature"],
                                           is_electricity_data=case["electric"])
                else:
                    data = cls(fr, is_electricity_data=case["electric"])
        except Exception as e:   # noqa
            return {"ctor": exc_obs(e)}
        df = data.df
        has_obs = "observed" in df.columns
        res = {"has_obs": has_obs, "n_in": len(df), "keys": list(model.params.submodels.keys()), "input_used": inp}
        # local calendar days (tz database) for which a temperature was supplied / that are rows of the data object's frame
        tnn = fr["temperature"].notna().to_numpy()
        res["supplied_days"] = sorted({cz.local_fields(t, z)[0] for t, ok in zip(idx_minutes(fr.index), tnn) if ok})
        res["frame_days"] = [cz.local_fields(t, z)[0] for t in idx_minutes(df.index)]
        try:
            with contextlib.redirect_stdout(io.StringIO()):
                out = model.predict(data)
        except Exception as e:   # noqa
            res["predict"] = exc_obs(e)
            return res
        ts_in = [t // 60 for t in sd.index_seconds(df.index)]
        ts_out = [t // 60 for t in sd.index_seconds(out.index)]
        member = {}
        for k in res["keys"]:
            seg = model._meter_segment(k, out)
            member[k] = set(t // 60 for t in sd.index_seconds(seg.index))
        t_in = df["temperature"].to_numpy(dtype=float)
        o_in = df["observed"].to_numpy(dtype=float) if has_obs else np.full(len(df), np.nan)
        res["rows"] = [[t, kind_cell(a), kind_cell(b), [t in member[k] for k in res["keys"]]] for t, a, b in zip(ts_in, t_in, o_in)]
        pr = out["predicted"].to_numpy(dtype=float)
        res["out"] = [[t, bool(math.isfinite(p))] for t, p in zip(ts_out, pr)]
        res["index_equal"] = bool(out.index.equals(df.index))
        res["increasing"] = bool(out.index.is_monotonic_increasing and out.index.is_unique)
        res["input_unique"] = bool(df.index.is_unique)
        return res
    except Exception:   # noqa
        return {"crash": traceback.format_exc()[-1500:]}


# ------------------------------------------------------------------ generators

def gen_patterns(rng, n):
    """clock patterns over arbitrary transition hours (no time zone involved)"""
    hs = [0, 0, 1, 1, 2, 2, 3, 22, 23, 23] + list(range(24))
    out = []
    for k in range(n):
        nd = rng.choice([1, 2, 3, 4, 5, 6, 8])
        pat = []
        for _ in range(nd):
            u = rng.random()
            if u < 0.5:
                pat.append(["R", 0])
            elif u < 0.75:
                pat.append(["S", rng.choice(hs)])
            else:
                pat.append(["L", rng.choice(hs)])
        out.append(pat)
    return out


def pattern_idx(pat):
    return [[d, h] for d, (k, h) in enumerate(pat) if k == "S"], [[d, h] for d, (k, h) in enumerate(pat) if k == "L"]


def pattern_lens(pat):
    return [{"R": 24, "S": 23, "L": 25}[k] for k, _ in pat]


def clash(pat):
    return any(a == ["L", 23] and b == ["S", 0] for a, b in zip(pat, pat[1:]))


def gen_hp_cases(rng, zones_trans, per_zone, thorough):
    cases = []
    for z, trans in zones_trans:
        picks = list(trans)
        if len(picks) > per_zone:
            picks = rng.sample(picks, per_zone)
        picks = picks + [None] * (1 if not thorough else 0)
        for T in picks:
            if T is None:        # a span without any clock change
                if trans:
                    base = rng.choice(trans) + cz.dt.timedelta(days=rng.randrange(20, 60))
                else:
                    base = cz.dt.datetime(rng.randrange(2001, 2037), rng.randrange(1, 13), rng.randrange(1, 28), tzinfo=cz.UTC)
            else:
                base = T
            d0 = base.astimezone(cz.zone(z)).date().toordinal()
            # generic: the change somewhere inside; last / first: the change day is the LAST / FIRST supplied day and the
            # readings stop / start at any hour of it (these ends are where wall-clock vs elapsed-time mistakes show)
            mode = rng.choice(["generic", "generic", "last", "last", "first"]) if T is not None else "generic"
            before = 0 if mode == "first" else rng.choice([0, 1, 1, 2, 3, 5])
            after = 0 if mode == "last" else rng.choice([0, 1, 1, 2, 3, 5])
            s = None
            while s is None:
                s = cz.local_midnight_utc(d0 - before, z, 0)
                before += 1
            s = cz.to_minutes(s)
            ndays = before - 1 + after + 1
            if mode == "last" and cz.day_start(d0, z) is not None and cz.day_start(d0 + 1, z) is not None:
                hours = (cz.day_start(d0 + 1, z) - cz.day_start(d0, z)) // 60
                last = cz.day_start(d0, z) + 60 * rng.choice([hours - 1, hours - 1, hours - 2, rng.randrange(0, max(1, hours))])
                s += 60 * rng.choice([0, 0, 0, 1, 5, 13, 23])
                n = max(2, (last - s) // 60 + 1)
            elif mode == "first" and cz.day_start(d0, z) is not None and cz.day_start(d0 + 1, z) is not None:
                hours = (cz.day_start(d0 + 1, z) - cz.day_start(d0, z)) // 60
                s = cz.day_start(d0, z) + 60 * rng.choice([0, 0, 1, 2, 3, rng.randrange(0, max(1, hours))])
                n = max(2, (cz.day_start(d0 + 1, z) - s) // 60 + after * 24 - rng.choice([0, 0, 0, 1, 7, 20]))
            else:
                s += 60 * rng.choice([0, 0, 0, 1, 5, 13, 23])
                n = max(2, ndays * 24 - rng.choice([0, 0, 0, 1, 7, 20]))
            for with_obs in ((True, False) if rng.random() < 0.45 else (True,)):
                c = {"zone": z, "start": s, "n": n, "with_obs": with_obs, "T": None if T is None else str(T), "mode": mode,
                     "gaps": [], "temp_nan": [], "obs_nan": []}
                u = rng.random()
                if u < 0.3 and n > 30:
                    a = rng.randrange(1, n - 12)
                    c["gaps"] = list(range(a, a + rng.choice([1, 2, 5, 11])))
                if rng.random() < 0.3 and n > 30:
                    a = rng.randrange(1, n - 12)
                    c["temp_nan"] = list(range(a, a + rng.choice([1, 3, 8])))
                if with_obs and rng.random() < 0.3 and n > 30:
                    a = rng.randrange(1, n - 12)
                    c["obs_nan"] = list(range(a, a + rng.choice([1, 3, 8])))
                cases.append(c)
    return cases


WITNESS_HP = [   # the refutation witnesses of Properties/C06.v on real zones, always run first
    {"zone": "US/Pacific", "start": None, "date": "2023-03-10", "ndays": 5, "with_obs": False},      # D11
    {"zone": "America/Havana", "start": None, "date": "2023-03-10", "ndays": 5, "with_obs": True},    # D18 (Short 0)
    {"zone": "America/Santiago", "start": None, "date": "2022-03-31", "ndays": 5, "with_obs": True},  # D18 (Long 23)
    {"zone": "Asia/Beirut", "start": None, "date": "2022-03-25", "ndays": 5, "with_obs": True},       # D18
    {"zone": "America/Nuuk", "start": None, "date": "2024-03-28", "ndays": 5, "with_obs": True},      # Short 23
    {"zone": "Australia/Lord_Howe", "start": None, "date": "2023-03-30", "ndays": 5, "with_obs": True},   # D19
    {"zone": "Australia/Lord_Howe", "start": None, "date": "2023-09-29", "ndays": 5, "with_obs": True},   # D19
    {"zone": "US/Pacific", "start": None, "date": "2023-03-10", "ndays": 5, "with_obs": True},
    {"zone": "US/Pacific", "start": None, "date": "2023-11-03", "ndays": 5, "with_obs": True},
    {"zone": "Australia/Sydney", "start": None, "date": "2021-10-01", "ndays": 5, "with_obs": True},
    {"zone": "Antarctica/Casey", "start": None, "date": "2010-03-02", "ndays": 5, "with_obs": True},     # a date visited twice
    {"zone": "Pacific/Apia", "start": None, "date": "2011-12-28", "ndays": 5, "with_obs": True},         # a date skipped
    {"zone": "America/Santiago", "start": None, "date": "2022-03-31", "ndays": 3, "n": 73, "with_obs": True},   # F7: ends on a day repeating 23
    {"zone": "Asia/Beirut", "start": None, "date": "2022-10-27", "ndays": 3, "n": 73, "with_obs": False},       # F7
    {"zone": "US/Pacific", "start": None, "date": "2023-03-10", "ndays": 3, "n": 71, "with_obs": True},     # last day = spring-forward day
    {"zone": "US/Pacific", "start": None, "date": "2023-11-03", "ndays": 3, "n": 73, "with_obs": True},     # last day = fall-back day
    {"zone": "Europe/Berlin", "start": None, "date": "2021-03-28", "ndays": 3, "with_obs": True},           # first day = spring-forward day
    {"zone": "Europe/Berlin", "start": None, "date": "2021-10-31", "ndays": 3, "with_obs": False},          # first day = fall-back day
]


def witness_cases():
    out = []
    for w in WITNESS_HP:
        od = pd.Timestamp(w["date"]).toordinal()
        s = cz.to_minutes(cz.local_midnight_utc(od, w["zone"], 0))
        out.append({"zone": w["zone"], "start": s, "n": w.get("n", w["ndays"] * 24), "with_obs": w["with_obs"], "T": "witness",
                    "gaps": [], "temp_nan": [], "obs_nan": []})
    return out


def gen_dp_cases(rng, zones_trans, n):
    cases = []
    zt = [(z, t) for z, t in zones_trans]
    for k in range(n):
        z, trans = rng.choice(zt)
        kind = "daily" if rng.random() < 0.6 else "billing"
        inp = "daily" if rng.random() < 0.5 else "hourly"
        if trans and rng.random() < 0.8:
            base = rng.choice(trans)
        else:
            base = cz.dt.datetime(rng.randrange(2001, 2037), rng.randrange(1, 13), rng.randrange(1, 28), tzinfo=cz.UTC)
        nd = rng.choice([3, 8, 20, 45, 90] if kind == "daily" else [70, 100, 150])
        d0 = base.astimezone(cz.zone(z)).date() - cz.dt.timedelta(days=rng.randrange(0, nd))
        m = nd if inp == "daily" else nd * 24

        def spans(p, maxlen):
            out = []
            if rng.random() < p:
                for _ in range(rng.choice([1, 1, 2, 3])):
                    a = rng.randrange(0, m)
                    out.append([a, min(m, a + rng.choice([1, 1, 2, maxlen]))])
            return out
        unit = 1 if inp == "daily" else 24

        def infs(p, grid):
            """[position, sign]: +-inf cells on the first / last / interior rows (positions on `grid` so that a billed
            reading is hit as well)"""
            out = []
            if rng.random() < p:
                for _ in range(rng.choice([1, 1, 2, 3])):
                    pos = rng.choice([0, m - 1, rng.randrange(0, m), rng.randrange(0, m)])
                    out.append([(pos // grid) * grid, rng.choice([1, -1])])
            return out
        cases.append({"zone": z, "model": kind, "input": inp, "n": nd, "start_date": d0.isoformat(),
                      "temp_inf": infs(0.35, 1), "obs_inf": infs(0.3, 30 * unit if kind == "billing" else 1),
                      "start_hour": rng.choice([0, 0, 1, 6, 13, 23]) if inp == "hourly" else 0,
                      "cut_end": rng.choice([0, 0, 1, 9, 23]) if inp == "hourly" else 0,
                      "with_obs": rng.random() < 0.7, "electric": rng.random() < 0.5, "seed": rng.randrange(2**31),
                      "temp_nan": spans(0.6, 3 * unit), "obs_nan": spans(0.5, 3 * unit), "gaps": spans(0.4, 2 * unit)})
    return cases


UTC0_DST_ZONES = ["Europe/London", "Europe/Lisbon", "Atlantic/Canary", "Europe/Dublin", "Atlantic/Faroe", "Africa/Casablanca"]


def gen_dp_edge_cases(rng, n):
    """daily data classes around both clock changes of a year, with temperature-only days (no meter value) on the change
    day, the days next to it, and at the ends of the span; zones whose standard offset is UTC+0 (local midnight is
    23:00Z of the previous day in summer: Europe/London, Europe/Lisbon, Atlantic/Canary, Europe/Dublin with its negative
    DST, ...) and a few others; frame constructor and from_series; daily and hourly readings"""
    others = ["US/Pacific", "America/New_York", "Europe/Berlin", "Australia/Sydney", "Asia/Kolkata", "Pacific/Auckland",
              "America/St_Johns", "UTC"]
    cases = []
    for k in range(n):
        z = rng.choice(UTC0_DST_ZONES) if k % 3 else rng.choice(others)
        tr = [t for t, _, _ in cz.transitions(z) if 2005 <= t.year <= 2036]
        if tr:
            T = rng.choice(tr)
        else:
            T = cz.dt.datetime(rng.randrange(2005, 2036), rng.choice([3, 10]), 28, tzinfo=cz.UTC)
        d0 = T.astimezone(cz.zone(z)).date()
        inp = rng.choice(["daily", "daily", "hourly"])
        nd = rng.choice([10, 14, 21])
        lead = rng.randrange(3, nd - 3)
        unit = 1 if inp == "daily" else 24
        m = nd * unit
        obs_nan = []
        u = rng.random()
        if u < 0.55:      # a single day without meter value: the change day or one of its neighbours
            p = lead + rng.choice([-1, 0, 0, 1, 1, 2])
            obs_nan.append([p * unit, (p + 1) * unit])
        elif u < 0.8:     # meter readings end (or begin) one or more full days before (after) the temperatures
            q = rng.choice([1, 1, 2, 3])
            obs_nan.append([m - q * unit, m] if rng.random() < 0.7 else [0, q * unit])
        else:             # both
            p = lead + rng.choice([0, 1])
            obs_nan += [[p * unit, (p + 1) * unit], [m - unit, m]]
        cases.append({"zone": z, "model": "daily" if rng.random() < 0.8 else "billing", "input": inp, "n": nd,
                      "start_date": (d0 - cz.dt.timedelta(days=lead)).isoformat(), "start_hour": 0, "cut_end": 0,
                      "with_obs": True, "electric": rng.random() < 0.5, "seed": rng.randrange(2**31),
                      "ctor": rng.choice(["frame", "series"]), "edge": True,
                      "temp_nan": [], "obs_nan": obs_nan, "gaps": [], "temp_inf": [], "obs_inf": []})
    return cases


# ------------------------------------------------------------------ oracles (the property text, literally)

def hourly_signature(case, flags, what):
    sig = {"call": "HourlyModel.predict", "observed": "present" if case["with_obs"] else "absent"}
    sig.update(flags)
    sig.update(what)
    return sig


def oracle_hp(case, res, flags):
    """-> list of (signature, message)"""
    p = res["predict"]
    if "raised" in p:
        return [(hourly_signature(case, flags, {"raised": p["raised"], "where": p["where"]}),
                 "predict raised %s in %s (%s)" % (p["raised"], p["where"], p["msg"]))]
    fails = []
    if not p["index_equal"] or p["rows"] != len(res["idx"]) or not p["tz_kept"]:
        fails.append((hourly_signature(case, flags, {"broken": "index differs from the input index"}),
                      "predict returned %d rows for %d input timestamps / another index" % (p["rows"], len(res["idx"]))))
    if not p["increasing"]:
        fails.append((hourly_signature(case, flags, {"broken": "not strictly increasing"}), "output index is not strictly increasing"))
    if p["non_finite"]:
        fails.append((hourly_signature(case, flags, {"broken": "non-finite prediction"}),
                      "%d hourly predictions are not finite" % p["non_finite"]))
    return fails


def oracle_dp(case, res):
    call = ("Daily" if case["model"] == "daily" else "Billing") + "Model.predict"
    sig0 = {"call": call, "observed": "present" if res["has_obs"] else "absent"}
    pre = []
    if case["model"] == "daily" and "frame_days" in res:
        # the daily data object must carry every local calendar day for which a temperature was supplied, once
        # (the classes trim temperature-only days at the two ends of the span; what must not happen is a hole)
        sup = res["supplied_days"]
        zz = case["zone"]
        alld = list(sup) + list(res["frame_days"])
        span = range(min(alld), max(alld) + 1) if alld else []
        skipped = any(cz.day_start(d, zz) is None for d in span)
        # a local day of the span with a number of clock hours other than 23/24/25 (2- or 3-hour shift), tz database
        multi = any(cz.day_start(d, zz) is not None and cz.day_start(d + 1, zz) is not None
                    and (cz.day_start(d + 1, zz) - cz.day_start(d, zz)) // 60 not in (23, 24, 25) for d in span)
        have = set(res["frame_days"])
        lost = [d for d in res["supplied_days"] if have and min(have) < d < max(have) and d not in have]
        dup = sorted({d for d in res["frame_days"] if res["frame_days"].count(d) > 1})
        if lost:
            pre.append(({"call": "DailyReportingData", "broken": "supplied day missing inside the frame", "input": case["input"],
                         "multi_hour_shift_in_span": multi},
                        "%d local days with a supplied temperature, between the first and the last day of the data object's frame, are not rows of it (first: %s) - no "
                        "prediction can come back for them" % (len(lost), cz.dt.date.fromordinal(lost[0]).isoformat())))
        # (readings that start in the middle of a day are outside this check: the classes stamp the partial first day apart)
        if dup and not case.get("start_hour"):
            pre.append(({"call": "DailyReportingData", "broken": "local day twice in the frame", "input": case["input"],
                         "calendar_day_skipped_in_span": skipped, "multi_hour_shift_in_span": multi},
                        "local day %s is carried by %d rows of the data object's frame" % (
                            cz.dt.date.fromordinal(dup[0]).isoformat(), res["frame_days"].count(dup[0]))))
    if "predict" in res:
        p = res["predict"]
        return pre + [(dict(sig0, raised=p["raised"], where=p["where"]), "predict raised %s in %s (%s)" % (p["raised"], p["where"], p["msg"]))]
    fails = pre
    # one row per input timestamp (as multisets: the frame of a daily data object is itself out of order around a
    # skipped calendar day, Pacific/Apia 2011-12-30; chronological order is asked of the output, next check)
    if sorted(t for t, _ in res["out"]) != sorted(r[0] for r in res["rows"]):
        fails.append((dict(sig0, broken="index differs from the input index"),
                      "predict returned %d rows for %d input timestamps / other timestamps" % (len(res["out"]), len(res["rows"]))))
    if not res["increasing"]:
        fails.append((dict(sig0, broken="not strictly increasing"), "output index is not in chronological order"))
    want = {}
    for t, a, b, _ in res["rows"]:
        want.setdefault(t, []).append(bool(a is True and (not res["has_obs"] or b is True)))
    bad = 0
    for t, fin in res["out"]:
        w = want.get(t)
        if w is None or fin not in w:
            bad += 1
    if bad:
        fails.append((dict(sig0, broken="finiteness pattern"),
                      "%d rows: predicted is finite on a row without finite temperature/usage, or missing on a complete row" % bad))
    return fails


# ------------------------------------------------------------------ Coq terms

def coq_res_idx(o):
    if "ok" in o:
        return "(Ok %s)" % coq_idx(o["ok"])
    e = ERR.get(o["raised"], "EValue" if o["raised"] == "ValueError" else None)
    return None if e is None else "(@Err dst_indices %s)" % e


def coq_res_matrix(o):
    if "ok2" in o:
        return "(Ok %s)" % coq_list([coq_zlist(r) for r in o["ok2"][0]])
    e = {"IndexError": "EIndex", "ValueError": "ERagged"}.get(o["raised"])
    return None if e is None else "(@Err (list (list Z)) %s)" % e


def coq_res_list(o):
    if "ok" in o:
        return "(Ok %s)" % coq_zlist(o["ok"])
    e = {"IndexError": "EIndex"}.get(o["raised"])
    return None if e is None else "(@Err (list Z) %s)" % e


def coq_outcome(p):
    if "raised" in p:
        c = XCLS.get(p["raised"])
        return None if c is None else "(Raised %s)" % c
    return "(Rows %d%%N %s)" % (p["rows"], coq_bool(p["index_equal"] and p["non_finite"] == 0))


def coq_optbool(v):
    return "None" if v is None else "(Some %s)" % coq_bool(v)


# ------------------------------------------------------------------ main

class Streams:
    def __init__(self, run):
        self.run = run
        self.s = {}

    def add(self, stream, term, info):
        self.s.setdefault(stream, []).append((term, info))

    def outside(self, stream, info, obs):
        self.run.corr_failures.append({"stream": stream, "case": info, "impl": obs, "model": "outcome outside the model's alphabet"})

    def evaluate(self, diag):
        """all streams are evaluated at the same time (each coq_cases call waits for its own coqc processes)"""
        from concurrent.futures import ThreadPoolExecutor
        run = self.run
        items = [(stream, lst) for stream, lst in sorted(self.s.items()) if lst]

        def one(item):
            stream, lst = item
            return run.coq_cases(stream, IMPORTS, "", [t for t, _ in lst], "check_" + stream,
                                 shard={"dp": 20, "hp": 60, "gi": 150}.get(stream, 200), case_type=CASE_TYPE[stream])
        with ThreadPoolExecutor(max_workers=3) as ex:
            results = list(ex.map(one, items))
        run.cov["disagreements"] = sum(v.get("disagreements", 0) for v in run.cov["streams"].values())
        for (stream, lst), bad in zip(items, results):
            if bad is None:
                run.proof_ok = False
                continue
            for i in bad[:4]:
                term, info = lst[i]
                run.corr_failures.append({"stream": stream, "case": info, "model": diag(run, stream, term)})
            for i in bad[4:40]:
                run.corr_failures.append({"stream": stream, "case": lst[i][1]})


def diagnose(run, stream, term):
    fn = {"gi": "let '(p, d, _) := c in get_dst_indices p (map expand d)",
          "hp": "let '(p, d, _) := c in hourly_outcome p (map expand d)",
          "cd": "let '(a, i, _) := c in feature_matrix zmean a i", "td": "let '(p, i, _) := c in transform_dst zmean p i",
          "ts": "let '(p, i, _) := c in transform_spec zmean p i", "ci": "let '(s, e, _) := c in contiguous_index s e",
          "dp": "let '(o, n, r, _) := c in daily_out o n r", "ex": "pattern_ok (fst c)"}[stream]
    return run.coq_eval(IMPORTS, "Definition c : %s := %s." % (CASE_TYPE[stream], term), fn)[-1200:]


def check_fields(run, what, minutes, z, pd_fields):
    """zoneinfo (harness) against pandas (implementation) on the local date and hour of every row"""
    mine = [[od, hh] for od, hh, _, _ in (cz.local_fields(m, z) for m in minutes)]
    if mine != pd_fields:
        raise RuntimeError("zoneinfo and pandas disagree on the local clock of %s" % (what,))


def process_hp(run, st, cases, results):
    for case, res in zip(cases, results):
        key = vlib.sha(case)
        if "crash" in res:
            raise RuntimeError("worker crashed: " + res["crash"])
        z = case["zone"]
        if "ctor" in res:
            run.count(key, nontrivial=False)
            run.dist("hourly_data_class", "refused: %s in %s" % (res["ctor"]["raised"], res["ctor"]["where"]))
            continue
        check_fields(run, (z, case["start"]), res["idx"], z, res["pd_fields"])
        days = group_days(res["idx"], z)
        grid = ideal_grid(res["input_first"], res["input_last"], z)
        flags = flags_of(group_days(grid, z), z)
        # every supplied reading (on the frame's hourly grid) must be a row of the data object's frame
        supplied = [case["start"] + 60 * k for k in range(case["n"]) if k not in set(case.get("gaps") or [])]
        have = set(res["idx"])
        lost = [m for m in supplied if res["idx"] and (m - res["idx"][0]) % 60 == 0 and m not in have]
        if lost:
            sig = {"call": "HourlyReportingData", "broken": "supplied reading missing from the frame"}
            sig.update(flags)
            run.violation(sig, "C06 HourlyReportingData [%s]: %d supplied hourly readings are not rows of the data object's frame "
                               "(no prediction can come back for them)" % (z, len(lost)),
                          case={"stream": "hp", "case": case}, observation={"lost_utc_minutes": lost[:10], "frame_first": res["idx"][0],
                                                                             "frame_last": res["idx"][-1]},
                          expected="the frame runs from local 00:00 of the first supplied day to wall-clock 23:00 of the last one",
                          generator="c06.gen_hp_cases")
        cls = "+".join(k for k in ("sub_hour_shift", "multi_hour_shift", "midnight_change") if flags[k]) or (
            "whole-hour-dst" if flags["clock_change_in_span"] else "no-change")
        run.count(key, nontrivial=flags["clock_change_in_span"])
        run.dist("hourly_zone_class", cls)
        run.dist("hourly_observed", "present" if case["with_obs"] else "absent")
        run.dist("hourly_span_mode", case.get("mode", "witness"))
        p = res["predict"]
        run.dist("hourly_outcome", ("%s in %s" % (p["raised"], p["where"])) if "raised" in p else "ok")
        for sig, msg in oracle_hp(case, res, flags):
            run.violation(sig, "C06 HourlyModel.predict [%s, %s, observed %s]: %s" % (z, cls, sig["observed"], msg),
                          case={"stream": "hp", "case": case}, observation=p,
                          expected="predict(data).index equals data.df.index, strictly increasing, finite on every row",
                          generator="c06.gen_hp_cases")
        if "raised" not in p and p["index_equal"] and flags["clock_change_in_span"]:
            run.sample({"zone": z, "class": cls, "rows": p["rows"], "day_lengths": [len(r) for _, r in days][:12],
                        "observed": case["with_obs"], "index_equal": True})
        # ci: the contiguous index
        s_min = cz.replace_hour(res["input_first"], z, 0)
        e_min = cz.replace_hour(res["input_last"], z, 23)
        st.add("ci", "(%s, %s, %s)" % (zlit(s_min), zlit(e_min), coq_zlist(res["idx"])), {"case": case})
        # gi on the data object's frame, hp
        cd = coq_cdays(days, z, dict(zip(res["idx"], res["obs_nonnull"])))
        t = coq_res_idx(res["gi"])
        if t is None:
            st.outside("gi", case, res["gi"])
        else:
            st.add("gi", "(%s, %s, %s)" % (POLICY, cd, t), {"case": case, "impl": res["gi"]})
        o = coq_outcome(p)
        if o is None:
            st.outside("hp", case, p)
        else:
            st.add("hp", "(%s, %s, %s)" % (POLICY, cd, o), {"case": case, "impl": p})


def process_windows(run, st, recs):
    for rec in recs:
        if "crash" in rec:
            raise RuntimeError("worker crashed: " + rec["crash"])
        if "skipped" in rec:
            run.dist("window", rec["skipped"])
            continue
        z = rec["zone"]
        minutes = [rec["s"] + 60 * k for k in range(rec["n"])]
        if rec["variant"] == "full":
            check_fields(run, (z, rec["T"]), minutes, z, rec["pd_fields"])
        if rec["keep"] is not None:
            minutes = [minutes[k] for k in rec["keep"]]
        days = group_days(minutes, z)
        flags = flags_of(group_days([rec["s"] + 60 * k for k in range(rec["n"])], z), z)
        key = (z, rec["T"], rec["variant"], vlib.sha(rec["nonnull"]) if rec["variant"] != "full" else "")
        run.count(key, nontrivial=flags["clock_change_in_span"])
        gi = rec["gi"]
        run.dist("gi_outcome", ("%s" % gi["raised"]) if "raised" in gi else "ok")
        info = {"zone": z, "transition": rec["T"], "variant": rec["variant"]}
        t = coq_res_idx(gi)
        cd = coq_cdays(days, z, dict(zip(minutes, rec["nonnull"])))
        if t is None:
            st.outside("gi", info, gi)
        else:
            st.add("gi", "(%s, %s, %s)" % (POLICY, cd, t), dict(info, impl=gi))
        if "cd" in rec:
            lens = rec["lens"]
            agg, r = [], 0
            for n in lens:
                agg.append([2 * 4 * (r + j + 1) for j in range(n)])
                r += n
            t = coq_res_matrix(rec["cd"])
            if t is None:
                st.outside("cd", info, rec["cd"])
            else:
                st.add("cd", "(%s, %s, %s)" % (coq_list([coq_zlist(a) for a in agg]), coq_idx(gi["ok"]), t), dict(info, impl="cd"))
            run.dist("cd_outcome", rec["cd"].get("raised", "ok"))
            pred = [4 * (j + 1) for j in range(24 * len(lens))]
            t = coq_res_list(rec["td"])
            if t is None:
                st.outside("td", info, rec["td"])
            else:
                st.add("td", "(%s, %s, %s)" % (coq_zlist(pred), coq_idx(gi["ok"]), t), dict(info, impl="td"))
            run.dist("td_outcome", rec["td"].get("raised", "ok"))
            run.count(key + ("cd",), nontrivial=flags["clock_change_in_span"], n=2)


def process_patterns(run, st, rng, pats):
    for pat in pats:
        lens = pattern_lens(pat)
        idx = pattern_idx(pat)
        key = vlib.sha(pat)
        nontriv = any(k != "R" for k, _ in pat)
        # cd, sometimes with perturbed indices / day lengths (error paths)
        cidx = [list(map(list, idx[0])), list(map(list, idx[1]))]
        clens = list(lens)
        u = rng.random()
        if u < 0.12 and cidx[0]:
            cidx[0][rng.randrange(len(cidx[0]))][1] = rng.randrange(0, 26)
        elif u < 0.2 and cidx[1]:
            cidx[1][rng.randrange(len(cidx[1]))][1] = rng.randrange(0, 26)
        elif u < 0.26:
            clens[rng.randrange(len(clens))] = rng.choice([1, 2, 22, 26])
        elif u < 0.3:
            cidx[rng.randrange(2)].append([len(lens) + rng.randrange(0, 2), rng.randrange(0, 24)])
        agg, obs = impl_cd(clens, cidx, 2)
        run.count(("cd", key, vlib.sha([clens, cidx])), nontriv)
        run.dist("cd_outcome", obs.get("raised", "ok"))
        for f in range(2):
            o = {"ok2": [obs["ok2"][f]]} if "ok2" in obs else obs
            t = coq_res_matrix(o)
            if t is None:
                st.outside("cd", {"pattern": pat, "lens": clens, "idx": cidx}, obs)
                break
            st.add("cd", "(%s, %s, %s)" % (coq_list([coq_zlist([2 * v for v in d]) for d in agg[f]]), coq_idx(cidx), t),
                   {"pattern": pat, "lens": clens, "idx": cidx, "feature": f})
        # td (the reachable domain: one operation per day, 24 slots per day, no REMOVE/INTERPOLATE on one index)
        pred = [4 * rng.randrange(0, 500) for _ in range(24 * len(pat))]
        if not clash(pat):
            o = impl_td(pred, idx)
            run.count(("td", key, vlib.sha(pred)), nontriv)
            run.dist("td_outcome", o.get("raised", "ok"))
            t = coq_res_list(o)
            if t is None:
                st.outside("td", {"pattern": pat}, o)
            else:
                st.add("td", "(%s, %s, %s)" % (coq_zlist(pred), coq_idx(idx), t), {"pattern": pat, "pred": pred, "impl": o})
        # ex: does the chain go through on the implementation?  (unperturbed patterns only) — compared with pattern_ok
        if u >= 0.3 and not clash(pat):
            ok_cd = "ok2" in obs and all(len(r) == 24 for r in obs["ok2"][0])
            o_td = impl_td(pred, idx) if ok_cd else None
            went = bool(ok_cd and "ok" in o_td and len(o_td["ok"]) == sum(lens))
            run.count(("ex", key), nontriv)
            run.dist("chain_goes_through", went)
            st.add("ex", "(%s, %s)" % (coq_list([{"R": "Reg", "S": "Short %d" % h, "L": "Long %d" % h}[k] for k, h in pat]),
                                       coq_bool(went)), {"pattern": pat, "impl_went_through": went})
        # ts: the commented loop of the source
        o = impl_ts(pred, idx)
        if o is not None:
            run.count(("ts", key, vlib.sha(pred)), nontriv)
            t = "None" if "none" in o else "(Some %s)" % coq_zlist(o["ok"])
            st.add("ts", "(%s, %s, %s)" % (coq_zlist(pred), coq_idx(idx), t), {"pattern": pat, "pred": pred, "impl": o})


def process_dp(run, st, cases, results):
    for case, res in zip(cases, results):
        key = vlib.sha(case)
        if "crash" in res:
            raise RuntimeError("worker crashed: " + res["crash"])
        if "ctor" in res:
            run.count(key, nontrivial=False)
            run.dist("daily_data_class", "refused: %s in %s" % (res["ctor"]["raised"], res["ctor"]["where"]))
            continue
        for sig, msg in oracle_dp(case, res):
            run.violation(sig, "C06 %s [%s, %s input, observed %s]: %s" % (sig["call"], case["zone"], case["input"], sig.get("observed", "present" if res.get("has_obs") else "absent"), msg),
                          case={"stream": "dp", "case": case}, observation={k: res[k] for k in res if k not in ("rows", "out")},
                          expected="predict(data).index equals data.df.index, chronological; predicted finite iff temperature "
                                   "(and usage, when supplied) finite", generator="c06.gen_dp_cases")
        run.dist("daily_model", "%s/%s/%s" % (case["model"], case["input"], "observed" if res["has_obs"] else "no observed"))
        if case.get("edge"):
            run.dist("daily_edge_zone", case["zone"])
        if "rows" in res and [r[0] for r in res["rows"]] != sorted(r[0] for r in res["rows"]):
            run.dist("daily_data_class", "frame of the data object is not in chronological order (%s)" % case["zone"])
        if "predict" in res:
            run.count(key, nontrivial=True)
            st.outside("dp", case, res["predict"])
            continue
        n_drop = sum(1 for _, a, b, _ in res["rows"] if not (a is True and (not res["has_obs"] or b is True)))
        n_inf = sum(1 for _, a, b, _ in res["rows"] if a is False or (res["has_obs"] and b is False))
        run.dist("daily_frame_has_inf_cells", "%s/%s" % (case["model"], "yes" if n_inf else "no"))
        run.count(key, nontrivial=0 < n_drop < len(res["rows"]))
        run.dist("daily_rows", 10 ** len(str(len(res["rows"]))))
        if not res["input_unique"]:
            continue
        rows = coq_list(["(%s, %s, %s, %s)" % (zlit(t), coq_optbool(a), coq_optbool(b if res["has_obs"] else None),
                                               coq_list([coq_bool(x) for x in mem])) for t, a, b, mem in res["rows"]])
        exp = coq_list(["(%s, %s)" % (zlit(t), coq_bool(f)) for t, f in sorted(res["out"])])
        st.add("dp", "(%s, %d, %s, %s)" % (coq_bool(res["has_obs"]), len(res["keys"]), rows, exp), {"case": case})
        if 0 < n_drop < len(res["rows"]):
            run.sample({"model": case["model"], "zone": case["zone"], "input": case["input"], "rows": len(res["rows"]),
                        "rows_without_prediction": n_drop, "observed": res["has_obs"], "index_equal": res["index_equal"]})


def detect_policy(run):
    """which behaviour does the implementation show where the unchanged code breaks the property (D11, D18)?
    two probes of the real _get_dst_indices; the model is run in the mode observed, the oracle is not affected"""
    global POLICY

    def frame(z, date, obs):
        s = cz.to_minutes(cz.local_midnight_utc(pd.Timestamp(date).toordinal(), z, 0))
        idx = pd.DatetimeIndex(pd.to_datetime([(s + 60 * k) * MIN for k in range(5 * 24 - 1)], utc=True)).tz_convert(z)
        return pd.DataFrame({"observed": obs, "temperature": 50.0}, index=idx)
    a = impl_gi(frame("US/Pacific", "2023-03-10", np.nan))
    b = impl_gi(frame("America/Havana", "2023-03-10", 1.0))
    count_rows = {json.dumps([[], []]): False, json.dumps([[[2, 2]], []]): True}.get(json.dumps(a.get("ok")))
    loc_by_mask = True if b.get("ok") == [[[2, 0]], []] else (False if b.get("raised") == "KeyError" else None)
    run.cov["behaviour_detected"] = {
        "short/long days recognised by": {False: "count of non-null observed (round-1 code: D11)", True: "number of rows (D11 repaired)",
                                          None: "unrecognised"}[count_rows],
        "rows of a date looked up by": {False: "label df.loc[date] (D18)", True: "mask (D18 repaired)", None: "unrecognised"}[loc_by_mask]}
    if count_rows is None or loc_by_mask is None:
        run.corr_failures.append({"stream": "policy-probe", "case": {"probes": ["US/Pacific 2023-03-10 without observed",
                                                                               "America/Havana 2023-03-10"]},
                                  "impl": [a, b], "model": "no policy of Model/Dst.v explains the probes"})
    POLICY = "(policy_of %s %s)" % (coq_bool(bool(count_rows)), coq_bool(bool(loc_by_mask)))
    run.cov["theorem_path"] = (
        "C06_hourly_predict_index_repaired (guard: pattern_ok only)" if (count_rows and loc_by_mask) else
        "C06_hourly_predict_index_partial at pol = %s (guards: %sresolvable date labels, pattern_ok); "
        "C06_unresolvable_label_always_fails and the witnesses C06_hourly_refuted_* are replayed on the implementation"
        % (("d11_repaired", "") if count_rows else ("as_coded", "usage on every row, ")))


def zone_plan(run):
    """[(zone, [transition instants])] of this run"""
    rng = run.rng
    if run.quick():
        years = sorted(rng.sample(range(2000, 2038), 4))
        plan = []
        for z in cz.QUICK_ZONES:
            tr = [t for t, _, _ in cz.transitions(z)]
            pick = tr if len(tr) <= 8 else [t for t in tr if t.year in years]
            plan.append((z, pick))
        run.cov["zones"] = {"tier": "quick", "zones": len(plan), "years": years,
                            "note": "zones with at most 8 transitions 2000-2037 contribute all of them"}
        return plan
    names = cz.all_zones()
    with get_context("fork").Pool(14) as pool:
        sigs = pool.map(cz.rule_signature, names)
    reps = {}
    for z, s in zip(names, sigs):
        reps.setdefault(s, []).append(z)
    plan = [(zs[0], [cz.dt.datetime.fromisoformat(a) for a, _, _ in s]) for s, zs in sorted(reps.items(), key=lambda kv: kv[1][0])]
    run.cov["zones"] = {"tier": "thorough", "zone_names": len(names), "distinct_rule_sets_2000_2037": len(plan),
                        "transitions": sum(len(t) for _, t in plan),
                        "note": "zones with identical offsets and transitions 2000-2037 are run once (first name)"}
    run.cov["exhaustive"] = True
    run.cov["exhaustive_over"] = "streams gi/cd/td/hp: every clock change 2000-2037 of every zone of the tz database"
    return plan


def main():
    global MODEL_JSON
    run = Run("C06")
    run.cov["rule"] = (
        "(a) hourly frames as the data class builds them (local 00:00 .. 23:00, 2-7 days) around the clock changes of "
        "the tz database (quick: 41 zones x 4 years + every change of rarely-changing zones; thorough: every change "
        "2000-2037 of every zone), four variants each (usage on every row / none / 1-2 holes / 1-3 rows dropped): real "
        "_get_dst_indices, correct_dst (through _get_feature_matrices), _transform_dst vs the model; random clock patterns "
        "over all transition hours 0..23 for correct_dst / _transform_dst / the commented loop; (b) full predict of the "
        "hourly model (one real fit, re-labelled per zone) and of synthetic daily / billing models on reporting sets with "
        "random spans, start/end hours, gaps, NaN stretches, +-inf temperature / usage cells on first, last and interior rows "
        "(daily/billing), with and without observed; cross-zone sequences: in ONE fresh process the same instants are predicted in two "
        "zones that share their base offset (Denver/Phoenix, New_York/Havana, Helsinki/Beirut, London/UTC, Sydney/Brisbane, ...), "
        "both orders, each result compared with the same call made first in a process. distinct = case hash; non-trivial "
        "= the span contains a clock change (hourly) / both kept and dropped rows (daily)")
    run.assumptions += [
        "UTC offsets, transition instants and the resolvability of date labels are data read from the system tz database "
        "(zoneinfo); the model never sees a time zone",
        "hourly predictions: only the shape of the computation is modelled (the regression is a Section variable with the "
        "contract `one value per slot`); finiteness of the linear map for finite features is not proved",
        "daily/billing: sub-model curve and routing test are Section variables (C11/C13); exact cover is a hypothesis",
        "the reporting frame is the data object's frame (data.df): the hourly data class has already made it contiguous",
        "correspondence is sampled (exhaustive over transitions only in the thorough tier for streams gi/cd/td)",
    ]
    run.cov["trusted_base"] += ["harness/c06.py, harness/c06zones.py, harness/synth_daily.py (generators, adapters, zoneinfo "
                                "clock fields, canonicalisation)",
                                "pandas semantics re-specified in Model/Dst.v (groupby/count, partial-string label lookup "
                                "as per-day data, reindex, column assignment) and Model/PredictRows.v (dropna, isin, join, concat, sort_index)"]
    run.check_proofs("Properties/C06.v", ["Proofs/DstProofs.v"])
    run.ensure_models(["Model/DstRun.v", "Model/CasesLib.v"])
    run.log("theorems re-checked: %s" % run.proof_ok)
    st = Streams(run)
    rng = run.rng

    import opendsm.eemeter  # noqa  (imported before the pool forks)
    import synth_daily  # noqa
    detect_policy(run)
    run.log("behaviour detected: %s" % json.dumps(run.cov["behaviour_detected"]))

    if run.replay:
        rep = json.load(open(run.replay))
        c = rep["case"]
        if "stream" not in c:
            c = rep["case"]["first"][0]["case"] if "first" in rep["case"] else c
        if c.get("stream") == "dp":
            process_dp(run, st, [c["case"]], [run_dp(c["case"])])
        elif c.get("stream") == "xz":
            MODEL_JSON = fit_hourly()
            seqs = [c["case"], dict(c["case"], zones=list(reversed(c["case"]["zones"])))]
            with get_context("fork").Pool(2, maxtasksperchild=1) as xp:
                process_xz(run, seqs, xp.map(run_xz, seqs, chunksize=1))
        else:
            MODEL_JSON = fit_hourly()
            cc = c["case"] if "case" in c else c
            process_hp(run, st, [cc], [run_hp(cc)])
        st.evaluate(diagnose)
        run.finish()

    plan = zone_plan(run)
    run.log("zones: %d, transitions: %d" % (len(plan), sum(len(t) for _, t in plan)))
    MODEL_JSON = fit_hourly()
    run.log("hourly model fitted")
    corpus = []
    cpath = os.path.join(vlib.VERIF, "corpus", "C06.json")
    if os.path.exists(cpath):
        corpus = json.load(open(cpath))
    hp_cases = [c["case"] for c in corpus if c.get("stream") == "hp"] + witness_cases() + gen_hp_cases(
        rng, plan, run.n(4, 10**6), not run.quick())
    dp_cases = [c["case"] for c in corpus if c.get("stream") == "dp"] + gen_dp_cases(rng, plan, run.n(160, 2000)) + gen_dp_edge_cases(
        rng, run.n(80, 1500))
    jobs = [(z, tr, rng.randrange(2**31), run.quick()) for z, tr in plan if tr]
    with get_context("fork").Pool(int(os.environ.get("VERIF_PROCS", "14"))) as pool:
        r_win = pool.map_async(run_windows, jobs, chunksize=1)
        r_hp = pool.map_async(run_hp, hp_cases, chunksize=4)
        r_dp = pool.map_async(run_dp, dp_cases, chunksize=4)
        # one fresh process per cross-zone sequence (process-global state must not leak between zones)
        xz_cases = gen_xz_cases(rng, run.n(1, 5))
        xpool = get_context("fork").Pool(min(8, max(1, len(xz_cases))), maxtasksperchild=1)
        r_xz = xpool.map_async(run_xz, xz_cases, chunksize=1)
        process_patterns(run, st, rng, gen_patterns(rng, run.n(300, 2000)))
        run.log("pattern streams done")
        win = [rec for lst in r_win.get() for rec in lst]
        run.log("window stream done (%d records)" % len(win))
        hp = r_hp.get()
        run.log("hourly predict stream done (%d cases)" % len(hp))
        dp = r_dp.get()
        run.log("daily/billing stream done (%d cases)" % len(dp))
        xz = r_xz.get()
        xpool.close()
        run.log("cross-zone sequences done (%d sequences)" % len(xz))
    process_xz(run, xz_cases, xz)
    process_windows(run, st, win)
    process_hp(run, st, hp_cases, hp)
    process_dp(run, st, dp_cases, dp)
    if not source_loop():
        run.cov["commented_loop"] = "not present in the source any more (stream ts skipped)"
    run.log("evaluating the model in Coq: " + ", ".join("%s=%d" % (k, len(v)) for k, v in sorted(st.s.items())))
    st.evaluate(diagnose)
    run.finish()


if __name__ == "__main__":
    vlib.run_main(main, "C06")
