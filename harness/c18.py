"""C18 — CalTRACK hourly: each hour belongs to its own month; bin features sum to T.
Model: coq/Model/CalTrack.v over coq/Generated/CalTrackTables.v (translator: harness/translate_caltrack.py);
theorems: coq/Properties/C18.v; tie: translator + correspondence (this file)."""
import inspect
import json
import math
import os
import re
import warnings
from datetime import datetime, timezone
from fractions import Fraction
from zoneinfo import ZoneInfo

import numpy as np
import pandas as pd

import vlib
import translate_caltrack
from vlib import Run, zlit, qlit, fhex, coq_list, coq_opt, coq_bool, coq_string

warnings.simplefilter("ignore")

IMPORTS = "From Coq Require Import QArith PrimFloat.\nFrom V Require Import Generated.CalTrackTables Model.CalTrack Model.CalTrackRun Model.CalTrackFit Model.CalTrackFitRun Model.CalTrackPredict."
ZONES = ["UTC", "US/Pacific", "Europe/Berlin", "Australia/Sydney", "Asia/Kolkata", "America/Sao_Paulo"]
ZONES_THOROUGH = ZONES + ["America/St_Johns", "Pacific/Auckland", "Africa/Cairo", "Asia/Tokyo", "America/Havana", "Pacific/Chatham"]
YEARS = [2023, 2024]          # a non-leap and a leap year
TYPES = ["single", "one_month", "three_month", "three_month_weighted"]


def prev_month(m):
    return 12 if m == 1 else m - 1


def next_month(m):
    return 1 if m == 12 else m + 1


def year_index(zone, year):
    return pd.date_range("%d-01-01" % year, "%d-01-01" % (year + 1), freq="h", tz=zone, inclusive="left")


def local_fields(idx, zone):
    """(month, weekday, hour) of every index entry, computed with the standard library (zoneinfo), not with pandas"""
    z = ZoneInfo(zone)
    secs = (idx.tz_convert("UTC").asi8 // {"ns": 10**9, "us": 10**6, "ms": 10**3, "s": 1}[getattr(idx, "unit", "ns")]).tolist()
    out = np.empty((len(secs), 3), dtype=np.int64)
    for i, s in enumerate(secs):
        d = datetime.fromtimestamp(s, timezone.utc).astimezone(z)
        out[i] = (d.month, d.weekday(), d.hour)
    return out


# ------------------------------------------------------------------ oracle on one weight row per month

def partition_failures(seg_type, rows):
    """rows: {month: {column: Fraction}} for the twelve months. The statement, literally.
    Returns [(month, column or None, weight or None, message)]."""
    fails = []
    months = range(1, 13)
    if any(m not in rows for m in months):
        return [(m, None, None, "no weight row for month %d" % m) for m in months if m not in rows]
    full = {m: sorted(c for c, w in rows[m].items() if w == 1) for m in months}
    if seg_type == "single":
        for m in months:
            if len(rows[m]) != 1 or full[m] != list(rows[m]):
                fails.append((m, None, None, "single: expected one segment with weight 1, got %s" % rows[m]))
        return fails
    if seg_type in ("three_month_weighted", "one_month"):
        own = {}
        for m in months:
            if len(full[m]) != 1:
                w = [(c, rows[m][c]) for c in full[m]] or [(None, None)]
                fails.append((m, w[0][0], w[0][1], "month %d has full weight in %d segments %s (expected exactly one)"
                              % (m, len(full[m]), full[m])))
            else:
                own[m] = full[m][0]
        if fails:
            # name the offending weights: everything in the row that is not 0, 1/2 or 1
            for m in months:
                for c, w in rows[m].items():
                    if w not in (0, 1, Fraction(1, 2)):
                        fails.append((m, c, w, "weight %s of month %d in segment %s is not 0, 1/2 or 1" % (w, m, c)))
            return fails
        if len(set(own.values())) != 12:
            fails.append((1, None, None, "two months share their full-weight segment: %s" % own))
            return fails
        for m in months:
            for c, w in rows[m].items():
                if c == own[m]:
                    exp = Fraction(1)
                elif seg_type == "three_month_weighted" and c in (own[prev_month(m)], own[next_month(m)]):
                    exp = Fraction(1, 2)
                else:
                    exp = Fraction(0)
                if w != exp:
                    fails.append((m, c, w, "month %d has weight %s in segment %s, expected %s" % (m, w, c, exp)))
        return fails
    if seg_type == "three_month":
        cols = sorted({c for m in months for c in rows[m]})
        centre = {}
        for c in cols:
            support = [m for m in months if rows[m].get(c) == 1]
            cs = [m for m in months if sorted(support) == sorted({prev_month(m), m, next_month(m)})]
            if len(cs) == 1:
                centre[cs[0]] = c
        for m in months:
            for c, w in rows[m].items():
                exp = Fraction(1) if c in (centre.get(m), centre.get(prev_month(m)), centre.get(next_month(m))) else Fraction(0)
                if w != exp:
                    fails.append((m, c, w, "month %d has weight %s in segment %s, expected %s" % (m, w, c, exp)))
            if m not in centre:
                fails.append((m, None, None, "no segment is centred on month %d" % m))
        return fails
    return [(1, None, None, "unknown segment type %s" % seg_type)]


def table_rows(table):
    """translator table -> {month: {segment: weight}} exactly as Model/CalTrack.v reads it"""
    rows = {}
    for m in range(1, 13):
        rows[m] = {}
        for name, ent, dflt in table:
            w = dflt
            for k, v in ent:
                if k == m:
                    w = v
                    break
            rows[m][name] = w
    return rows


def check_tables(run, ex):
    """statement on the regenerated tables: names the (segment type, month, segment, weight) that breaks a theorem"""
    ok = True
    for typ in TYPES:
        if typ not in ex["tables"]:
            run.violation({"stream": "tables", "broken": "segment type missing", "type": typ},
                          "C18 tables: segment_time_series no longer offers segment type %s" % typ,
                          case={"stream": "tables", "segment_type": typ}, generator="translator")
            ok = False
            continue
        rows = table_rows(ex["tables"][typ])
        for m, c, w, msg in partition_failures(typ, rows)[:6]:
            ok = False
            run.violation({"stream": "tables", "broken": "weights do not partition", "type": typ, "month": m, "segment": c},
                          "C18 weight table %s: %s" % (typ, msg),
                          case={"stream": "tables", "segment_type": typ, "month": m, "segment": c,
                                "weight": None if w is None else float(w)},
                          observation={"row": {k: str(v) for k, v in rows.get(m, {}).items()}},
                          expected="full weight in the month's own segment, 1/2 in its two neighbours' (weighted type), 0 elsewhere",
                          generator="translator", theorem="C18_weights_partition*")
    # month routing of predictions, on the tables
    for fit, (ptype, mapping) in ex["prediction_info"].items():
        if fit not in ex["tables"] or ptype not in ex["tables"]:
            continue
        fit_rows, pred_rows = table_rows(ex["tables"][fit]), table_rows(ex["tables"][ptype])
        for m in range(1, 13):
            terms = []
            for c, w in pred_rows[m].items():
                if w > 0:
                    f = c if mapping is None else dict(mapping).get(c)
                    if f is not None:
                        terms.append((f, w))
            own = [c for c, w in fit_rows[m].items() if w == 1]
            if len(own) != 1 or terms != [(own[0], Fraction(1))]:
                ok = False
                run.violation({"stream": "tables", "broken": "prediction routed to another month's model", "type": fit, "month": m},
                              "C18 month map (%s): month %d is predicted by %s, its own segment is %s"
                              % (fit, m, [(f, str(w)) for f, w in terms], own),
                              case={"stream": "tables", "segment_type": fit, "month": m,
                                    "predicted_by": [(f, float(w)) for f, w in terms], "own_segment": own},
                              generator="translator", theorem="C18_prediction_own_month")
    return ok


# ------------------------------------------------------------------ stream 1: segment_time_series

def stream_weights(run, zones, only=None):
    from opendsm.eemeter.models.hourly_caltrack.segmentation import segment_time_series
    terms, meta = [], []
    for zone in zones:
        for year in YEARS:
            idx = year_index(zone, year)
            lf = local_fields(idx, zone)
            month = lf[:, 0]
            for typ in TYPES:
                if only and (only.get("zone"), only.get("year"), only.get("segment_type")) != (zone, year, typ):
                    continue
                try:
                    df = segment_time_series(idx, typ)
                except Exception as e:  # noqa
                    run.violation({"stream": "weights", "broken": "raises", "type": typ, "raised": type(e).__name__},
                                  "C18 segment_time_series(%s) raised %s" % (typ, type(e).__name__),
                                  case={"stream": "weights", "zone": zone, "year": year, "segment_type": typ}, generator="c18.weights")
                    continue
                W = df.to_numpy(dtype=float)
                cols = [str(c) for c in df.columns]
                if not df.index.equals(idx):
                    run.violation({"stream": "weights", "broken": "index changed", "type": typ},
                                  "C18 segment_time_series(%s) does not share the input index" % typ,
                                  case={"stream": "weights", "zone": zone, "year": year, "segment_type": typ}, generator="c18.weights")
                    continue
                rows = {}
                consistent = True
                for m in range(1, 13):
                    sel = np.nonzero(month == m)[0]
                    block = W[sel]
                    run.count(("weights", typ, zone, year, m), True, n=len(sel))
                    first = block[0]
                    same = (block == first) | (np.isnan(block) & np.isnan(first))
                    if not same.all():
                        consistent = False
                        j = int(sel[np.nonzero(~same.all(axis=1))[0][0]])
                        run.violation({"stream": "weights", "broken": "weights differ within a month", "type": typ},
                                      "C18 %s: hours of the same month carry different weights (%s vs %s)"
                                      % (typ, idx[int(sel[0])].isoformat(), idx[j].isoformat()),
                                      case={"stream": "weights", "zone": zone, "year": year, "segment_type": typ,
                                            "hour": idx[j].isoformat(), "month": m},
                                      observation={"row": dict(zip(cols, W[j].tolist())), "first_row_of_month": dict(zip(cols, first.tolist()))},
                                      generator="c18.weights")
                    if np.isnan(first).any() or np.isinf(first).any():
                        consistent = False
                        run.violation({"stream": "weights", "broken": "non-finite weight", "type": typ},
                                      "C18 %s: non-finite weight at %s" % (typ, idx[int(sel[0])].isoformat()),
                                      case={"stream": "weights", "zone": zone, "year": year, "segment_type": typ,
                                            "hour": idx[int(sel[0])].isoformat(), "month": m},
                                      observation={"row": dict(zip(cols, first.tolist()))}, generator="c18.weights")
                        continue
                    rows[m] = {c: Fraction(float(w)) for c, w in zip(cols, first)}
                if not consistent:
                    continue
                for m, c, w, msg in partition_failures(typ, rows)[:4]:
                    hour = idx[int(np.nonzero(month == m)[0][0])].isoformat()
                    run.violation({"stream": "weights", "broken": "weights do not partition", "type": typ, "month": m, "segment": c},
                                  "C18 segment_time_series(%s) at %s [%s]: %s" % (typ, hour, zone, msg),
                                  case={"stream": "weights", "zone": zone, "year": year, "segment_type": typ, "hour": hour,
                                        "month": m, "segment": c, "weight": None if w is None else float(w)},
                                  observation={"row": {k: float(v) for k, v in rows[m].items()}},
                                  expected="weight 1 in the month's own segment, 1/2 in its neighbours' (weighted), 0 elsewhere",
                                  generator="c18.weights")
                for m in range(1, 13):
                    obs = coq_list(["(%s, %s)" % (coq_string(c), qlit(w)) for c, w in sorted(rows[m].items())])
                    terms.append("(%s, %s, %s)" % (coq_string(typ), zlit(m), obs))
                    meta.append({"stream": "weights", "zone": zone, "year": year, "segment_type": typ, "month": m,
                                 "row": {k: float(v) for k, v in rows[m].items() if v != 0}})
                run.dist("weights_type", typ)
    if meta:
        run.sample({"stream": "weights", **meta[min(len(meta) - 1, 37)]})
    # identical (type, month, row) terms are evaluated once
    uniq = {}
    for t, mt in zip(terms, meta):
        uniq.setdefault(t, mt)
    return "weights", list(uniq), list(uniq.values()), "check_weights"



# ------------------------------------------------------------------ stream 1b: segment_time_series on parts of a year, with and without
#                                                                     drop_zero_weight_segments

def sub_indexes(rng, zone, year):
    """(label, index): single months, two months, a partial year, a few days across a month end, single hours"""
    out = []
    for m in sorted({1, 12} | set(rng.sample(range(1, 13), 3))):
        a = pd.Timestamp(year=year, month=m, day=1, tz=zone)
        b = pd.Timestamp(year=year + (m == 12), month=m % 12 + 1, day=1, tz=zone)
        out.append(("month %d" % m, pd.date_range(a, b, freq="h", inclusive="left")))
    m = rng.randrange(1, 12)
    out.append(("months %d-%d" % (m, m + 1), pd.date_range(pd.Timestamp(year=year, month=m, day=1, tz=zone),
                                                           pd.Timestamp(year=year + (m == 11), month=(m + 1) % 12 + 1, day=1, tz=zone),
                                                           freq="h", inclusive="left")))
    a = pd.Timestamp(year=year, month=1, day=1, tz=zone) + pd.Timedelta(days=rng.randrange(0, 250))
    out.append(("partial year", pd.date_range(a, periods=24 * rng.randrange(70, 200), freq="h")))
    a = pd.Timestamp(year=year, month=rng.randrange(1, 13), day=1, tz=zone) - pd.Timedelta(days=2)
    out.append(("month end", pd.date_range(a, periods=24 * 4, freq="h")))
    for _ in range(2):
        a = pd.Timestamp(year=year, month=1, day=1, tz=zone) + pd.Timedelta(hours=rng.randrange(0, 8700))
        out.append(("single hour", pd.date_range(a, periods=1, freq="h")))
    return out


def stream_weights_partial(run, zones, only=None):
    import random
    from opendsm.eemeter.models.hourly_caltrack.segmentation import segment_time_series
    terms, meta = [], []
    for zone in zones:
        for year in YEARS:
            if only and (only.get("zone"), only.get("year")) != (zone, year):
                continue
            sub_seed = only["sub_seed"] if only else run.rng.randrange(10**9)
            full_idx = year_index(zone, year)
            full_month = local_fields(full_idx, zone)[:, 0]
            for typ in TYPES:
                # the weights above zero an hour of month m has over the whole year (checked against the statement in `weights`)
                try:
                    full = segment_time_series(full_idx, typ)
                except Exception:  # noqa  (reported by the weights stream)
                    continue
                fcols = [str(c) for c in full.columns]
                fW = full.to_numpy(dtype=float)
                ref = {}
                for m in range(1, 13):
                    r = fW[np.nonzero(full_month == m)[0][0]]
                    ref[m] = {c: Fraction(float(w)) for c, w in zip(fcols, r) if w > 0}
                for label, idx in sub_indexes(random.Random(sub_seed), zone, year):
                    month = local_fields(idx, zone)[:, 0]
                    present = sorted(set(int(x) for x in month))
                    frames = {}
                    for drop in (False, True):
                        case = {"stream": "weights_partial", "zone": zone, "year": year, "segment_type": typ, "sub_seed": sub_seed,
                                "index": label, "first_hour": idx[0].isoformat(), "hours": len(idx), "drop_zero_weight_segments": drop}
                        try:
                            df = segment_time_series(idx, typ, drop_zero_weight_segments=drop)
                        except Exception as e:  # noqa
                            run.violation({"stream": "weights_partial", "broken": "raises", "type": typ, "drop": drop, "raised": type(e).__name__},
                                          "C18 segment_time_series(%s, drop=%s) on %s raised %s" % (typ, drop, label, type(e).__name__),
                                          case=case, generator="c18.weights_partial")
                            continue
                        frames[drop] = df
                        cols = [str(c) for c in df.columns]
                        W = df.to_numpy(dtype=float)
                        run.count(("weights_partial", typ, zone, year, label, drop, tuple(present)), True, n=len(idx))
                        run.dist("partial_index_kind", "%s drop=%s" % (label.split(" ")[0], drop))
                        bad = None
                        if not df.index.equals(idx):
                            bad = ("index changed", "the result does not share the input index", 0)
                        rows = {}
                        for m in present:
                            sel = np.nonzero(month == m)[0]
                            block = W[sel]
                            if bad is None and len(cols) and (not (block == block[0]).all() or np.isnan(block).any()):
                                bad = ("weights differ within a month", "hours of month %d carry different weights" % m, int(sel[0]))
                            rows[m] = {c: Fraction(float(w)) for c, w in zip(cols, block[0])} if len(cols) else {}
                            pos = {c: w for c, w in rows[m].items() if w > 0}
                            if bad is None and pos != ref[m]:
                                lost = sorted(set(ref[m]) - set(pos))
                                bad = ("an hour lost a weight" if lost else "weights differ from the whole-year weights",
                                       "an hour of month %d has the weights %s, over the whole year it has %s%s"
                                       % (m, {k: str(v) for k, v in pos.items()}, {k: str(v) for k, v in ref[m].items()},
                                          " (missing: %s)" % lost if lost else ""), int(sel[0]))
                        if bad is None and drop and False in frames:
                            und = frames[False]
                            gone = [c for c in und.columns if c not in df.columns]
                            nz = [str(c) for c in gone if (und[c].to_numpy(dtype=float) != 0).any()]
                            if nz:
                                bad = ("a column with non-zero weights was dropped", "dropped columns %s hold non-zero weights" % nz, 0)
                            elif [c for c in df.columns if c not in und.columns] or not und[list(df.columns)].equals(df):
                                bad = ("kept columns changed", "the kept columns differ from the undropped result", 0)
                        if bad:
                            run.violation({"stream": "weights_partial", "broken": bad[0], "type": typ, "drop": drop},
                                          "C18 segment_time_series(%s, drop_zero_weight_segments=%s) on %s [%s] at %s: %s"
                                          % (typ, drop, label, zone, idx[bad[2]].isoformat(), bad[1]),
                                          case=dict(case, hour=idx[bad[2]].isoformat()), observation={"columns": cols},
                                          expected="weight 1 in the month's own segment, 1/2 in its neighbours' (weighted), 0 elsewhere; "
                                                   "only all-zero columns dropped", generator="c18.weights_partial")
                        for m in present:
                            obs = coq_list(["(%s, %s)" % (coq_string(c), qlit(w)) for c, w in sorted(rows[m].items())])
                            terms.append("(%s, %s, %s, %s, %s)" % (coq_string(typ), coq_bool(drop), coq_list([zlit(x) for x in present]),
                                                                   zlit(m), obs))
                            meta.append(dict(case, month=m, months_in_index=present))
    uniq = {}
    for t, mt in zip(terms, meta):
        uniq.setdefault(t, mt)
    if uniq:
        run.sample(list(uniq.values())[min(len(uniq) - 1, 11)])
    return "weights_partial", list(uniq), list(uniq.values()), "check_weights_on"


# ------------------------------------------------------------------ stream 2: compute_temperature_bin_features

def ulp_neighbours(x):
    return [float(np.nextafter(x, -np.inf)), float(x), float(np.nextafter(x, np.inf))]


def is_small_dyadic(x):
    """binary64 arithmetic between such numbers is exact (<= 21 significant bits, moderate magnitude)"""
    if x != x or math.isinf(x):
        return False
    if x == 0:
        return True
    fr = Fraction(x)
    return abs(x) < 2**20 and fr.denominator <= 2**10


def gen_temperatures(rng, endpoints, n_random):
    t = []
    for e in endpoints:
        t += ulp_neighbours(float(e)) + [e - 0.5, e + 0.5, e - 0.125, e + 0.125]
    t += [-40.0, -0.0, 0.0, 1.0, -1.0, 5e-324, -5e-324, 1e-300, 2.0**-20, 1e6, -1e6, 1e300, -1e300,
          1.7976931348623157e308, -1.7976931348623157e308, float("nan"), 29.999999999999996, 90.00000000000001, 123456.789]
    for _ in range(n_random):
        t.append(rng.uniform(-40.0, 130.0))
        t.append(rng.randrange(-40 * 8, 130 * 8) / 8.0)
    return t


def bins_oracle(T, e, bins):
    """statement on one row: sum to T, filled in order up to the widths, NaN -> all NaN. Returns (kind, message) or None."""
    if len(bins) != len(e) + 1:
        return "number of bins", "expected %d bins, got %d" % (len(e) + 1, len(bins))
    if T != T:
        return None if all(b != b for b in bins) else ("NaN temperature kept", "temperature is NaN but a bin is not")
    if any(b != b for b in bins):
        return "NaN bin", "a bin is NaN although the temperature is not"
    s = math.fsum(bins)
    scale = max([abs(T)] + [abs(float(x)) for x in e] + [1e-300])
    tol = 8 * (np.nextafter(scale, np.inf) - scale)
    if abs(s - T) > tol:
        return "bins do not sum to T", "bins sum to %r, temperature is %r" % (s, T)
    caps = [float(e[0])] + [float(b) - float(a) for a, b in zip(e, e[1:])] if e else []
    for i, c in enumerate(caps):
        if bins[i] > c:
            return "bin over its width", "bin %d holds %r, more than its width %r" % (i, bins[i], c)
        if bins[i + 1] > 0 and bins[i] != c:
            return "bin filled before its predecessor", "bin %d holds %r although bin %d is not full (%r of %r)" % (i + 1, bins[i + 1], i, bins[i], c)
    if any(b < 0 for b in bins[1:]):
        return "negative bin", "a bin after the first is negative"
    return None


def stream_bins(run, only=None):
    from opendsm.eemeter.common.features import compute_temperature_bin_features, fit_temperature_bins
    cand = list(inspect.signature(fit_temperature_bins).parameters["default_bins"].default)
    lists = []
    if only:
        lists.append((only["endpoints"], only["temperatures"]))
    else:
        for mask in range(2 ** len(cand)):
            lists.append(([c for i, c in enumerate(cand) if mask >> i & 1], None))
        for _ in range(run.n(24, 400)):            # other increasing endpoint lists, any length, non-integer too
            k = run.rng.choice([0, 1, 2, 3, 5, 8, 12])
            pool = sorted(run.rng.sample(range(-30 * 4, 130 * 4), k))
            lists.append(([p / 4.0 for p in pool], None))
    fterms, qterms, fmeta, qmeta = [], [], [], []
    for e, temps in lists:
        if temps is None:
            temps = gen_temperatures(run.rng, e if e else cand, run.n(6, 60))
        temps = [float("nan") if t is None else float(t) for t in temps]
        series = pd.Series(temps, dtype=float)
        try:
            out = compute_temperature_bin_features(series, list(e))
            B = out[["bin_%d" % i for i in range(len(e) + 1)]].to_numpy(dtype=float) if list(out.columns) == [
                "bin_%d" % i for i in range(len(e) + 1)] else None
        except Exception as ex:  # noqa
            run.violation({"stream": "bins", "broken": "raises", "raised": type(ex).__name__},
                          "C18 compute_temperature_bin_features raised %s" % type(ex).__name__,
                          case={"stream": "bins", "endpoints": e, "temperatures": [None if t != t else t for t in temps]},
                          generator="c18.bins")
            continue
        if B is None or len(out) != len(temps):
            run.violation({"stream": "bins", "broken": "shape"}, "C18 bin features: unexpected columns %s" % list(out.columns),
                          case={"stream": "bins", "endpoints": e, "temperatures": [None if t != t else t for t in temps]},
                          generator="c18.bins")
            continue
        frows, qrows = [], []
        for T, brow in zip(temps, B.tolist()):
            region = "nan" if T != T else sum(1 for x in e if T > x)
            on_edge = T in [float(x) for x in e]
            run.count(("bins", tuple(e), region, on_edge, T), True)
            run.dist("bins_region", "nan" if T != T else ("on endpoint" if on_edge else "bin %d" % region))
            res = bins_oracle(T, e, brow)
            if res:
                run.violation({"stream": "bins", "broken": res[0], "on_endpoint": on_edge},
                              "C18 bin features, endpoints %s, T=%r: %s" % (e, T, res[1]),
                              case={"stream": "bins", "endpoints": e, "temperatures": [None if T != T else T]},
                              observation={"bins": brow}, expected="sum(bins) == T, bins filled in order up to their widths",
                              generator="c18.bins")
            opt = lambda v, f: coq_opt(None if v != v else v, f)  # noqa
            frows.append("(%s, %s)" % (opt(T, fhex), coq_list([opt(b, fhex) for b in brow])))
            if (T != T or is_small_dyadic(T)) and all(is_small_dyadic(float(x)) for x in e):
                q = lambda v: qlit(Fraction(v))  # noqa
                qrows.append("(%s, %s)" % (opt(T, q), coq_list([opt(b, q) for b in brow])))
        fterms.append("(%s, %s)" % (coq_list([fhex(x) for x in e]), coq_list(frows)))
        fmeta.append({"stream": "bins", "endpoints": e, "temperatures": [None if t != t else t for t in temps]})
        if qrows:
            qterms.append("(%s, %s)" % (coq_list([qlit(Fraction(float(x))) for x in e]), coq_list(qrows)))
            qmeta.append(fmeta[-1])
    if fmeta:
        k = min(len(fmeta) - 1, 41)
        run.sample({"stream": "bins", "endpoints": fmeta[k]["endpoints"], "n_temperatures": len(fmeta[k]["temperatures"])})
    return [("bins_float", fterms, fmeta, "check_bins_float"), ("bins_q", qterms, qmeta, "check_bins_q")]


# ------------------------------------------------------------------ stream 3: compute_time_features

def stream_how(run, zones, only=None):
    from opendsm.eemeter.common.features import compute_time_features
    terms, meta = [], []
    for zone in zones:
        for year in YEARS:
            if only and (only.get("zone"), only.get("year")) != (zone, year):
                continue
            idx = year_index(zone, year)
            lf = local_fields(idx, zone)
            try:
                tf = compute_time_features(idx, hour_of_week=True, day_of_week=False, hour_of_day=False)
                how = np.asarray(tf["hour_of_week"].astype(float), dtype=float)
            except Exception as e:  # noqa
                run.violation({"stream": "how", "broken": "raises", "raised": type(e).__name__},
                              "C18 compute_time_features raised %s" % type(e).__name__,
                              case={"stream": "how", "zone": zone, "year": year}, generator="c18.how")
                continue
            exp = 24 * lf[:, 1] + lf[:, 2]
            bad = np.nonzero(~(how == exp))[0]
            if len(bad):
                j = int(bad[0])
                run.violation({"stream": "how", "broken": "hour_of_week != 24*weekday + hour"},
                              "C18 hour_of_week at %s [%s] is %r, expected 24*%d+%d" % (idx[j].isoformat(), zone, how[j], lf[j, 1], lf[j, 2]),
                              case={"stream": "how", "zone": zone, "year": year, "hour": idx[j].isoformat()},
                              observation={"hour_of_week": how[j], "weekday": int(lf[j, 1]), "hour": int(lf[j, 2])},
                              expected=int(exp[j]), generator="c18.how")
            seen = set(int(x) for x in how[~np.isnan(how)])
            if seen != set(range(168)):
                run.violation({"stream": "how", "broken": "not all 168 values"},
                              "C18 hour_of_week over a year takes %d values (min %s, max %s), not exactly 0..167"
                              % (len(seen), min(seen, default=None), max(seen, default=None)),
                              case={"stream": "how", "zone": zone, "year": year}, observation={"values": sorted(seen)[:200]},
                              generator="c18.how")
            trip = sorted({(int(d), int(h), None if k != k else int(k)) for (m_, d, h), k in zip(lf.tolist(), how.tolist())},
                          key=lambda t: (t[0], t[1], -1 if t[2] is None else t[2]))
            for d, h, k in trip:
                run.count(("how", zone, year, d, h, k), True)
            run.cov["evaluations"] += len(idx) - len(trip)
            terms.append(coq_list(["(%s, %s, %s)" % (zlit(d), zlit(h), zlit(-1 if k is None else k)) for d, h, k in trip]))
            meta.append({"stream": "how", "zone": zone, "year": year})
    return "how", terms, meta, "check_how"


# ------------------------------------------------------------------ stream 4: occupancy split in the two feature processors

def stream_occupancy(run, n, only=None):
    from opendsm.eemeter.models.hourly_caltrack.model import (caltrack_hourly_fit_feature_processor,
                                                               caltrack_hourly_prediction_feature_processor)
    from opendsm.eemeter.common.features import fit_temperature_bins
    cand = list(inspect.signature(fit_temperature_bins).parameters["default_bins"].default)
    terms, meta = [], []
    seeds = [only["seed"]] if only else [run.rng.randrange(10**9) for _ in range(n)]
    for seed in seeds:
        import random
        rng = random.Random(seed)
        which = rng.choice(["fit", "predict"])
        zone = rng.choice(ZONES)
        start = pd.Timestamp("2024-01-01", tz=zone) + pd.Timedelta(days=rng.randrange(0, 340))
        idx = pd.date_range(start, periods=rng.choice([168, 200, 336]), freq="h")
        lf = local_fields(idx, zone)
        seg = "seg"
        p_occ = rng.choice([0.0, 0.3, 0.5, 0.7, 1.0])
        occ_vals = [rng.random() < p_occ for _ in range(168)]
        lookup = pd.DataFrame({seg: occ_vals}, index=pd.CategoricalIndex(range(168)))
        eo = [c for c in cand if rng.random() < 0.5]
        eu = [c for c in cand if rng.random() < 0.5]
        bo = pd.DataFrame({seg: [c in eo for c in cand]}, index=pd.Series(cand, name="bin_endpoints"))
        bu = pd.DataFrame({seg: [c in eu for c in cand]}, index=pd.Series(cand, name="bin_endpoints"))
        pool = [float(c) for c in cand] + [float(np.nextafter(c, np.inf)) for c in cand] + [0.0, -7.5, 101.25]
        temps = [float("nan") if rng.random() < 0.06 else (rng.choice(pool) if rng.random() < 0.3 else rng.uniform(-20, 120))
                 for _ in idx]
        how_in = 24 * lf[:, 1] + lf[:, 2]
        data = pd.DataFrame({"temperature_mean": temps, "weight": [rng.choice([0.5, 1.0]) for _ in idx]}, index=idx)
        meter = None
        try:
            if which == "fit":
                meter = [float("nan") if rng.random() < 0.05 else rng.uniform(0, 5) for _ in idx]
                data.insert(0, "meter_value", meter)
                data.insert(1, "hour_of_week", pd.Categorical(how_in, categories=range(168)))
                out = caltrack_hourly_fit_feature_processor(seg, data, lookup, bo, bu)
            else:
                out = caltrack_hourly_prediction_feature_processor(seg, data, lookup, bo, bu)
        except Exception as e:  # noqa
            run.violation({"stream": "occupancy", "broken": "raises", "which": which, "raised": type(e).__name__},
                          "C18 caltrack_hourly_%s_feature_processor raised %s" % (which, type(e).__name__),
                          case={"stream": "occupancy", "seed": seed}, generator="c18.occupancy")
            continue
        ocols = ["bin_%d_occupied" % i for i in range(len(eo) + 1)]
        ucols = ["bin_%d_unoccupied" % i for i in range(len(eu) + 1)]
        if [c for c in out.columns if c.startswith("bin")] != ocols + ucols or not out.index.equals(idx):
            run.violation({"stream": "occupancy", "broken": "shape", "which": which},
                          "C18 feature processor: unexpected columns %s" % list(out.columns),
                          case={"stream": "occupancy", "seed": seed}, generator="c18.occupancy")
            continue
        O = out[ocols].to_numpy(dtype=float)
        U = out[ucols].to_numpy(dtype=float)
        rows = []
        for i in range(len(idx)):
            T = temps[i]
            occ = bool(occ_vals[int(how_in[i])])
            others = meter is None or meter[i] == meter[i]
            o, u = O[i].tolist(), U[i].tolist()
            run.count(("occ", which, occ, tuple(eo), tuple(eu), T, others), T == T)
            run.dist("occupancy", "%s occupied=%s" % (which, occ))
            if T == T and others:
                both = any(x != 0 for x in o) and any(x != 0 for x in u)
                tot = math.fsum(o) + math.fsum(u)
                msg = kind = None
                if both:
                    kind = msg = "occupied and unoccupied features are both non-zero"
                elif not abs(tot - T) <= 1e-9 * max(1.0, abs(T)):
                    kind, msg = "features do not sum to T", "features sum to %r, temperature is %r" % (tot, T)
                elif occ and any(x != 0 for x in u) or (not occ) and any(x != 0 for x in o):
                    kind = msg = "the features of the wrong occupancy mode are filled"
                if msg:
                    run.violation({"stream": "occupancy", "broken": kind, "which": which},
                                  "C18 %s feature processor at %s: %s" % (which, idx[i].isoformat(), msg),
                                  case={"stream": "occupancy", "seed": seed, "row": i}, observation={"occupied": o, "unoccupied": u,
                                                                                                      "temperature": T, "occupancy": occ},
                                  generator="c18.occupancy")
            opt = lambda v: coq_opt(None if v != v else v, fhex)  # noqa
            rows.append("(%s, Some %s, %s, %s, %s)" % (coq_bool(others), coq_bool(occ), opt(T), coq_list([opt(x) for x in o]),
                                                       coq_list([opt(x) for x in u])))
        # the keep-flag frames go to the model as they went to the processor: it selects the endpoints itself, from the
        # candidates the translator read in the source
        terms.append("(%s, %s, %s)" % (coq_list([coq_bool(c in eo) for c in cand]), coq_list([coq_bool(c in eu) for c in cand]),
                                       coq_list(rows)))
        meta.append({"stream": "occupancy", "seed": seed, "which": which, "occupied_endpoints": eo, "unoccupied_endpoints": eu})
    if meta:
        run.sample(meta[0])
    return "occupancy", terms, meta, "check_occupancy"


# ------------------------------------------------------------------ stream 5: month routing of predictions

def own_columns(idx, zone, seg_type):
    """for every hour: the fitted segment in which the implementation gives that hour full weight, when it is unique"""
    from opendsm.eemeter.models.hourly_caltrack.segmentation import segment_time_series
    df = segment_time_series(idx, seg_type)
    W = df.to_numpy(dtype=float)
    cols = [str(c) for c in df.columns]
    full = (W == 1.0)
    own = [cols[int(np.argmax(r))] if r.sum() == 1 else None for r in full]
    return cols, own


def synthetic_model(names, seg_type, fitted=None, empty=()):
    """one constant segment model of value 2^k per name (k = position in `names`); only the names in `fitted` get a model;
    the names in `empty` get the parameterless model that fit_caltrack_hourly_model_segment returns for a segment without data"""
    from opendsm.eemeter.models.hourly_caltrack.segmentation import CalTRACKSegmentModel
    from opendsm.eemeter.models.hourly_caltrack.model import CalTRACKHourlyModel
    segs = [CalTRACKSegmentModel(n, None, "meter_value ~ C(hour_of_week) - 1",
                                 {"C(hour_of_week)[%d]" % h: float(2 ** k) for h in range(168)}) for k, n in enumerate(names)
            if fitted is None or n in fitted]
    segs += [CalTRACKSegmentModel(n, None, None, None) for n in names if n in empty]
    occ = pd.DataFrame({n: [True] * 168 for n in names}, index=pd.CategoricalIndex(range(168)))
    cand = [30, 45, 55, 65, 75, 90]
    bins = pd.DataFrame({n: [False] * 6 for n in names}, index=pd.Series(cand, name="bin_endpoints"))
    return CalTRACKHourlyModel(segs, occ, bins, bins.copy(), seg_type)


def decode(v, names, unit=1.0):
    """value -> name of the single segment model (value unit*2^k), None for NaN, or a description of a mixture"""
    if v != v:
        return None
    x = v / unit
    k = round(math.log2(x)) if x > 0 else -1
    if 0 <= k < len(names) and abs(x - 2 ** k) <= 1e-6 * 2 ** k:
        return names[k]
    parts = []
    r = x
    for k in reversed(range(len(names))):
        q = math.floor(r / 2 ** k * 2 + 1e-6) / 2
        if q > 0:
            parts.append("%g*%s" % (q, names[k]))
            r -= q * 2 ** k
    return "MIX(" + " + ".join(parts) + ")" if parts else "MIX(%r)" % v


def routing_check(run, stream, zone, year, idx, pred, names, own, month, fit_type, terms, meta, unit=1.0):
    """pred: predicted values per hour; own: implementation's full-weight fitted segment per hour"""
    by_month = {}
    reported = 0
    for i, v in enumerate(pred):
        who = decode(v, names, unit)
        m = int(month[i])
        by_month.setdefault(m, set()).add(who)
        if who != own[i] and reported < 3:
            reported += 1
            run.violation({"stream": stream, "broken": "predicted by another month's model", "fit_type": fit_type},
                          "C18 prediction at %s [%s] comes from %s, the hour's own month model is %s"
                          % (idx[i].isoformat(), zone, who, own[i]),
                          case={"stream": stream, "zone": zone, "year": year, "hour": idx[i].isoformat(), "month": m},
                          observation={"predicted_by": who}, expected=own[i], generator="c18." + stream)
    for m in sorted(by_month):
        n_hours = int((month == m).sum())
        run.count((stream, zone, year, m, tuple(sorted(map(str, by_month[m])))), True, n=n_hours)
        for who in sorted(by_month[m], key=str):
            terms.append("(%s, %s, %s)" % (coq_string(fit_type), zlit(m), coq_opt(who, coq_string)))
            meta.append({"stream": stream, "zone": zone, "year": year, "month": m, "predicted_by": who})


def stream_routing(run, zones, only=None):
    from opendsm.eemeter.models.hourly_caltrack.segmentation import segment_time_series
    terms, meta = [], []
    fit_type = "three_month_weighted"
    for zone in zones:
        for year in YEARS:
            if only and (only.get("zone"), only.get("year")) != (zone, year):
                continue
            idx = year_index(zone, year)
            month = local_fields(idx, zone)[:, 0]
            try:
                names, own = own_columns(idx, zone, fit_type)
                model = synthetic_model(names, fit_type)
                temp = pd.Series(60.0, index=idx)
                pred = model.predict(idx, temp).result["predicted_usage"].reindex(idx).to_numpy(dtype=float).tolist()
            except Exception as e:  # noqa
                run.violation({"stream": "routing", "broken": "raises", "raised": type(e).__name__},
                              "C18 CalTRACKHourlyModel.predict raised %s" % type(e).__name__,
                              case={"stream": "routing", "zone": zone, "year": year}, generator="c18.routing")
                continue
            routing_check(run, "routing", zone, year, idx, pred, names, own, month, fit_type, terms, meta)
    # the "single" fit type: one model, every hour
    if not only:
        idx = year_index("UTC", 2024)
        names = [str(c) for c in segment_time_series(idx[:3], "single").columns]
        model = synthetic_model(names, "single")
        pred = model.predict(idx, pd.Series(60.0, index=idx)).result["predicted_usage"].reindex(idx).to_numpy(dtype=float).tolist()
        routing_check(run, "routing", "UTC", 2024, idx, pred, names, [names[0]] * len(idx), local_fields(idx, "UTC")[:, 0],
                      "single", terms, meta)
    uniq = {}
    for t, mt in zip(terms, meta):
        uniq.setdefault(t, mt)
    if uniq:
        run.sample(list(uniq.values())[min(len(uniq) - 1, 5)])
    return "routing", list(uniq), list(uniq.values()), "check_prediction"


def stream_routing_partial(run, zones, n, only=None):
    """predict over a stretch of a few days to a few months (so that segment_time_series drops the zero-weight columns)
    with a model that lacks some segment models: every hour is predicted by its own month's model or, when that model is
    absent, not at all"""
    import random
    from opendsm.eemeter.models.hourly_caltrack.segmentation import segment_time_series
    terms, meta = [], []
    seeds = [only["seed"]] if only else [run.rng.randrange(10**9) for _ in range(n)]
    for seed in seeds:
        rng = random.Random(seed)
        zone = rng.choice(zones)
        fit_type = "single" if rng.random() < 0.1 else "three_month_weighted"
        start = pd.Timestamp("2023-01-01", tz=zone) + pd.Timedelta(days=rng.randrange(0, 700))
        idx = pd.date_range(start, periods=24 * rng.choice([1, 2, 9, 20, 35, 45, 75, 130]), freq="h")
        month = local_fields(idx, zone)[:, 0]
        present = sorted(set(int(m) for m in month))
        try:
            names, own = own_columns(idx, zone, fit_type)
            present_own = sorted({o for o in own if o is not None})
            drop = set(rng.sample(present_own, min(len(present_own), rng.choice([0, 1, 1, 2])))) | set(
                rng.sample(names, min(len(names), rng.choice([0, 0, 1, 3]))))
            fitted = [nm for nm in names if nm not in drop]
            empty = [nm for nm in sorted(drop) if rng.random() < 0.5]      # present but without parameters (a segment that had no data)
            model = synthetic_model(names, fit_type, fitted, empty)
            pred = model.predict(idx, pd.Series(60.0, index=idx)).result["predicted_usage"].reindex(idx).to_numpy(dtype=float).tolist()
        except Exception as e:  # noqa
            run.violation({"stream": "routing_partial", "broken": "raises", "raised": type(e).__name__},
                          "C18 CalTRACKHourlyModel.predict over part of a year raised %s: %s" % (type(e).__name__, str(e)[:160]),
                          case={"stream": "routing_partial", "seed": seed}, generator="c18.routing_partial")
            continue
        by_month, reported = {}, 0
        for i, v in enumerate(pred):
            who = decode(v, names)
            by_month.setdefault(int(month[i]), set()).add(who)
            exp = own[i] if own[i] in fitted else None
            if who != exp and reported < 2:
                reported += 1
                run.violation({"stream": "routing_partial", "broken": "predicted by another month's model" if who is not None
                               else "own model exists but no prediction", "fit_type": fit_type},
                              "C18 prediction at %s [%s] comes from %s; the hour's own month model is %s (%s)"
                              % (idx[i].isoformat(), zone, who, own[i], "fitted" if own[i] in fitted else "absent from the model"),
                              case={"stream": "routing_partial", "seed": seed, "hour": idx[i].isoformat(), "month": int(month[i])},
                              observation={"predicted_by": who, "fitted": fitted, "months_in_index": present}, expected=exp,
                              generator="c18.routing_partial")
        run.dist("partial_index_months", len(present))
        run.dist("partial_absent_own_models", sum(1 for o in present_own if o not in fitted))
        for m in sorted(by_month):
            run.count(("routing_partial", seed, m), True, n=int((month == m).sum()))
            for who in sorted(by_month[m], key=str):
                terms.append("(%s, %s, %s, %s, %s)" % (coq_list([zlit(x) for x in present]), coq_list([coq_string(x) for x in fitted]),
                                                       coq_string(fit_type), zlit(m), coq_opt(who, coq_string)))
                meta.append({"stream": "routing_partial", "seed": seed, "zone": zone, "fit_type": fit_type, "months_in_index": present,
                             "n_fitted": len(fitted), "n_parameterless": len(empty), "month": m, "predicted_by": who})
    if meta:
        run.sample(meta[min(len(meta) - 1, 3)])
    return "routing_partial", terms, meta, "check_prediction_on"



# ------------------------------------------------------------------ stream 8: _fit_temperature_bins (which endpoints are kept)

def np_bin_counts(temps, e):
    """counts per bin (-inf, e1], (e1, e2], ..., (ek, +inf) of the non-null temperatures, with numpy only"""
    t = np.asarray([x for x in temps if x == x], dtype=float)
    edges = [-np.inf] + [float(x) for x in e] + [np.inf]
    return [int(((t > a) & (t <= b)).sum()) for a, b in zip(edges, edges[1:])]


def fit_bins_oracle(temps, cands, minc, out):
    """statement on one call: kept endpoints are a sub-list of the sorted distinct candidates, every kept bin holds the
    minimum count unless a single bin is left, and candidates whose bins all hold the minimum are all kept.
    Returns (kind, message) or None."""
    norm = sorted(set(float(c) for c in cands))
    out = [float(x) for x in out]
    it = iter(norm)
    if not all(any(x == y for y in it) for x in out):
        return "not a sub-list of the candidates", "kept endpoints %s are not a sub-list of the candidates %s" % (out, norm)
    if norm and all(c >= minc for c in np_bin_counts(temps, norm)) and out != norm:
        return "endpoint dropped without need", "every bin of the candidates %s holds the minimum count %d (%s) but only %s were kept" % (
            norm, minc, np_bin_counts(temps, norm), out)
    if out:
        counts = np_bin_counts(temps, out)
        low = [i for i, c in enumerate(counts) if c < minc]
        if low:
            return "kept bin below the minimum count", "bin %d of the kept endpoints %s holds %d temperatures, the minimum is %d" % (
                low[0], out, counts[low[0]], minc)
    return None


def sample_temperatures(rng, n, cands):
    centre = rng.uniform(20, 100)
    sd = rng.choice([3, 8, 15, 30])
    pool = [float(c) for c in cands]
    out = []
    for _ in range(n):
        u = rng.random()
        if u < 0.08 and pool:
            out.append(rng.choice(pool))                       # exactly on a candidate (belongs to the bin on its left)
        elif u < 0.11:
            out.append(float("nan"))
        else:
            out.append(round(rng.gauss(centre, sd) * 4) / 4.0)
    return out


def stream_fit_bins(run, n, only=None):
    import random
    from opendsm.eemeter.common.features import _fit_temperature_bins, fit_temperature_bins
    default = list(inspect.signature(fit_temperature_bins).parameters["default_bins"].default)
    terms, meta = [], []
    seeds = [only["seed"]] if only else [run.rng.randrange(10**9) for _ in range(n)]
    for seed in seeds:
        rng = random.Random(seed)
        u = rng.random()
        if u < 0.6:
            cands = list(default)
        elif u < 0.85:
            cands = sorted(rng.sample(range(0, 120, 5), rng.choice([1, 2, 3, 5, 8])))
        else:                                                  # unsorted / repeated candidates: sorted(set(...)) is part of the code
            cands = [rng.choice(range(20, 100, 10)) for _ in range(rng.choice([2, 4, 6]))]
        temps = sample_temperatures(rng, rng.choice([0, 3, 30, 120, 400, 1500]), cands)
        counts = np_bin_counts(temps, sorted(set(cands)))
        v = rng.random()
        if v < 0.45 and counts:                                # a bin sits exactly at / one below the minimum
            minc = max(0, rng.choice(counts) + rng.choice([0, 0, 1]))
        else:
            minc = rng.choice([0, 1, 5, 20, 20, 50, 200])
        try:
            out = _fit_temperature_bins(pd.Series(temps, dtype=float), list(cands), minc)
            out = [float(x) for x in out]
        except Exception as e:  # noqa
            run.violation({"stream": "fit_bins", "broken": "raises", "raised": type(e).__name__},
                          "C18 _fit_temperature_bins raised %s: %s" % (type(e).__name__, str(e)[:160]),
                          case={"stream": "fit_bins", "seed": seed}, generator="c18.fit_bins")
            continue
        at_edge = minc in counts or (minc - 1) in counts
        run.count(("fit_bins", seed), len(temps) > 0)
        run.dist("fit_bins_kept", "%d of %d" % (len(out), len(set(cands))))
        run.dist("fit_bins_min_count_on_a_bin_count", at_edge)
        res = fit_bins_oracle(temps, cands, minc, out)
        if res:
            run.violation({"stream": "fit_bins", "broken": res[0]}, "C18 _fit_temperature_bins(min count %d): %s" % (minc, res[1]),
                          case={"stream": "fit_bins", "seed": seed}, observation={"kept": out, "candidates": cands, "min_count": minc,
                                                                                   "counts_of_candidates": counts},
                          expected="a sub-list of the candidates whose bins each hold the minimum count (or no endpoint)",
                          generator="c18.fit_bins")
        q = lambda x: qlit(Fraction(float(x)))  # noqa
        terms.append("(%s, %s, %s, %s)" % (coq_list([q(t) for t in temps if t == t]), coq_list([q(c) for c in cands]), zlit(minc),
                                           coq_list([q(x) for x in out])))
        meta.append({"stream": "fit_bins", "seed": seed, "candidates": cands, "min_count": minc, "n_temperatures": len(temps), "kept": out})
    if meta:
        run.sample(meta[min(len(meta) - 1, 2)])
    return "fit_bins", terms, meta, "check_fit_bins"


def stream_fit_api(run, n, only=None):
    """fit_temperature_bins(data, segmentation, occupancy_lookup) with its defaults: per segment, the hours of positive weight
    split by the occupancy of their hour of week"""
    import random
    from opendsm.eemeter.common.features import fit_temperature_bins
    from opendsm.eemeter.models.hourly_caltrack.segmentation import segment_time_series
    sig = inspect.signature(fit_temperature_bins).parameters
    default, minc = list(sig["default_bins"].default), sig["min_temperature_count"].default
    terms, meta = [], []
    seeds = [only["seed"]] if only else [run.rng.randrange(10**9) for _ in range(n)]
    for seed in seeds:
        rng = random.Random(seed)
        zone = rng.choice(ZONES)
        seg_type = rng.choice(["three_month_weighted", "three_month_weighted", "one_month", "single"])
        start = pd.Timestamp("2023-01-01", tz=zone) + pd.Timedelta(days=rng.randrange(0, 600))
        idx = pd.date_range(start, periods=24 * rng.choice([10, 25, 40, 70]), freq="h")
        lf = local_fields(idx, zone)
        how = 24 * lf[:, 1] + lf[:, 2]
        temps = sample_temperatures(rng, len(idx), default)
        p_occ = rng.choice([0.2, 0.5, 0.8])
        try:
            segmentation = segment_time_series(idx, seg_type)
            names = [str(c) for c in segmentation.columns]
            occ = {nm: [rng.random() < p_occ for _ in range(168)] for nm in names}
            lookup = pd.DataFrame(occ, index=pd.CategoricalIndex(range(168)))
            data = pd.DataFrame({"temperature_mean": temps}, index=idx)
            bo, bu = fit_temperature_bins(data, segmentation=segmentation, occupancy_lookup=lookup)
        except Exception as e:  # noqa
            run.violation({"stream": "fit_api", "broken": "raises", "raised": type(e).__name__},
                          "C18 fit_temperature_bins raised %s: %s" % (type(e).__name__, str(e)[:160]),
                          case={"stream": "fit_api", "seed": seed}, generator="c18.fit_api")
            continue
        if [float(x) for x in bo.index] != [float(x) for x in default] or list(bo.columns) != names or list(bu.columns) != names:
            run.violation({"stream": "fit_api", "broken": "shape"}, "C18 fit_temperature_bins: unexpected index / columns",
                          case={"stream": "fit_api", "seed": seed}, generator="c18.fit_api")
            continue
        W = segmentation.to_numpy(dtype=float)
        active = [k for k, nm in enumerate(names) if (W[:, k] > 0).any()]
        chosen = rng.sample(active, min(len(active), 3))
        obs = []
        for k in chosen:
            nm = names[k]
            sel = W[:, k] > 0
            for mode, frame, want in (("occupied", bo, True), ("unoccupied", bu, False)):
                flags = [bool(x) for x in frame[nm].tolist()]
                kept = [float(c) for c, f in zip(default, flags) if f]
                tt = [temps[i] for i in np.nonzero(sel)[0] if occ[nm][int(how[i])] == want]
                run.count(("fit_api", seed, nm, mode), len(tt) > 0)
                res = fit_bins_oracle(tt, default, minc, kept)
                if res:
                    run.violation({"stream": "fit_api", "broken": res[0], "mode": mode},
                                  "C18 fit_temperature_bins, segment %s (%s): %s" % (nm, mode, res[1]),
                                  case={"stream": "fit_api", "seed": seed, "segment": nm, "mode": mode},
                                  observation={"flags": flags, "counts_of_kept": np_bin_counts(tt, kept)}, generator="c18.fit_api")
            obs.append("(%s, %s, %s)" % (coq_string(nm), coq_list([coq_bool(bool(x)) for x in bo[nm].tolist()]),
                                         coq_list([coq_bool(bool(x)) for x in bu[nm].tolist()])))
        for k, o in zip(chosen, obs):
            nm = names[k]
            rws = coq_list(["(%s, %s, %s)" % (zlit(int(lf[i, 0])), coq_bool(occ[nm][int(how[i])]), qlit(Fraction(temps[i])))
                            for i in range(len(idx)) if temps[i] == temps[i]])
            terms.append("(%s, %s, %s)" % (coq_string(seg_type), rws, coq_list([o])))
            meta.append({"stream": "fit_api", "seed": seed, "zone": zone, "segment_type": seg_type, "segment": nm, "hours": len(idx)})
    if meta:
        run.sample(meta[0])
    return "fit_api", terms, meta, "check_fit_api"


# ------------------------------------------------------------------ stream 9: hour-of-week occupancy rule

class _FakeWLS:
    """stands in for statsmodels' formula API inside opendsm.eemeter.common.features while a residual table is fed to the
    decision rule: wls(...).fit().resid is the prepared series (the regression itself stays an oracle)"""

    def __init__(self, resid):
        self._resid = resid

    def wls(self, formula=None, data=None, weights=None, **kw):
        return self

    def fit(self, *a, **kw):
        return self

    @property
    def resid(self):
        return self._resid


def occupancy_oracle(rows, thr, lookup):
    """statement on one lookup: 168 booleans; occupied iff positive / all > threshold; no residual -> occupied (the cast)"""
    if len(lookup) != 168:
        return "not 168 hours", "the lookup has %d rows" % len(lookup)
    n, p = [0] * 168, [0] * 168
    for h, pos in rows:
        n[h] += 1
        p[h] += 1 if pos else 0
    for h in range(168):
        v = lookup[h]
        if v is None or not isinstance(v, bool):
            return "not a boolean", "hour of week %d has occupancy %r" % (h, v)
        want = True if n[h] == 0 else Fraction(p[h], n[h]) > Fraction(thr)
        if n[h] and 0 < abs(Fraction(p[h], n[h]) - Fraction(thr)) < Fraction(1, 2**50):
            continue        # inside the rounding band of the binary64 division: left to the bit-exact correspondence
        if v != want:
            return ("no residuals but unoccupied" if n[h] == 0 else "flag differs from ratio > threshold",
                    "hour of week %d: %d of %d residuals positive (ratio %s), threshold %r, occupied=%r"
                    % (h, p[h], n[h], "-" if n[h] == 0 else "%.6f" % (p[h] / n[h]), thr, v))
    return None


def canon_lookup(series):
    if [int(x) for x in series.index] != list(range(168)):
        return None
    out = []
    for v in series.tolist():
        out.append(None if (isinstance(v, float) and v != v) or v is None else (bool(v) if isinstance(v, (bool, np.bool_)) else v))
    return out


def stream_occupancy_rule(run, n, only=None):
    import random
    import opendsm.eemeter.common.features as F
    thr_default = inspect.signature(F.estimate_hour_of_week_occupancy).parameters["threshold"].default
    terms, meta = [], []
    seeds = [only["seed"]] if only else [run.rng.randrange(10**9) for _ in range(n)]
    weeks = 42
    idx = pd.date_range("2023-01-02", periods=168 * weeks, freq="h", tz="UTC")      # a Monday: position mod 168 = hour of week
    how_all = np.arange(len(idx)) % 168
    for seed in seeds:
        rng = random.Random(seed)
        use_default = rng.random() < 0.6
        thr = thr_default if use_default else rng.choice([0.5, 0.5, 0.25, 0.75, 0.625, 0.65, 1.0, 0.0, 0.7, 0.6])
        no_data = rng.random() < 0.06
        public = rng.random() < 0.3
        # residual table: per hour of week n_h residuals of which p_h positive; ratios on and around the threshold
        chosen, signs = [], []
        for h in range(168):
            nh = rng.choice([0, 0, 1, 2, 3, 4, 5, 10, 20, 20, 20, 40])
            if nh == 0:
                continue
            u = rng.random()
            fr = Fraction(thr).limit_denominator(40)
            if u < 0.35:
                ph = min(nh, max(0, int(fr * nh) + rng.choice([0, 0, 1])))       # floor(thr*n) and one above: the boundary
            else:
                ph = rng.randint(0, nh)
            pos = rng.sample(range(weeks), nh)
            for j, w in enumerate(pos):
                chosen.append(w * 168 + h)
                signs.append(j < ph)
        order = sorted(range(len(chosen)), key=lambda k: chosen[k])
        chosen = [chosen[k] for k in order]
        signs = [signs[k] for k in order]
        vals = [(rng.uniform(0.01, 3) if sgn else rng.choice([0.0, -rng.uniform(0.01, 3)])) for sgn in signs]   # 0 is not positive
        resid = pd.Series(vals, index=idx[chosen], dtype=float)
        present = sorted(set(int(x) for x in how_all[chosen])) or [0]
        cats = present if rng.random() < 0.5 else list(range(168))        # hours of week unknown to the categorical / known but empty
        hw = pd.Series(how_all, index=idx)
        md = pd.DataFrame({"meter_value": 1.0, "cdd_65": 0.0, "hdd_50": 0.0,
                           "hour_of_week": pd.Categorical(hw.where(hw.isin(cats)), categories=cats), "weight": 1.0}, index=idx)
        if no_data:
            md["meter_value"] = np.nan
        saved = F.smf
        try:
            F.smf = _FakeWLS(resid)
            if public:                      # the public function adds the weight column itself (segmentation=None: weight 1)
                mdp = md.drop(columns=["weight"])
                frame = (F.estimate_hour_of_week_occupancy(mdp) if use_default
                         else F.estimate_hour_of_week_occupancy(mdp, threshold=thr))
                series = frame["occupancy"] if list(frame.columns) == ["occupancy"] else None
            else:
                series = F._estimate_hour_of_week_occupancy(md, thr)
        except Exception as e:  # noqa
            F.smf = saved
            run.violation({"stream": "occupancy_rule", "broken": "raises", "raised": type(e).__name__},
                          "C18 _estimate_hour_of_week_occupancy raised %s: %s" % (type(e).__name__, str(e)[:160]),
                          case={"stream": "occupancy_rule", "seed": seed}, generator="c18.occupancy_rule")
            continue
        finally:
            F.smf = saved
        lookup = canon_lookup(series) if series is not None else None
        # rows whose hour of week is outside the categories have a NaN key and fall out of the groupby
        rows = [(int(how_all[c]), bool(v > 0)) for c, v in zip(chosen, vals) if int(how_all[c]) in cats]
        run.count(("occupancy_rule", seed), not no_data)
        if lookup is None:
            run.violation({"stream": "occupancy_rule", "broken": "not 168 hours"}, "C18 occupancy lookup is not indexed by 0..167",
                          case={"stream": "occupancy_rule", "seed": seed}, generator="c18.occupancy_rule")
            continue
        if not no_data:
            res = occupancy_oracle(rows, thr, lookup)
            if res:
                run.violation({"stream": "occupancy_rule", "broken": res[0]}, "C18 hour-of-week occupancy: %s" % res[1],
                              case={"stream": "occupancy_rule", "seed": seed}, observation={"threshold": thr},
                              expected="occupied iff the fraction of positive residuals exceeds the threshold", generator="c18.occupancy_rule")
            for h in range(168):
                nh = sum(1 for hh, _ in rows if hh == h)
                if nh:
                    ph = sum(1 for hh, s_ in rows if hh == h and s_)
                    d = Fraction(ph, nh) - Fraction(thr)
                    run.dist("occupancy_ratio_vs_threshold", "equal (13/20-like)" if abs(d) < Fraction(1, 10**9) else
                             ("just above" if 0 < d <= Fraction(1, 10) else ("just below" if -Fraction(1, 10) <= d < 0 else "far")))
                else:
                    run.dist("occupancy_ratio_vs_threshold", "no residuals")
        canon = [v if (v is None or isinstance(v, bool)) else None for v in lookup]
        terms.append("(%s, %s, %s, %s)" % (coq_bool(no_data), "None" if use_default else "(Some %s)" % fhex(float(thr)),
                                           coq_list(["(%s, %s)" % (zlit(h), coq_bool(sg)) for h, sg in rows]),
                                           coq_list([coq_opt(v, coq_bool) for v in canon])))
        meta.append({"stream": "occupancy_rule", "seed": seed, "threshold": thr, "default_threshold": use_default, "no_data": no_data,
                     "public_function": public, "n_residuals": len(rows)})
    if meta:
        run.sample(meta[0])
    return "occupancy_rule", terms, meta, "check_occupancy_rule"


# ------------------------------------------------------------------ stream 10: the value a fitted model predicts

def stream_predict_value(run, zones, n, only=None):
    """CalTRACKHourlyModel.predict with synthetic segment models whose parameters, temperatures and endpoints are small dyadic
    numbers (binary64 products and sums are then exact, whatever the order of the dot product): the predicted value of
    every hour against Model/CalTrackPredict.v, and against the own month model's closed form (oracle)"""
    import random
    from opendsm.eemeter.models.hourly_caltrack.segmentation import CalTRACKSegmentModel
    from opendsm.eemeter.models.hourly_caltrack.model import CalTRACKHourlyModel
    from opendsm.eemeter.common.features import fit_temperature_bins
    cand = list(inspect.signature(fit_temperature_bins).parameters["default_bins"].default)
    terms, meta = [], []
    seeds = [only["seed"]] if only else [run.rng.randrange(10**9) for _ in range(n)]
    for seed in seeds:
        rng = random.Random(seed)
        zone = rng.choice(zones)
        fit_type = "single" if rng.random() < 0.15 else "three_month_weighted"
        start = pd.Timestamp("2023-01-01", tz=zone) + pd.Timedelta(days=rng.randrange(0, 700))
        if rng.random() < 0.5:          # across a month end
            start = pd.Timestamp(year=start.year, month=start.month, day=1, tz=zone) - pd.Timedelta(hours=rng.randrange(1, 60))
        idx = pd.date_range(start, periods=rng.choice([30, 72, 120]), freq="h")
        lf = local_fields(idx, zone)
        month, how = lf[:, 0], 24 * lf[:, 1] + lf[:, 2]
        present = sorted(set(int(x) for x in month))
        dy = lambda lo, hi, d: rng.randrange(lo * d, hi * d) / float(d)  # noqa
        try:
            names, own = own_columns(idx, zone, fit_type)
            occ = {nm: [rng.random() < 0.5 for _ in range(168)] for nm in names}
            fo = {nm: [rng.random() < 0.5 for _ in cand] for nm in names}
            fu = {nm: [rng.random() < 0.5 for _ in cand] for nm in names}
            state, params, segs = {}, {}, []
            for nm in names:
                u = rng.random()
                state[nm] = "absent" if u < 0.08 else ("parameterless" if u < 0.16 else "fitted")
                if state[nm] == "absent":
                    continue
                if state[nm] == "parameterless":
                    segs.append(CalTRACKSegmentModel(nm, None, None, None))
                    continue
                hw = [(h, dy(-4, 4, 8)) for h in range(168) if rng.random() < 0.93]
                po = [None if rng.random() < 0.1 else dy(-2, 2, 8) for _ in range(sum(fo[nm]) + 1)]
                pu = [None if rng.random() < 0.1 else dy(-2, 2, 8) for _ in range(sum(fu[nm]) + 1)]
                if rng.random() < 0.2:      # one slope for all occupied bins: the prediction is then linear in the temperature
                    po = [po[0] if po[0] is not None else 0.5] * len(po)
                params[nm] = (hw, po, pu)
                cols = ["bin_%d_occupied" % i for i in range(len(po))] + ["bin_%d_unoccupied" % i for i in range(len(pu))]
                d = {"C(hour_of_week)[%d]" % h: c for h, c in hw}
                d.update({"bin_%d_occupied" % i: c for i, c in enumerate(po) if c is not None})
                d.update({"bin_%d_unoccupied" % i: c for i, c in enumerate(pu) if c is not None})
                segs.append(CalTRACKSegmentModel(nm, None, "meter_value ~ C(hour_of_week) - 1 + " + " + ".join(cols), d))
            lookup = pd.DataFrame(occ, index=pd.CategoricalIndex(range(168)))
            bo = pd.DataFrame(fo, index=pd.Series(cand, name="bin_endpoints"))
            bu = pd.DataFrame(fu, index=pd.Series(cand, name="bin_endpoints"))
            model = CalTRACKHourlyModel(segs, lookup, bo, bu, fit_type)
            temps = [float("nan") if rng.random() < 0.05 else (float(rng.choice(cand)) if rng.random() < 0.15 else dy(-10, 110, 4))
                     for _ in idx]
            pred = model.predict(idx, pd.Series(temps, index=idx)).result["predicted_usage"].reindex(idx).to_numpy(dtype=float).tolist()
        except Exception as e:  # noqa
            run.violation({"stream": "predict_value", "broken": "raises", "raised": type(e).__name__},
                          "C18 CalTRACKHourlyModel.predict raised %s: %s" % (type(e).__name__, str(e)[:200]),
                          case={"stream": "predict_value", "seed": seed}, generator="c18.predict_value")
            continue

        def closed_form(nm, h, T):
            """the own month model's answer from the statement: c_h + sum of coefficient x bin, bins = min / clamp / max"""
            if nm is None or state.get(nm) != "fitted" or T != T:
                return None
            hw, po, pu = params[nm]
            c = dict(hw).get(h)
            if c is None:
                return None
            e = [Fraction(x) for x, f in zip(cand, fo[nm] if occ[nm][h] else fu[nm]) if f]
            t = Fraction(T)
            if not e:
                b = [t]
            else:
                b = [min(t, e[0])] + [max(Fraction(0), min(t - l, r - l)) for l, r in zip(e, e[1:])] + [max(Fraction(0), t - e[-1])]
            co = po if occ[nm][h] else pu
            return Fraction(c) + sum(Fraction(k) * x for k, x in zip(co, b) if k is not None)

        rows, reported = [], 0
        for i, v in enumerate(pred):
            h, T = int(how[i]), temps[i]
            exp = closed_form(own[i], h, T)
            got = None if v != v else Fraction(v)
            run.count(("predict_value", seed, i), exp is not None)
            run.dist("predict_value_kind", "NaN" if exp is None else ("occupied" if occ[own[i]][h] else "unoccupied"))
            if got != exp and reported < 2:
                reported += 1
                run.violation({"stream": "predict_value", "broken": "prediction is not the own month model's value",
                               "nan": got is None or exp is None},
                              "C18 prediction at %s [%s]: %s, the own month model %s (%s) gives %s"
                              % (idx[i].isoformat(), zone, None if got is None else float(got), own[i], state.get(own[i]),
                                 None if exp is None else float(exp)),
                              case={"stream": "predict_value", "seed": seed, "hour": idx[i].isoformat(), "row": i},
                              observation={"predicted": v, "temperature": None if T != T else T, "hour_of_week": h},
                              expected=None if exp is None else float(exp), generator="c18.predict_value")
            rows.append("(%s, %s, %s, %s)" % (zlit(int(month[i])), zlit(h), coq_opt(None if T != T else T, lambda x: qlit(Fraction(x))),
                                              coq_opt(got, qlit)))
        q = lambda x: qlit(Fraction(x))  # noqa
        frames = coq_list(["(%s, (%s, %s, %s))" % (coq_string(nm), coq_list([coq_bool(b) for b in occ[nm]]),
                                                     coq_list([coq_bool(b) for b in fo[nm]]), coq_list([coq_bool(b) for b in fu[nm]]))
                           for nm in names])
        ms = coq_list(["(%s, %s)" % (coq_string(nm), "None" if state[nm] == "parameterless" else "(Some (%s, %s, %s))" % (
            coq_list(["(%s, %s)" % (zlit(h), q(c)) for h, c in params[nm][0]]),
            coq_list([coq_opt(c, q) for c in params[nm][1]]), coq_list([coq_opt(c, q) for c in params[nm][2]])))
            for nm in names if state[nm] != "absent"])
        terms.append("(%s, %s, %s, %s, %s)" % (frames, ms, coq_list([zlit(x) for x in present]), coq_string(fit_type), coq_list(rows)))
        meta.append({"stream": "predict_value", "seed": seed, "zone": zone, "fit_type": fit_type, "hours": len(idx),
                     "months_in_index": present, "segment_states": {k: v for k, v in state.items() if v != "fitted"}})
    if meta:
        run.sample(meta[0])
    return "predict_value", terms, meta, "check_predict_value"


def stream_fit(run, seed):
    """one real fit through the wrapper; every fitted segment model is then shifted by its own offset 1000*2^k
    (added to all its hour-of-week coefficients): the shift seen in an hour's prediction names the model(s) it came from"""
    from opendsm.eemeter.models.hourly_caltrack import HourlyModel, HourlyBaselineData
    terms, meta, wterms, wmeta, uterms, umeta, oterms, ometa = [], [], [], [], [], [], [], []
    import opendsm.eemeter.common.features as F_
    occ_threshold = inspect.signature(F_.estimate_hour_of_week_occupancy).parameters["threshold"].default
    rs = np.random.default_rng(seed)
    zone = "US/Pacific"
    idx = year_index(zone, 2023)
    doy, hod = idx.dayofyear.values, idx.hour.values
    temp = 55 + 25 * np.sin((doy - 100) / 365 * 2 * np.pi) + 10 * np.sin((hod - 9) / 24 * 2 * np.pi) + rs.normal(0, 3, len(idx))
    obs = (1 + 0.05 * np.maximum(temp - 65, 0) + 0.03 * np.maximum(50 - temp, 0) + 0.5 * ((hod > 8) & (hod < 18))
           + 0.2 * np.sin(doy / 58.0) + rs.normal(0, 0.1, len(idx)))
    df = pd.DataFrame({"observed": obs, "temperature": temp}, index=idx)
    try:
        hm = HourlyModel().fit(HourlyBaselineData(df.copy(), is_electricity_data=True))
        inner = hm.model.model
        # fitting side: the weights each segment model was fitted with (its design matrix, and the weights the WLS object
        # holds) are its segment_time_series column on every hour -- zero weights included: a zero-weight row is inert in
        # weighted least squares -- and, hour by hour, they are what the statement says (1 own month, 1/2 neighbours, 0 else)
        seg = hm.model_process_variables.segmentation
        dms = hm.model_process_variables.segmented_design_matrices
        fit_month = local_fields(idx, zone)[:, 0]
        wcols = {}
        for sm in inner.segment_models:
            name = sm.segment_name
            dm = dms[name]
            w_dm = dm["weight"].reindex(idx)
            blank = w_dm.isna().to_numpy()                      # rows merge_features blanked (a NaN cell): dropped by the fit
            same = np.array_equal(w_dm.to_numpy()[~blank], seg[name].reindex(idx).to_numpy()[~blank])
            used = None
            if sm.model is not None and hasattr(sm.model, "weights"):
                labels = pd.DatetimeIndex(sm.model.data.row_labels)
                used = pd.Series(np.asarray(sm.model.weights, dtype=float), index=labels)
                same = same and np.array_equal(used.to_numpy(), seg[name].reindex(labels).to_numpy())
                same = same and len(labels) == int((~dm.isna().any(axis=1)).sum())
            if not same or blank.mean() > 0.05:
                run.violation({"stream": "fit", "broken": "fit weights differ from the segmentation"},
                              "C18 segment %s was fitted with weights other than its segmentation column" % name,
                              case={"stream": "fit", "seed": seed, "segment": name},
                              observation={"rows": int(len(dm)), "blank_rows": int(blank.sum()),
                                           "wls_rows": None if used is None else int(len(used))}, generator="c18.fit")
            wcols[name] = (used.reindex(idx) if used is not None else w_dm).to_numpy(dtype=float)
        rows = {}
        for m in range(1, 13):
            sel = np.nonzero(fit_month == m)[0]
            block = np.column_stack([wcols[n][sel] for n in wcols])
            block = block[~np.isnan(block).any(axis=1)]
            run.count(("fit-weights", m), True, n=len(block))
            if len(block) == 0 or not (block == block[0]).all():
                run.violation({"stream": "fit", "broken": "fit weights differ within a month"},
                              "C18 fit: hours of month %d were not all fitted with the same weights" % m,
                              case={"stream": "fit", "seed": seed, "month": m}, generator="c18.fit")
                continue
            rows[m] = {n: Fraction(float(w)) for n, w in zip(wcols, block[0])}
        if len(rows) == 12:
            for m, c, w, msg in partition_failures("three_month_weighted", rows)[:4]:
                run.violation({"stream": "fit", "broken": "fit weights do not partition", "month": m, "segment": c},
                              "C18 fitted model, weights in the regressions: %s" % msg,
                              case={"stream": "fit", "seed": seed, "month": m, "segment": c, "weight": None if w is None else float(w)},
                              observation={"row": {k: float(v) for k, v in rows[m].items()}}, generator="c18.fit")
            for m in range(1, 13):
                obs = coq_list(["(%s, %s)" % (coq_string(c), qlit(w)) for c, w in sorted(rows[m].items())])
                wterms.append("(%s, %s, %s)" % (coq_string("three_month_weighted"), zlit(m), obs))
                wmeta.append({"stream": "fit_weights", "segment_type": "three_month_weighted", "month": m, "seed": seed})
        # the wrapper files (n, n') of a fitted segment under a calendar month: it must be the month the segment is the own
        # model of
        _, own_fit = own_columns(idx, zone, "three_month_weighted")
        metrics = hm.model_metrics
        mnames = [str(k) for k in metrics.keys()]
        for m in range(1, 13):
            unc = hm._autocorr_unc_vars.get(m)
            owns = sorted({o for o, mm in zip(own_fit, fit_month) if mm == m and o is not None})
            if unc is None or len(owns) != 1:
                run.violation({"stream": "fit", "broken": "no uncertainty figures for a month"},
                              "C18 wrapper: no uncertainty figures filed under month %d" % m,
                              case={"stream": "fit", "seed": seed, "month": m}, generator="c18.fit")
                continue
            same = lambda a, b: a == b or (a != a and b != b)  # noqa
            cands = [k for k in mnames if metrics[k] is not None and same(metrics[k].observed_length, unc["n"])
                     and same(metrics[k].n_prime, unc["n_prime"])]
            run.count(("fit-unc", m, len(cands)), len(cands) == 1)
            if owns[0] not in cands:
                run.violation({"stream": "fit", "broken": "uncertainty figures of another month's model"},
                              "C18 wrapper: month %d carries the (n, n') of %s, its own model is %s" % (m, cands, owns[0]),
                              case={"stream": "fit", "seed": seed, "month": m}, observation={"n": unc["n"], "n_prime": unc["n_prime"]},
                              expected=owns[0], generator="c18.fit")
            if len(cands) == 1:
                uterms.append("(%s, %s, %s)" % (coq_list([coq_string(k) for k in mnames]), zlit(m), coq_opt(cands[0], coq_string)))
                umeta.append({"stream": "fit_unc", "seed": seed, "month": m, "filed_segment": cands[0]})
        # the occupancy lookup of the fit: the same regression call (an oracle) gives the residuals, the rule is the model's
        import statsmodels.formula.api as smf_
        pdm = hm.model_process_variables.preliminary_design_matrix
        occ_lookup = hm.model_process_variables.occupancy_lookup
        for name in [mnames[k] for k in sorted(rs.choice(len(mnames), size=min(2, len(mnames)), replace=False).tolist())]:
            sd = pd.merge(pdm, seg[name].to_frame("weight"), left_index=True, right_index=True)
            sd = sd[sd.weight > 0]
            resid = smf_.wls(formula="meter_value ~ cdd_65 + hdd_50", data=sd, weights=sd.weight).fit().resid
            mg = sd.merge(pd.DataFrame({"residuals": resid}), left_index=True, right_index=True)
            orow = [(int(h), bool(r > 0)) for h, r in zip(mg["hour_of_week"].tolist(), mg["residuals"].tolist()) if h == h]
            lookup = canon_lookup(occ_lookup[name])
            run.count(("fit-occupancy", name), True, n=len(orow))
            res = ("not 168 hours", "lookup not indexed by 0..167") if lookup is None else occupancy_oracle(orow, occ_threshold, lookup)
            if res:
                run.violation({"stream": "fit", "broken": "occupancy: " + res[0]}, "C18 fitted occupancy lookup of %s: %s" % (name, res[1]),
                              case={"stream": "fit", "seed": seed, "segment": name}, generator="c18.fit")
            if lookup is not None:
                oterms.append("(false, None, %s, %s)" % (coq_list(["(%s, %s)" % (zlit(h), coq_bool(sg)) for h, sg in orow]),
                                                         coq_list([coq_opt(v if isinstance(v, bool) else None, coq_bool) for v in lookup])))
                ometa.append({"stream": "fit_occupancy", "seed": seed, "segment": name, "n_residuals": len(orow)})
        ridx = year_index(zone, 2024)
        rdoy, rhod = ridx.dayofyear.values, ridx.hour.values
        rtemp = pd.Series(55 + 25 * np.sin((rdoy - 100) / 365 * 2 * np.pi) + 10 * np.sin((rhod - 9) / 24 * 2 * np.pi), index=ridx)
        base = inner.predict(ridx, rtemp).result["predicted_usage"].reindex(ridx).to_numpy(dtype=float)
        names = [sm.segment_name for sm in inner.segment_models]
        saved = [dict(sm.model_params) for sm in inner.segment_models]
        for k, sm in enumerate(inner.segment_models):
            sm.model_params = {c: (v + 1000.0 * 2 ** k if c.startswith("C(hour_of_week)") else v) for c, v in sm.model_params.items()}
        shifted = inner.predict(ridx, rtemp).result["predicted_usage"].reindex(ridx).to_numpy(dtype=float)
        for sm, p in zip(inner.segment_models, saved):
            sm.model_params = p
    except Exception as e:  # noqa
        run.violation({"stream": "fit", "broken": "raises", "raised": type(e).__name__},
                      "C18 CalTRACK hourly fit/predict raised %s: %s" % (type(e).__name__, str(e)[:200]),
                      case={"stream": "fit", "seed": seed}, generator="c18.fit")
        return [("fit", terms, meta, "check_prediction")]
    _, own = own_columns(ridx, zone, "three_month_weighted")
    month = local_fields(ridx, zone)[:, 0]
    routing_check(run, "fit", zone, 2024, ridx, (shifted - base).tolist(), names, own, month, "three_month_weighted", terms, meta,
                  unit=1000.0)
    run.sample({"stream": "fit", "segments": names[:3] + ["..."], "n_predicted_hours": int(len(ridx)),
                "nan_predictions": int(np.isnan(base).sum())})
    uniq = {}
    for t, mt in zip(terms, meta):
        uniq.setdefault(t, mt)
    return [("fit", list(uniq), list(uniq.values()), "check_prediction"), ("fit_weights", wterms, wmeta, "check_weights"),
            ("fit_unc", uterms, umeta, "check_unc"), ("fit_occupancy", oterms, ometa, "check_occupancy_rule")]


# ------------------------------------------------------------------ main

PROP = "Properties/C18.v"
PROOFS = ["Proofs/CalTrackProofs.v", "Proofs/CalTrackTableProofs.v", "Proofs/CalTrackFitProofs.v", "Proofs/CalTrackFitTableProofs.v",
          "Proofs/CalTrackPredictProofs.v"]
TABLE_FREE = ["Proofs/CalTrackProofs.v", "Proofs/CalTrackFitProofs.v"]


def table_free_theorems(run):
    """The build of the property failed (a table theorem no longer holds of the regenerated tables, or the translator
    refused the source). The theorems that do not look inside the tables -- those proved by a lemma of
    Proofs/CalTrackProofs.v or Proofs/CalTrackFitProofs.v -- are re-checked on their own, so that the evidence says what
    this run did establish."""
    src = open(vlib.COQ + "/" + PROP).read()
    lemmas = set()
    for f in TABLE_FREE:
        lemmas |= set(re.findall(r"^\s*Lemma\s+(\w+)", open(vlib.COQ + "/" + f).read(), re.M))
    thms = re.findall(r"^\s*(?:Theorem|Example)\s+(\w+)(.*?)Qed\.", src, re.M | re.S)
    free = [n for n, body in thms if (re.search(r"Proof\.(?:\s*intros[^.]*\.)?\s*exact\s*\(?\s*(\w+)", body) or [None, None])[1] in lemmas]
    targets = " ".join(f[:-2] + ".vo" for f in TABLE_FREE)
    with vlib.Lock(True):
        for f in TABLE_FREE:
            for ext in (".vo", ".vos", ".vok", ".glob"):
                try:
                    os.remove(vlib.COQ + "/" + f[:-2] + ext)
                except OSError:
                    pass
        rc, out = vlib.sh("timeout 600 make %s" % targets, cwd=vlib.COQ, timeout=660)
    run.cov["obligations"] = max(run.cov["obligations"], len(thms))
    run.cov["theorems"] = [n for n, _ in thms]
    run.cov["discharged"] = len(free) if rc == 0 else 0
    run.cov["discharged_note"] = ("the property file did not build on this run; counted as discharged are the %d theorems proved by "
                                  "lemmas of %s (bins, occupancy, hour of week, endpoint selection, occupancy rule), which were "
                                  "re-checked on their own%s" % (len(free), " and ".join(TABLE_FREE), "" if rc == 0 else " -- and failed too"))
    if not run.cov.get("checker_cmd"):
        run.cov["checker_cmd"] = "cd /verif/coq && make %s (translator failed: the table theorems were not re-checked)" % targets
    run.log("property file did not build; table-free theorems re-checked on their own: %d/%d" % (run.cov["discharged"], run.cov["obligations"]))

CONSTRUCTORS = {
    "check_weights": "Old (CWeights %s)", "check_bins_float": "Old (CBinsF %s)", "check_bins_q": "Old (CBinsQ %s)",
    "check_how": "Old (CHow %s)", "check_occupancy": "Old (COccupancy %s)", "check_prediction": "Old (CPrediction %s)",
    "check_prediction_on": "Old (CPredictionOn %s)", "check_unc": "Old (CUnc %s)", "check_weights_on": "Old (CWeightsOn %s)",
    "check_predict_value": "CPredictValue %s", "check_fit_bins": "CFitBins %s", "check_fit_api": "CFitApi %s", "check_occupancy_rule": "COccRule %s",
}


def compare_all(run, results):
    """every stream's cases in one batch (one wait for coq/.lock, one round of coqc processes): each case is wrapped in the
    constructor of its stream (Model/CalTrackRun.v c18case, check_any); the constructor also gives an empty list its type.
    Cases are dealt round-robin over the shards so that the long ones (bins, occupancy) are spread evenly."""
    items = [(stream, "(%s)" % (CONSTRUCTORS[fn] % t), mt) for stream, terms, meta, fn in results for t, mt in zip(terms, meta)]
    if not items:
        return
    shard = max(16, -(-len(items) // 48))
    nsh = -(-len(items) // shard)
    items = [it for k in range(nsh) for it in items[k::nsh]]
    bad = run.coq_cases("all", IMPORTS, "", [t for _, t, _ in items], "check_any2", shard=shard, case_type="c18case2")
    per = run.cov["streams"]
    for stream, _, _ in items:
        per.setdefault(stream, {"cases": 0, "disagreements": 0})["cases"] += 1
    run.log("compared %d cases of %d streams: %s" % (len(items), len({st for st, _, _ in items}),
                                                     "coq failed" if bad is None else "%d disagreements" % len(bad)))
    if bad is None:
        run.proof_ok = False
        return
    for n, i in enumerate(bad):
        stream, term, mt = items[i]
        per[stream]["disagreements"] += 1
        if n < 8:
            run.corr_failures.append({"stream": stream, "case": mt, "impl": term[:1500],
                                      "model": model_says(run, stream, mt) if n == 0 else None})
        else:
            run.corr_failures.append({"stream": stream, "case": mt})


def model_says(run, stream, mt):
    try:
        if stream in ("weights", "fit_weights"):
            return run.coq_eval(IMPORTS, "", "segment_weights %s %s" % (coq_string(mt["segment_type"]), zlit(mt["month"])))
        if stream in ("routing", "fit"):
            return run.coq_eval(IMPORTS, "", "prediction_segment %s %s" % (coq_string("three_month_weighted"), zlit(mt["month"])))
        if stream == "weights_partial":
            return run.coq_eval(IMPORTS, "", "segment_weights_on %s %s %s %s" % (
                coq_string(mt["segment_type"]), coq_bool(mt["drop_zero_weight_segments"]),
                coq_list([zlit(x) for x in mt["months_in_index"]]), zlit(mt["month"])))
        if stream == "routing_partial":
            return run.coq_eval(IMPORTS, "", "prediction_terms_on %s [] %s %s" % (
                coq_list([zlit(x) for x in mt["months_in_index"]]), coq_string(mt["fit_type"]), zlit(mt["month"])))
    except Exception:  # noqa
        pass
    return None


def main():
    run = Run("C18")
    run.cov["rule"] = (
        "weights: segment_time_series on every hour of 2023 and 2024 in %d zones x 4 segment types, one case per distinct "
        "(type, local month, weight row), local month taken from zoneinfo; weights_partial: the same on single months, two months, "
        "a partial year, four days across a month end and single hours per zone and year, with drop_zero_weight_segments False "
        "and True (distinct = type x index x flag); bins: compute_temperature_bin_features on all 64 "
        "subsets of the candidate endpoints plus random increasing endpoint lists of length 0-12, temperatures = every endpoint "
        "-1ulp/exact/+1ulp, +-1/8, +-1/2, negative, zero, denormal, 1e300, max double, NaN, random (distinct = endpoint list x "
        "temperature; region histogram in `distribution`); how: compute_time_features on every hour of both years per zone "
        "(distinct = zone, year, weekday, hour); occupancy: both feature processors on random lookups / endpoint subsets / "
        "temperatures (non-trivial = finite temperature); routing: CalTRACKHourlyModel.predict with twelve synthetic segment "
        "models of value 2^k on every hour of both years per zone; predict_value: CalTRACKHourlyModel.predict with random dyadic segment parameters, occupancy lookups, keep-flags and temperatures over "
        "30-120 hours, some across a month end, segment models absent / parameterless / without some hour-of-week parameter "
        "(distinct = seed x hour; non-trivial = a finite value is expected); routing_partial: the same over random stretches of 1-130 days "
        "(zero-weight columns dropped) with 0-4 segment models absent (distinct = seed x month); fit: one fitted wrapper model "
        "(weights held by each WLS object vs its segmentation column on every hour, (n, n') filed per month by the wrapper), "
        "every segment model shifted by 1000*2^k, every hour of 2024" % len(ZONES))
    run.assumptions += [
        "temperatures are finite or NaN (the code maps T = -inf to the first endpoint; infinite temperatures are outside the statement)",
        "bin endpoints are increasing (fit_temperature_bins hands over a sub-list of the sorted candidates)",
        "the occupancy lookup covers all 168 hours of the week with booleans (estimate_hour_of_week_occupancy re-indexes over "
        "range(168) and casts to bool); a NaN occupancy feature would keep both feature groups (C18_ex_nan_occupancy_keeps_both)",
        "theorems about bin features are over exact rationals; binary64 rounding of T - e is covered only by the bit-exact "
        "correspondence of the same model text instantiated at PrimFloat, not by a theorem",
        "local month / weekday / hour of an instant are data (zoneinfo); correspondence is sampled over the zones listed",
    ]
    run.cov["trusted_base"] += [
        "harness/translate_caltrack.py (ast extraction of the weight tables, dispatcher, month map, candidate endpoints, "
        "wrapper month_dict and key expression; output shown in samples)",
        "the reading of drop_zero_weight_segments (total weight > 0) as `some month of the index has positive weight` "
        "(weights are 0, 1/2 or 1: C18_weights_in_0_half_1) and of model_lookup.get(...) is None as mem_str -- tied by the "
        "routing_partial correspondence; str.replace / str.split re-specified in Model/CalTrack.v (str_replace, str_split)",
        "harness/c18.py (generators, adapters, canonicalisation, oracle)",
        "the reading of `index.month == n`, `i in months`, `weights.get(str(i), d)` as lookup_month in Model/CalTrack.v, "
        "pandas reindex/fill/merge semantics re-specified in bin_features / feature_row — tied by the correspondence only",
        "statsmodels WLS (the fit) is not modelled; patsy's design matrix at predict time is re-specified as one hour-of-week dummy "
        "plus the bin columns (Model/CalTrackPredict.v segment_predict), tied by the predict_value correspondence on inputs for "
        "which binary64 products and sums are exact",
    ]
    # step 0: translator
    ex = None
    try:
        ex = translate_caltrack.extract()
        run.write_generated(translate_caltrack.OUT, translate_caltrack.render(ex))
        run.sample({"translator": {"three_month_weighted[0:2]": [[s[0], [[m, str(w)] for m, w in s[1]], str(s[2])]
                                                                 for s in ex["tables"].get("three_month_weighted", [])[:2]],
                                   "prediction_info": {k: [v[0], (v[1] or [])[:2]] for k, v in ex["prediction_info"].items()},
                                   "wrapper_segment_type": ex["wrapper_segment_type"]}})
    except translate_caltrack.TranslatorError as e:
        run.proof_ok = False
        run.proof_log += "translator failed (fail-closed): %s" % e
        run.log("TRANSLATOR FAILED: %s" % e)
    # step 1: proofs against the regenerated tables
    if ex is not None:
        run.log("tables regenerated from %s; re-checking the theorems (waits for coq/.lock if another check is building)" % vlib.repo_root())
        run.check_proofs(PROP, PROOFS, generated=["Generated/CalTrackTables.v"])
        if not run.proof_ok:        # Properties/C18.v requires Model/CalTrackRun.v: after a successful build it is up to date
            ok = run.proof_ok
            run.ensure_models(["Model/CalTrackRun.v", "Model/CasesLib.v"])
            run.proof_ok = ok
        run.log("theorems re-checked: %d/%d" % (run.cov["discharged"], run.cov["obligations"]))
        check_tables(run, ex)
    only = None
    if run.replay:
        only = json.load(open(run.replay))["case"]
        if "first" in only:          # a replay of a broken correspondence: take its first case
            only = only["first"][0]["case"]
    zones = ZONES if run.quick() else ZONES_THOROUGH
    st = (only or {}).get("stream")
    st = {"fit_weights": "fit", "fit_unc": "fit", "fit_occupancy": "fit", "bins_float": "bins", "bins_q": "bins", "tables": "weights"}.get(st, st)
    results = []
    if st in (None, "weights"):
        results.append(stream_weights(run, zones, only))
        run.log("weights done")
    if st in (None, "weights_partial"):
        results.append(stream_weights_partial(run, zones, only))
        run.log("weights_partial done")
    if st in (None, "bins"):
        results += stream_bins(run, only)
        run.log("bins done")
    if st in (None, "how"):
        results.append(stream_how(run, zones, only))
        run.log("how done")
    if st in (None, "occupancy"):
        results.append(stream_occupancy(run, run.n(24, 600), only))
        run.log("occupancy done")
    if st in (None, "routing"):
        results.append(stream_routing(run, zones, only))
        run.log("routing done")
    if st in (None, "routing_partial"):
        results.append(stream_routing_partial(run, zones, run.n(40, 1500), only))
        run.log("routing_partial done")
    if st in (None, "predict_value"):
        results.append(stream_predict_value(run, zones, run.n(10, 300), only))
        run.log("predict_value done")
    if st in (None, "fit_bins"):
        results.append(stream_fit_bins(run, run.n(60, 1500), only))
        run.log("fit_bins done")
    if st in (None, "fit_api"):
        results.append(stream_fit_api(run, run.n(5, 60), only))
        run.log("fit_api done")
    if st in (None, "occupancy_rule"):
        results.append(stream_occupancy_rule(run, run.n(16, 300), only))
        run.log("occupancy_rule done")
    if st in (None, "fit"):
        for k in range(1 if only or run.quick() else 10):
            results += stream_fit(run, (only or {}).get("seed", run.seed + k))
        run.log("fit done")
    if not run.proof_ok:
        table_free_theorems(run)
    if ex is not None:
        compare_all(run, results)
    run.finish()


if __name__ == "__main__":
    vlib.run_main(main, "C18")
