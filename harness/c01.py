"""C01 — a stored model reproduces its counterfactual exactly.
Models: coq/Model/Json.v, DocSchema.v, DailyDoc.v, HourlyDoc.v, CalTrackDoc.v (+ *Run.v); theorems: coq/Properties/C01.v;
generated: coq/Generated/C01Gen.v (harness/translate_c01.py); tie: translator + correspondence (this file).

Streams
  docs      synthetic daily / billing documents (7 shapes x every split layout of the package x constructor profiles,
            edge coefficients; tampered settings trees): from_dict -> to_dict, _predict_submodel, effective season /
            weekday maps  vs  from_doc / to_doc / predict_submodel of the model (documents structurally, predictions
            bit-exact where no exp is evaluated, 1e-9 otherwise)
  state     real fitted models of the four families: object attributes -> state literal -> Coq computes to_doc ->
            compared with the implementation's to_json(); reloaded attributes vs from_doc
  itself    implementation against itself (the statement's observe_at): predict before / after from_json(to_json())
            bit-identical on reporting sets incl. a whole year of days (every month x weekday cell) and temperatures outside
            the fitted range, from_json(js).to_json() == js, timezone / warnings / disqualification lists equal — on every
            real fit and on every synthetic document, where the original is a model made by the profile's real constructor
            plus the stored parameters (it never went through from_dict); plus a routing oracle: every day of the year is
            predicted by the sub-model the STORED season / weekday maps assign
The oracle is the statement, literally (c01lib.oracle_roundtrip + the documented formula evaluated from the JSON
parameters alone)."""
import json
import os
import sys
import time
import warnings
from concurrent.futures import ProcessPoolExecutor

import vlib
from vlib import Run, fhex, zlit, coq_list, coq_string, coq_bool

import c01lib
import c01fits
import translate_c01
from translate_c01 import cjson

warnings.simplefilter("ignore")

IMPORTS_D = ("From Coq Require Import PrimFloat.\nFrom V Require Import Model.Num Model.NumF Model.DailyCurve Model.Json "
             "Model.DocSchema Model.DailyDoc Model.DailyDocRun Generated.C01Gen.\nOpen Scope string_scope.")


def known_corner_sig(f):
    return {"family": "daily/billing", "broken": "closed form", "shape": f["shape"],
            "corner": c01lib.CORNER if f["corner"] else "no", "crossed": c01lib.CROSSED if f.get("crossed") else "no",
            "T": "> T_max" if f["above_T_max"] else "<= T_max"}


# ----------------------------------------------------------------------------------------------------- stream docs

def coq_outcome(o, shared, doc=None):
    if "rejected" in o:
        return "Rejected"
    preds = coq_list(["(%s, %s)" % (shared.s(k), coq_list([c01lib.coq_prow(r) for r in rows])) for k, rows in o["preds"].items()])
    same = doc is not None and c01lib.first_diff(doc, o["redump"]) is None
    days = coq_list(["(%d, %d, %s, %s)" % (r[0], r[1], shared.s(r[2]), c01lib.coq_prow(r[3:])) for r in o.get("days", [])])
    return "(Accepted %s %s %s %s %s)" % ("None" if same else "(Some %s)" % c01lib.coq_doc_with_shared(o["redump"], shared), preds,
                                          coq_list([shared.json(x) for x in o["season"]]), coq_list([shared.json(x) for x in o["weekday"]]), days)


def doc_sig0(case):
    st = case["doc"]["settings"]
    return {"family": case["cls"], "base": case["profile"].split("-")[0], "developer_mode": bool(st.get("developer_mode", False))}


def process_docs(run, cases, observations, stream="docs"):
    shared = c01lib.Shared("st")
    terms, kept = [], []
    for case, o in zip(cases, observations):
        doc = case["doc"]
        shapes = [s["coefficients"]["model_type"] for s in doc["submodels"].values()]
        key = vlib.sha([doc, case["cls"]])
        run.count(key, nontrivial="rejected" not in o and "crash" not in o)
        run.dist("docs: profile", case["profile"] + ("" if not case["tamper"] else " tampered:" + case["tamper"]))
        run.dist("docs: outcome", "rejected:" + o["rejected"] if "rejected" in o else "accepted")
        run.dist("docs: submodels", len(shapes))
        for s in shapes:
            run.dist("docs: shape", s)
        if "crash" in o:
            run.corr_failures.append({"stream": stream, "case": case, "impl": o["crash"], "model": "adapter crashed"})
            continue
        sig0 = doc_sig0(case)
        if "rejected" in o:
            if case["tamper"] is None:
                # what a constructor-made model stores must reload
                run.violation(dict(sig0, call="from_json", broken="rejected", raised=o["rejected"]),
                              "C01 %s document of profile %s is rejected by from_dict: %s" % (case["cls"], case["profile"], o["rejected_msg"]),
                              case=case, observation=o, generator="c01lib.gen_doc")
        else:
            if case["tamper"] is None or case["tamper"].startswith("key-order") or case["tamper"] in ("drop-keys", "int-for-float", "unknown-key", "drop-nested", "no-force"):
                for sig, msg in c01lib.oracle_roundtrip(o["rt"], sig0):
                    run.violation(sig, "C01 %s (%s): %s" % (case["cls"], case["profile"], msg), case=case, observation=o["rt"],
                                  generator="c01lib.gen_doc")
            if o.get("order_fail"):
                f = o["order_fail"]
                run.violation(dict(sig0, broken="prediction depends on the key order of the document", order=case["tamper"].split(":")[1]),
                              "C01 %s (%s): the same document with its keys %s predicts differently: %s: %s vs %s (sub-models %s)" % (
                                  case["cls"], case["profile"], case["tamper"].split(":")[1], f["date"], f["canonical_order"], f["this_order"], f["model_split"]),
                              case={k: v for k, v in case.items() if k != "canon"}, observation=f, generator="c01lib.key_order_case")
            for f in o.get("routing_fail", [])[:1]:
                run.violation(dict(sig0, broken="day routed against the stored maps", split="/".join(sorted({k[:2] for k in doc["submodels"]}))),
                              "C01 %s (%s): %s (month %d, weekday %d) is predicted by sub-model %s, the stored season / weekday maps "
                              "assign %s" % (case["cls"], case["profile"], f["date"], f["month"], f["dow"], f["model_split"], f["expected"]),
                              case=case, observation=o["routing_fail"], generator="c01lib.gen_doc")
            for f in o["closed_form_fail"]:
                run.violation(known_corner_sig(f), "C01 %s: prediction differs from the documented formula evaluated from the stored "
                              "parameters (%s, T=%r): predicted %r, formula %r" % (case["cls"], f["shape"], f["T"], f["predicted"], f["formula"]),
                              case=case, observation=f, generator="c01lib.gen_doc")
            n_rows = sum(len(r) for r in o["preds"].values())
            run.dist("docs: prediction rows compared", n_rows // 20 * 20)
            run.sample({"stream": stream, "class": case["cls"], "profile": case["profile"], "split": "__".join(doc["submodels"]),
                        "shapes": shapes, "tz": doc["info"]["baseline_timezone"], "prediction_rows": n_rows,
                        "original": o.get("original"), "days_routed": len(o.get("days", [])),
                        "text_equal": o["rt"].get("text_equal"), "predict_sets": [(p["set"], p.get("identical")) for p in o["rt"].get("predict", [])]})
        cls = "Billing" if case["cls"] == "billing" else "Daily"
        terms.append("(%s, %s, %s)" % (cls, c01lib.coq_doc_with_shared(doc, shared), coq_outcome(o, shared, doc)))
        kept.append((case, o))
    if not terms:
        return
    bad = run.coq_cases(stream, IMPORTS_D, shared.prelude(), terms, "check_doc", shard=run.n(60, 150))
    if bad is None:
        run.proof_ok = False
        return
    for i in bad[:8]:
        case, o = kept[i]
        cls = "Billing" if case["cls"] == "billing" else "Daily"
        sh2 = c01lib.Shared("st")
        d = c01lib.coq_doc_with_shared(case["doc"], sh2)
        diag = run.coq_eval(IMPORTS_D, sh2.prelude(),
                            "match from_doc' %s %s with Some s => Some (to_doc %s s) | None => None end" % (cls, d, cls))
        run.corr_failures.append({"stream": stream, "case": case, "impl": {k: v for k, v in o.items() if k != "rt"},
                                  "model": diag[-1500:]})
    for i in bad[8:]:
        run.corr_failures.append({"stream": stream, "case": kept[i][0]})


# ----------------------------------------------------------------------------------------------------- real fits

def fit_sig0(res):
    job = res["job"]
    fam = job["family"]
    if fam in ("daily", "billing"):
        return {"family": fam, "base": res.get("base"), "developer_mode": res.get("developer_mode")}
    if fam == "hourly":
        st = (res.get("state") or {}).get("settings") or {}
        tb = st.get("temperature_bin") or {}
        return {"family": fam, "include_edge_bins": tb.get("include_edge_bins"), "scaling": st.get("scaling_method")}
    return {"family": fam}


def process_fits(run, results):
    """oracle on the implementation-against-itself observations of the real fits; returns the usable results"""
    ok = []
    for res in results:
        job = res["job"]
        run.count(("fit", job["family"], job["profile"], job["seed"]), nontrivial="crash" not in res)
        run.dist("fits: family/profile", "%s/%s" % (job["family"], job["profile"]))
        if res.get("zone"):
            run.dist("fits: baseline tzinfo", "fixed offset" if res["zone"].startswith("fixed:") else
                     "dateutil tzfile" if res["zone"].startswith("dateutil:") else "IANA name (zoneinfo)")
        if "crash" in res:
            run.dist("fits: outcome", "fit failed: " + res["crash"].split(":")[0])
            run.log("fit job failed (not a C01 observation): %s %s" % (job, res["crash"]))
            continue
        obs = res["obs"]
        run.dist("fits: seconds", int(res["seconds"]) // 5 * 5)
        for p in obs.get("predict", []):
            run.count(("predict", job["family"], job["profile"], job["seed"], p["set"]), nontrivial=p.get("n_pred", 0) > 0)
            run.dist("fits: predict set", "%s %s" % (p["set"], "/".join(p["kinds"])))
        for s in res.get("shapes", []):
            run.dist("fits: daily shape", s)
        for sig, msg in c01lib.oracle_roundtrip(obs, fit_sig0(res)):
            run.violation(sig, "C01 %s model (%s): %s" % (job["family"], job["profile"], msg), case={"job": job},
                          observation=obs, generator="c01fits.run_job")
        run.sample({"stream": "itself", "job": job, "seconds": res["seconds"], "text_equal": obs.get("text_equal"),
                    "load_error": obs.get("load_error"), "redump_error": obs.get("redump_error"),
                    "predict": [(p["set"], p["kinds"], p.get("identical"), p.get("n_pred")) for p in obs.get("predict", [])],
                    "n_warnings": len(obs.get("warnings", [[]])[0]), "n_dq": len(obs.get("dq", [[]])[0])}, limit=14)
        ok.append(res)
    # a family none of whose fits succeeded would silently drop out of the check
    for fam in sorted({r["job"]["family"] for r in results}):
        if not any(r["job"]["family"] == fam for r in ok):
            run.corr_failures.append({"stream": "itself", "case": {"family": fam},
                                      "impl": [r.get("crash") for r in results if r["job"]["family"] == fam][:3],
                                      "model": "no %s model could be fitted, so nothing was observed for this family" % fam})
    return ok


def process_daily_states(run, results):
    """stream state (daily / billing): attributes of the fitted object -> state literal -> Coq to_doc vs to_json();
    and the real document through the docs stream (reloaded attributes vs from_doc)"""
    shared = c01lib.Shared("st")
    terms, kept, doc_cases = [], [], []
    for res in results:
        job = res["job"]
        if job["family"] not in ("daily", "billing") or res.get("js") is None:
            continue
        st = dict(res["state"])
        st["subs"] = [tuple(x) for x in st["subs"]]
        st["settings"] = shared.name(st["settings"])
        doc = json.loads(res["js"])
        cls = "Billing" if job["family"] == "billing" else "Daily"
        terms.append("(%s, %s, %s)" % (cls, c01lib.coq_daily_state(st, shared), c01lib.coq_doc_with_shared(doc, shared)))
        kept.append(res)
        doc_cases.append({"k": 10**6 + len(doc_cases), "profile": job["profile"], "cls": job["family"], "doc": doc,
                          "tamper": "real-fit", "corner": False, "zone": res.get("zone")})
    if not terms:
        return []
    bad = run.coq_cases("state_daily", IMPORTS_D, shared.prelude(), terms, "check_state", shard=20)
    if bad is None:
        run.proof_ok = False
    else:
        for i in bad:
            run.corr_failures.append({"stream": "state_daily", "case": {"job": kept[i]["job"], "state": kept[i]["state"]},
                                      "impl": json.loads(kept[i]["js"]), "model": "to_doc(state) differs from to_json()"})
    return doc_cases


# ----------------------------------------------------------------------------------------------------- main

def scale():
    """VERIF_C01_SCALE < 1 shrinks the thorough tier (smoke tests of the thorough code path only)"""
    return float(os.environ.get("VERIF_C01_SCALE", "1"))


def fit_jobs(run):
    r = run.rng
    if run.quick():
        plan = [("daily", "current-weekday"), ("daily", "legacy"), ("daily", "current-dev"), ("daily", "legacy-dev"), ("daily", "legacy-heating"),
                ("billing", "billing"), ("billing", "billing-season"),
                ("hourly", "default"), ("hourly", "reversed-solar"), ("hourly", "supplemental-names"), ("hourly", "no-edge-bins"),
                ("caltrack", "caltrack"), ("caltrack", "caltrack-4weeks")]
    else:
        plan = []
        for i in range(max(3, int(32 * scale()))):
            plan.append(("daily", list(c01fits.DAILY_PROFILES)[i % len(c01fits.DAILY_PROFILES)]))
            plan.append(("billing", list(c01fits.BILLING_PROFILES)[i % len(c01fits.BILLING_PROFILES)]))
            plan.append(("hourly", list(c01fits.HOURLY_PROFILES)[i % len(c01fits.HOURLY_PROFILES)]))
        ct = ["caltrack", "caltrack-4weeks", "caltrack-11months", "caltrack-gap"]
        plan += [("caltrack", ct[i % 4]) for i in range(max(4, int(10 * scale())))]
    # longest first
    order = {"caltrack": 0, "daily": 1, "hourly": 2, "billing": 3}
    jobs = [{"family": f, "profile": p, "seed": r.randrange(2**31)} for f, p in plan]
    if run.quick():
        # baselines whose tzinfo is a fixed offset / a dateutil tzfile: equal tzinfo objects with different str() exist
        special = {("daily", "legacy"): "fixed:-360", ("daily", "legacy-dev"): "dateutil:US/Central",
                   ("billing", "billing"): "fixed:-360", ("hourly", "default"): "dateutil:US/Central",
                   ("hourly", "no-edge-bins"): "fixed:-360"}
        for j in jobs:
            if (j["family"], j["profile"]) in special:
                j["tz"] = special[(j["family"], j["profile"])]
    jobs.sort(key=lambda j: (order[j["family"]], not j["profile"].startswith("current")))
    return jobs


def main():
    run = Run("C01")
    run.cov["rule"] = (
        "docs: synthetic daily/billing documents — sub-model shapes cycle through all 7, split layouts cycle through every "
        "combination the package's own generator yields, coefficients from the optimiser box incl. its faces, equal balance "
        "points, zero / sub-minimum / >1-sum smoothing, +-inf f_unc, NaN error metrics; settings trees are what the real "
        "constructors of 13 profile kinds dump (current/legacy/billing x default, custom season, custom weekday, developer "
        "overrides, uncertainty), 22% tampered (correspondence only); temperatures -60..140 F incl. exactly on / one ulp "
        "around every balance point and range end. fits: real fits of the four families on synthetic meters (profile list "
        "in c01fits.py), three reporting sets each incl. temperatures swept -45..135 F. distinct = hash of (document, class) "
        "/ (family, profile, seed, reporting set); non-trivial = the document was processed / the fit produced predictions")
    run.assumptions += [
        "json.dumps / json.loads round-trip finite doubles, NaN / Infinity tokens, strings and nesting exactly (CPython contract)",
        "pydantic model_dump field order / enum -> value / None-valued optional fields as re-specified in Model/DailyDoc.v, "
        "HourlyDoc.v, CalTrackDoc.v; validated only by the correspondences that go through them",
        "daily settings: the four cross-field validators are modelled (DocSchema.cross_ok) and enumerated on the real classes every "
        "run (20 documents); key / value lower-casing of the settings classes is not modelled",
        "hourly / CalTRACK numerical predict is an uninterpreted function of the fields it reads; the theorems prove those "
        "inputs restored, the bit-identity of the numbers is established by the itself stream on the sampled fits only",
        "closed form: proved over the reals (C01_daily_closed_form); binary64 evaluation compared within 1e-9 x scale",
        "correspondence is sampled: agreement is established on the cases run",
    ]
    run.cov["trusted_base"] += ["harness/c01.py, c01lib.py, c01fits.py (generators, adapters, canonicalisation, oracle)",
                                "harness/translate_c01.py (pydantic introspection of the settings classes; output in Generated/C01Gen.v)",
                                "json / pydantic / pandas.to_json re-specified at the JSON-tree level"]
    t0 = time.time()
    # package constants the numeric model assumes
    from opendsm.common.utils import LN_MIN_POS_SYSTEM_VALUE, LN_MAX_POS_SYSTEM_VALUE
    if float(LN_MIN_POS_SYSTEM_VALUE).hex() != "-0x1.4b2c1fad0922dp+8" or float(LN_MAX_POS_SYSTEM_VALUE).hex() != "0x1.4bdd91c500f4ap+8":
        run.corr_failures.append({"stream": "constants", "case": "LN_MIN/LN_MAX_POS_SYSTEM_VALUE",
                                  "impl": [float(LN_MIN_POS_SYSTEM_VALUE).hex(), float(LN_MAX_POS_SYSTEM_VALUE).hex()],
                                  "model": "NumF.f_ln_min / f_ln_max"})

    workers = int(os.environ.get("VERIF_WORKERS", "8"))
    pool = ProcessPoolExecutor(max_workers=workers)
    cases, replay_case = [], None
    if run.replay:
        rep = json.load(open(run.replay))
        replay_case = rep["case"]
    fit_futs = []
    if replay_case is None or "job" in replay_case:
        jobs = [replay_case["job"]] if replay_case else fit_jobs(run)
        fit_futs = [pool.submit(c01fits.run_job, j) for j in jobs]
    # synthetic documents
    if replay_case is None or "doc" in replay_case:
        if replay_case:
            cases = [replay_case]
        else:
            try:
                import translate_splits
                splits = translate_splits.extract()["all_splits"]
            except Exception as e:  # noqa
                run.log("split list unavailable (%s); using the unsplit layout only" % e)
                splits = ["fw-su_sh_wi", "wd-su_sh_wi__we-su_sh_wi", "fw-su__fw-sh__fw-wi"]
            corpus = os.path.join(vlib.VERIF, "corpus", "C01.json")
            if os.path.exists(corpus):
                cases += json.load(open(corpus))
            n = run.n(200, max(300, int(9000 * scale())))
            for k in range(n):
                cases.append(c01lib.gen_doc(run.rng, k, splits, corner=(k % 97 == 13)))
            # key order: every 5th constructor-made document again with all its mappings sorted / reversed / shuffled
            modes = ["sorted", "reversed", "shuffled"]
            extra = [c01lib.key_order_case(c, modes[(j // 5) % 3], run.rng) for j, c in enumerate(cases)
                     if j % 5 == 1 and c.get("tamper") is None and not c.get("corner")]
            cases += extra
            cases += c01lib.cross_cases(run.rng, splits)
            for i, c in enumerate(cases):
                c["k"] = i
    chunk = 30
    doc_futs = [pool.submit(c01lib.run_docs, cases[i:i + chunk], run.seed) for i in range(0, len(cases), chunk)]
    run.log("submitted %d fit jobs, %d synthetic documents (%.1fs)" % (len(fit_futs), len(cases), time.time() - t0))

    # step 0: translator (fail-closed)
    try:
        info = translate_c01.generate(run)
        run.cov["translator"] = info
    except Exception as e:  # noqa
        run.proof_ok = False
        run.proof_log += "translate_c01 failed: %s: %s" % (type(e).__name__, e)
        run.log("TRANSLATOR FAILED: %s: %s" % (type(e).__name__, e))
    # step 1: theorems
    run.check_proofs("Properties/C01.v",
                     ["Proofs/DailyDocProofs.v", "Proofs/DailyKeyOrderProofs.v", "Proofs/DailyClosedFormProofs.v", "Proofs/HourlyDocProofs.v", "Proofs/CalTrackDocProofs.v"],
                     generated=["Generated/C01Gen.v"])
    run.ensure_models(["Model/DailyDocRun.v", "Model/HourlyDocRun.v", "Model/CalTrackDocRun.v", "Model/CasesLib.v"])
    run.log("proofs checked (%.1fs)" % (time.time() - t0))

    # step 2/3: synthetic documents
    observations = []
    for f in doc_futs:
        observations += f.result()
    observations.sort(key=lambda o: o["k"])
    run.log("synthetic documents processed by the implementation (%.1fs)" % (time.time() - t0))
    process_docs(run, cases, observations)
    run.log("docs stream compared (%.1fs)" % (time.time() - t0))

    # real fits
    results = [f.result() for f in fit_futs]
    pool.shutdown()
    run.log("fits done (%.1fs): %s" % (time.time() - t0, [(r["job"]["family"], r["job"]["profile"], r["seconds"]) for r in results]))
    usable = process_fits(run, results)
    real_docs = process_daily_states(run, usable)
    if real_docs:
        process_docs(run, real_docs, c01lib.run_docs(real_docs, run.seed), stream="docs_real")
    import c01hc
    c01hc.process_hourly(run, usable)
    c01hc.process_caltrack(run, usable)
    run.finish()


if __name__ == "__main__":
    vlib.run_main(main, "C01")
