"""Time-zone data for C06 (DESIGN 3.3): UTC offsets are *data*, read from the system tz database through
`zoneinfo` — independently of pandas — and handed to the Gallina model as local clock fields of every row.

Everything is in whole minutes since the Unix epoch (UTC) unless a name says otherwise."""
import datetime as dt
import zoneinfo
from functools import lru_cache
from zoneinfo import ZoneInfo

UTC = dt.timezone.utc
EPOCH = dt.datetime(1970, 1, 1, tzinfo=UTC)
HOUR = dt.timedelta(hours=1)

# fixed cover of the quick tier: northern / southern DST, transitions at local midnight, 30-minute shift,
# half-hour and 45-minute fixed offsets, no DST, transitions at 01:00 UTC (Europe), at 03:00 / 04:00 local,
# zones that changed their base offset, a 2-hour shift
QUICK_ZONES = [
    "US/Pacific", "America/New_York", "America/Chicago", "America/Denver", "America/Anchorage", "America/Halifax",
    "America/St_Johns", "America/Mexico_City", "America/Havana", "America/Santiago", "America/Sao_Paulo",
    "America/Asuncion", "America/Nuuk", "America/Scoresbysund", "America/Caracas", "Atlantic/Azores",
    "Europe/London", "Europe/Berlin", "Europe/Lisbon", "Europe/Chisinau", "Europe/Moscow", "Europe/Istanbul",
    "Africa/Cairo", "Africa/Casablanca", "Asia/Beirut", "Asia/Tehran", "Asia/Jerusalem", "Asia/Amman",
    "Asia/Gaza", "Asia/Kolkata", "Asia/Kathmandu", "Asia/Tokyo", "Asia/Pyongyang", "Australia/Sydney",
    "Australia/Adelaide", "Australia/Lord_Howe", "Pacific/Auckland", "Pacific/Chatham", "Pacific/Apia",
    "Antarctica/Troll", "UTC",
]


def all_zones():
    return sorted(zoneinfo.available_timezones())


@lru_cache(maxsize=None)
def zone(name):
    return ZoneInfo(name)


def to_dt(m):
    return EPOCH + dt.timedelta(minutes=int(m))


def to_minutes(t):
    """aware datetime on a whole UTC minute -> minutes since the epoch"""
    s = (t - EPOCH).total_seconds()
    assert s % 60 == 0, t
    return int(s // 60)


def local_fields(m, z):
    """(ordinal local date, hour, minute, utc offset in minutes) of UTC minute m in zone z"""
    d = to_dt(m).astimezone(zone(z))
    return d.date().toordinal(), d.hour, d.minute, int(d.utcoffset().total_seconds() // 60)


def transitions(z, y0=2000, y1=2038):
    """[(utc minute-resolution datetime of the first instant with the new offset, old offset min, new offset min)]"""
    tz = zone(z)
    t = dt.datetime(y0, 1, 1, tzinfo=UTC)
    end = dt.datetime(y1, 1, 1, tzinfo=UTC)
    out = []
    prev = t.astimezone(tz).utcoffset()
    step = dt.timedelta(hours=12)
    minute = dt.timedelta(minutes=1)
    while t < end:
        t2 = t + step
        o = t2.astimezone(tz).utcoffset()
        if o != prev:
            lo, hi = t, t2
            while hi - lo > minute:
                mid = lo + dt.timedelta(minutes=((hi - lo) // minute) // 2)
                if mid.astimezone(tz).utcoffset() == prev:
                    lo = mid
                else:
                    hi = mid
            out.append((hi, int(prev.total_seconds() // 60), int(o.total_seconds() // 60)))
            prev = o
        t = t2
    return out


def wall_status(y, m, d, hh, mm, ss, us, z):
    """is the local wall-clock reading nonexistent ('gap'), ambiguous ('fold') or plain ('ok') in zone z"""
    tz = zone(z)
    w0 = dt.datetime(y, m, d, hh, mm, ss, us, tzinfo=tz, fold=0)
    w1 = dt.datetime(y, m, d, hh, mm, ss, us, tzinfo=tz, fold=1)
    u0 = w0.astimezone(UTC)
    u1 = w1.astimezone(UTC)
    if u0 != u1:
        # zoneinfo: in a gap fold=0 uses the offset before the transition, fold=1 the one after; both differ
        back = u0.astimezone(tz)
        if (back.hour, back.minute, back.day) != (hh, mm, d):
            return "gap"
        return "fold"
    return "ok"


def local_midnight_utc(ordinal, z, hour=0):
    """UTC instant (aware datetime) of the wall-clock reading `hour`:00 on the local date; None when that reading
    does not exist; the first occurrence when it is ambiguous (pandas' Timestamp.replace keeps fold=0)"""
    d = dt.date.fromordinal(ordinal)
    st = wall_status(d.year, d.month, d.day, hour, 0, 0, 0, z)
    if st == "gap":
        return None
    w = dt.datetime(d.year, d.month, d.day, hour, 0, tzinfo=zone(z), fold=0)
    return w.astimezone(UTC)


def day_label_status(ordinal, z):
    """what `df.loc["YYYY-MM-DD"]` has to resolve on a tz-aware index: the wall-clock readings 00:00:00 and
    23:59:59.999999(999) of the date.  -> (status of the start, status of the end)"""
    d = dt.date.fromordinal(ordinal)
    return (wall_status(d.year, d.month, d.day, 0, 0, 0, 0, z),
            wall_status(d.year, d.month, d.day, 23, 59, 59, 999999, z))


def rule_signature(z, y0=2000, y1=2038):
    return tuple((a.isoformat(), p, o) for a, p, o in transitions(z, y0, y1))


def replace_hour(m, z, hour):
    """UTC minute of `Timestamp.replace(hour=hour, minute=0, second=0, microsecond=0)` applied to the instant m in
    zone z: the wall-clock reading of the same local date, resolved with the `fold` of the original instant (an
    ambiguous reading keeps the side of the repeated hour the instant was on; a nonexistent reading is taken with
    the offset before the gap for fold=0)"""
    d = to_dt(m).astimezone(zone(z))
    w = dt.datetime(d.year, d.month, d.day, hour, 0, tzinfo=zone(z), fold=d.fold)
    return to_minutes(w.astimezone(UTC))


def day_start(ordinal, z):
    """UTC minute of the first whole wall-clock hour of the local date that exists (None for a skipped calendar day)"""
    for h in range(24):
        t = local_midnight_utc(ordinal, z, h)
        if t is not None:
            m = to_minutes(t)
            if local_fields(m, z)[0] == ordinal:
                return m
    return None
