"""Translator for C08 / C09: regenerates coq/Generated/ResampleGen.v and coq/Generated/TempAggGen.v from the source.

Only *declarative* content is translated (python `ast`, nothing is executed): the comparison operators and constants
the hand-written models assume.
  ResampleGen.v (C08)
    * downsample_and_clean_daily_data: the test on `dataset.coverage` that keeps / scales a day and the one that warns,
      and that the kept value is divided by the coverage;
    * clean_billing_data: the window `(filter_ <= hi) & (filter_ >= lo)` of billing_monthly / billing_bimonthly and the
      off-cycle warning test `(filter_ > hi) | (filter_ < lo)`;
    * compute_minimum_granularity: the median-day-count table (the dict with boolean keys), the fixed-frequency chain
      (`freq_as_timedelta(index.freq) <= pd.Timedelta(...)`), the MonthBegin/MonthEnd rule.
  TempAggGen.v (C09)
    * _DailyData / _BillingData._compute_temperature_features: the tests on `temperature_features.coverage`, whether the
      kept value is divided by the coverage, the `median > 1` test, the `not_null / (not_null + null) <= 0.5` test, the
      billing class' extra `not_null <= median_samples * 0.5`, the buffer day `pd.Timedelta(days=1)`, the frequency
      strings that select the path.
Fail-closed: anything not recognised raises TranslateError (reported by the checks as a broken tie)."""
import ast
import os
from fractions import Fraction as F

import vlib

DPU = "opendsm/eemeter/common/data_processor_utilities.py"
DAILY = "opendsm/eemeter/models/daily/data.py"
BILLING = "opendsm/eemeter/models/billing/data.py"

OPS = {ast.Gt: "CGt", ast.GtE: "CGe", ast.Lt: "CLt", ast.LtE: "CLe", ast.Eq: "CEq"}
GRAN = {"hourly": "Hourly", "daily": "Daily", "billing_monthly": "BillingMonthly", "billing_bimonthly": "BillingBimonthly"}


class TranslateError(Exception):
    pass


def _parse(rel):
    path = os.path.join(vlib.repo_root(), rel)
    return ast.parse(open(path).read(), filename=path)


def _func(tree, name):
    for n in tree.body:
        if isinstance(n, ast.FunctionDef) and n.name == name:
            return n
    raise TranslateError("function %s not found" % name)


def _method(tree, cls, name):
    for n in tree.body:
        if isinstance(n, ast.ClassDef) and n.name == cls:
            for m in n.body:
                if isinstance(m, ast.FunctionDef) and m.name == name:
                    return m
    raise TranslateError("method %s.%s not found" % (cls, name))


def _num(node):
    if isinstance(node, ast.Constant) and isinstance(node.value, (int, float)) and not isinstance(node.value, bool):
        return F(str(node.value))
    raise TranslateError("numeric constant expected, got %s" % ast.dump(node)[:80])


def _op(o):
    if type(o) not in OPS:
        raise TranslateError("comparison operator not recognised: %s" % type(o).__name__)
    return OPS[type(o)]


def _is_attr(node, base, attr):
    return isinstance(node, ast.Attribute) and node.attr == attr and isinstance(node.value, ast.Name) and node.value.id == base


def _same(items, what):
    s = set(items)
    if len(s) != 1:
        raise TranslateError("%s: expected one and the same test everywhere, found %s" % (what, sorted(s)))
    return items[0]


def coverage_tests(fn, base):
    """all comparisons `<base>.coverage <op> <const>` of the function: (keep, warn)"""
    keep, warn = [], []
    for n in ast.walk(fn):
        if isinstance(n, ast.Compare) and _is_attr(n.left, base, "coverage"):
            if len(n.ops) != 1:
                raise TranslateError("chained comparison on %s.coverage" % base)
            t = (_op(n.ops[0]), _num(n.comparators[0]))
            (keep if t[0] in ("CGt", "CGe") else warn).append(t)
    if not keep and warn:
        # the kept rows may be written as the complement of the warning mask:  m = <base>.coverage < c ; ... [~m]
        masks = {n.targets[0].id for n in ast.walk(fn) if isinstance(n, ast.Assign) and isinstance(n.targets[0], ast.Name)
                 and isinstance(n.value, ast.Compare) and _is_attr(n.value.left, base, "coverage")}
        inverted = {n.operand.id for n in ast.walk(fn) if isinstance(n, ast.UnaryOp) and isinstance(n.op, ast.Invert)
                    and isinstance(n.operand, ast.Name)}
        if masks & inverted:
            comp = {"CLt": "CGe", "CLe": "CGt"}
            keep = [(comp[t[0]], t[1]) for t in warn if t[0] in comp]
    if not keep or not warn:
        raise TranslateError("%s.coverage: keep / warn tests not found" % base)
    return _same(keep, base + ".coverage keep test"), _same(warn, base + ".coverage warning test")


def divides_by_coverage(fn, base):
    """is there an assignment whose value is `<...>.value / <...>.coverage` (on <base>)?"""
    for n in ast.walk(fn):
        if isinstance(n, ast.Assign) and isinstance(n.value, ast.BinOp) and isinstance(n.value.op, ast.Div):
            r = ast.dump(n.value.right)
            if "coverage" in r and base in r:          # <base>[...].coverage  or  <base>.loc[..., "coverage"]
                return True
    return False


def extract_downsample(tree):
    fn = _func(tree, "downsample_and_clean_daily_data")
    keep, warn = coverage_tests(fn, "dataset")
    return {"keep": keep, "warn": warn, "scaled": divides_by_coverage(fn, "dataset")}


def extract_billing_window(tree):
    fn = _func(tree, "clean_billing_data")
    out = {}
    for n in ast.walk(fn):
        if isinstance(n, ast.If) and isinstance(n.test, ast.Compare) and isinstance(n.test.left, ast.Name) \
                and n.test.left.id == "source_interval" and isinstance(n.test.comparators[0], ast.Constant) \
                and n.test.comparators[0].value in ("billing_monthly", "billing_bimonthly"):
            kind = n.test.comparators[0].value
            keep, warn = [], []
            for m in ast.walk(n):
                if isinstance(m, ast.Compare) and isinstance(m.left, ast.Name) and m.left.id == "filter_":
                    if len(m.ops) != 1:
                        raise TranslateError("chained comparison on filter_")
                    t = (_op(m.ops[0]), _num(m.comparators[0]))
                    # the window is the `&` of two tests, the warning the `|` of two tests
                    keep.append(t)
            ands = [m for m in ast.walk(n) if isinstance(m, ast.BinOp) and isinstance(m.op, ast.BitAnd)]
            ors = [m for m in ast.walk(n) if isinstance(m, ast.BinOp) and isinstance(m.op, ast.BitOr)]

            def pair(b):
                res = []
                for side in (b.left, b.right):
                    if not (isinstance(side, ast.Compare) and isinstance(side.left, ast.Name) and side.left.id == "filter_"
                            and len(side.ops) == 1):
                        raise TranslateError("window of %s: unexpected operand %s" % (kind, ast.dump(side)[:80]))
                    res.append((_op(side.ops[0]), _num(side.comparators[0])))
                return tuple(res)
            if not ands or not ors:
                raise TranslateError("window / warning of %s not found" % kind)
            win = _same([pair(b) for b in ands], "window of " + kind)
            wrn = _same([pair(b) for b in ors], "off-cycle warning of " + kind)
            if len(keep) != 2 * (len(ands) + len(ors)):
                raise TranslateError("%s: a test on filter_ outside the window / warning expressions" % kind)
            hi = [t for t in win if t[0] in ("CLe", "CLt")]
            lo = [t for t in win if t[0] in ("CGe", "CGt")]
            whi = [t for t in wrn if t[0] in ("CGt", "CGe")]
            wlo = [t for t in wrn if t[0] in ("CLt", "CLe")]
            if not (len(hi) == len(lo) == len(whi) == len(wlo) == 1):
                raise TranslateError("%s: window is not one upper and one lower bound" % kind)
            out[kind] = {"hi": hi[0], "lo": lo[0], "warn_hi": whi[0], "warn_lo": wlo[0]}
    if set(out) != {"billing_monthly", "billing_bimonthly"}:
        raise TranslateError("clean_billing_data: blocks found for %s" % sorted(out))
    # the day count: `.days` of the difference of the (wall-clock) index
    src = ast.get_source_segment(open(os.path.join(vlib.repo_root(), DPU)).read(), fn) or ""
    out["wall_clock"] = "tz_localize(None)" in src
    return out


def _timedelta_minutes(node):
    """pd.Timedelta(hours=1) / pd.Timedelta(days=30) -> minutes"""
    if isinstance(node, ast.Call) and isinstance(node.func, ast.Attribute) and node.func.attr == "Timedelta" \
            and not node.args and len(node.keywords) == 1 and node.keywords[0].arg in ("hours", "days", "minutes"):
        k = node.keywords[0]
        return int(_num(k.value) * {"hours": 60, "days": 1440, "minutes": 1}[k.arg])
    raise TranslateError("pd.Timedelta(<unit>=<n>) expected, got %s" % ast.dump(node)[:100])


def extract_granularity(tree):
    fn = _func(tree, "compute_minimum_granularity")
    # ---- the median table: a dict literal whose keys are comparisons on median_difference
    dicts = [n for n in ast.walk(fn) if isinstance(n, ast.Dict) and n.keys and all(isinstance(k, ast.Compare) for k in n.keys)]
    if len(dicts) != 1:
        raise TranslateError("granularity: the median table (dict of comparisons) was not found exactly once")
    rules = []
    for k, v in zip(dicts[0].keys, dicts[0].values):
        if not (isinstance(v, ast.Constant) and v.value in GRAN):
            raise TranslateError("granularity: unexpected value in the median table")
        if len(k.ops) == 1 and isinstance(k.left, ast.Name) and k.left.id == "median_difference":
            lo, hi = None, (_op(k.ops[0]), _num(k.comparators[0]))          # m <op> c
            if hi[0] in ("CGt", "CGe"):
                raise TranslateError("granularity: open upper range in the median table")
        elif len(k.ops) == 2 and isinstance(k.comparators[0], ast.Name) and k.comparators[0].id == "median_difference":
            lo = (_op(k.ops[0]), _num(k.left))                              # c <op> m
            hi = (_op(k.ops[1]), _num(k.comparators[1]))                    # m <op> c'
            if lo[0] not in ("CLt", "CLe") or hi[0] not in ("CLt", "CLe"):
                raise TranslateError("granularity: chained comparison is not a range")
        else:
            raise TranslateError("granularity: unexpected key in the median table: %s" % ast.dump(k)[:100])
        rules.append((lo, hi, GRAN[v.value]))
    # lookup must be .get(True, default_granularity)
    gets = [n for n in ast.walk(fn) if isinstance(n, ast.Call) and isinstance(n.func, ast.Attribute) and n.func.attr == "get"
            and len(n.args) == 2 and isinstance(n.args[0], ast.Constant) and n.args[0].value is True
            and isinstance(n.args[1], ast.Name) and n.args[1].id == "default_granularity"]
    if len(gets) != 1:
        raise TranslateError("granularity: granularity_dict.get(True, default_granularity) not found")
    # ---- the fixed-frequency chain: if isinstance(Month...) ... elif f(index.freq) <= Timedelta ... else ...
    chain = None
    for n in fn.body:
        if isinstance(n, ast.If) and isinstance(n.test, ast.BoolOp) and "MonthEnd" in ast.dump(n.test) and "MonthBegin" in ast.dump(n.test):
            chain = n
    if chain is None:
        raise TranslateError("granularity: the MonthBegin/MonthEnd branch was not found")
    inner = chain.body[0]
    if not (isinstance(inner, ast.If) and isinstance(inner.test, ast.Compare) and isinstance(inner.test.ops[0], ast.Eq)
            and "n" in ast.dump(inner.test.left) and _num(inner.test.comparators[0]) == 1):
        raise TranslateError("granularity: `index.freq.n == 1` expected inside the Month branch")

    def assigned(body):
        if len(body) == 1 and isinstance(body[0], ast.Assign) and isinstance(body[0].value, ast.Constant) \
                and body[0].value.value in GRAN and body[0].targets[0].id == "min_granularity":
            return GRAN[body[0].value.value]
        raise TranslateError("granularity: `min_granularity = <name>` expected")
    months = (assigned(inner.body), assigned(inner.orelse))
    fixed = []
    node = chain
    while len(node.orelse) == 1 and isinstance(node.orelse[0], ast.If):
        node = node.orelse[0]
        t = node.test
        if not (isinstance(t, ast.Compare) and len(t.ops) == 1 and isinstance(t.ops[0], ast.LtE)
                and isinstance(t.left, ast.Call) and getattr(t.left.func, "id", "") == "freq_as_timedelta"):
            raise TranslateError("granularity: `freq_as_timedelta(index.freq) <= pd.Timedelta(...)` expected")
        fixed.append((_timedelta_minutes(t.comparators[0]), assigned(node.body)))
    default = assigned(node.orelse)
    # len(index) <= 1 -> default
    first = fn.body[0]
    if not (isinstance(first, ast.If) and isinstance(first.test, ast.Compare) and isinstance(first.test.ops[0], ast.LtE)
            and _num(first.test.comparators[0]) == 1 and "len" in ast.dump(first.test.left)):
        raise TranslateError("granularity: `if len(index) <= 1: return default_granularity` expected first")
    return {"median_rules": rules, "fixed": fixed, "fixed_default": default, "months": months}


def extract_temperature(tree, cls):
    fn = _method(tree, cls, "_compute_temperature_features")
    keep, warn = coverage_tests(fn, "temperature_features")
    out = {"keep": keep, "warn": warn, "scaled": divides_by_coverage(fn, "temperature_features")}
    med, ratio, extra = [], [], []
    for n in ast.walk(fn):
        if not (isinstance(n, ast.Compare) and len(n.ops) == 1):
            continue
        left, right = n.left, n.comparators[0]
        if (isinstance(left, ast.Call) and isinstance(left.func, ast.Attribute) and left.func.attr == "median") or \
                (isinstance(left, ast.Name) and left.id == "median_samples"):
            med.append((_op(n.ops[0]), _num(right)))
        elif isinstance(left, ast.BinOp) and isinstance(left.op, ast.Div) and "temperature_not_null" in ast.dump(left.left) \
                and isinstance(left.right, ast.BinOp) and isinstance(left.right.op, ast.Add):
            ratio.append((_op(n.ops[0]), _num(right)))
        elif isinstance(left, ast.Attribute) and left.attr == "temperature_not_null" and isinstance(right, ast.BinOp) \
                and isinstance(right.op, ast.Mult) and "median_samples" in ast.dump(right):
            c = right.right if isinstance(right.left, ast.Name) else right.left
            extra.append((_op(n.ops[0]), _num(c)))
    out["median"] = _same(med, cls + " median test") if med else None
    out["ratio"] = _same(ratio, cls + " ratio test") if ratio else None
    out["extra"] = _same(extra, cls + " median-share test") if extra else None
    if out["median"] is None or out["ratio"] is None:
        raise TranslateError("%s: median / ratio test of the hourly branch not found" % cls)
    # buffer day
    buf = [n for n in ast.walk(fn) if isinstance(n, ast.Assign) and getattr(n.targets[0], "id", "") == "buffer_idx"]
    if len(buf) != 1 or not (isinstance(buf[0].value, ast.BinOp) and isinstance(buf[0].value.op, ast.Add)):
        raise TranslateError("%s: buffer_idx = meter_index.max() + pd.Timedelta(...) expected" % cls)
    out["buffer"] = _timedelta_minutes(buf[0].value.right)
    # path selection strings: temp_series.index.freq != "h" ... != "D"
    strs = [n.comparators[0].value for n in ast.walk(fn) if isinstance(n, ast.Compare) and isinstance(n.ops[0], ast.NotEq)
            and isinstance(n.comparators[0], ast.Constant) and isinstance(n.comparators[0].value, str) and "freq" in ast.dump(n.left)]
    if strs[:1] != ["h"] or "D" not in strs:
        raise TranslateError("%s: path tests `freq != \"h\"` / `freq != \"D\"` not found (%s)" % (cls, strs))
    return out


def extract():
    dpu = _parse(DPU)
    return {"downsample": extract_downsample(dpu), "window": extract_billing_window(dpu), "granularity": extract_granularity(dpu),
            "temp_daily": extract_temperature(_parse(DAILY), "_DailyData"),
            "temp_billing": extract_temperature(_parse(BILLING), "_BillingData")}


# ------------------------------------------------------------------ rendering

def q(x):
    x = F(x)
    return "(%d # %d)%%Q" % (x.numerator, x.denominator) if x >= 0 else "((-%d) # %d)%%Q" % (-x.numerator, x.denominator)


def test(t):
    return "(%s, %s)" % (t[0], q(t[1]))


def ztest(t):
    if F(t[1]).denominator != 1:
        raise TranslateError("whole number of days expected, got %s" % t[1])
    return "(%s, %d%%Z)" % (t[0], int(t[1]))


def opt(t, f):
    return "None" if t is None else "(Some %s)" % f(t)


HEADER = "(* GENERATED by harness/translate_resample.py from %s - do not edit. *)\nFrom Coq Require Import ZArith QArith List Bool.\nFrom V Require Import Model.Resample Model.Cmp.\nImport ListNotations.\n\n"


def render_resample(x):
    d, w, g = x["downsample"], x["window"], x["granularity"]
    s = HEADER % DPU
    s += "(* downsample_and_clean_daily_data: dataset.coverage <op> <c> *)\n"
    s += "Definition gen_ds_keep : cop * Q := %s.\nDefinition gen_ds_warn : cop * Q := %s.\nDefinition gen_ds_scaled : bool := %s.\n\n" % (
        test(d["keep"]), test(d["warn"]), "true" if d["scaled"] else "false")
    s += "(* clean_billing_data: the window on the whole days of a period, and the off-cycle warning *)\n"
    for kind, name in (("billing_monthly", "monthly"), ("billing_bimonthly", "bimonthly")):
        b = w[kind]
        s += "Definition gen_%s_hi : cop * Z := %s.\nDefinition gen_%s_lo : cop * Z := %s.\n" % (name, ztest(b["hi"]), name, ztest(b["lo"]))
        s += "Definition gen_%s_warn_hi : cop * Z := %s.\nDefinition gen_%s_warn_lo : cop * Z := %s.\n" % (
            name, ztest(b["warn_hi"]), name, ztest(b["warn_lo"]))
    s += "Definition gen_day_count_wall_clock : bool := %s.\n\n" % ("true" if w["wall_clock"] else "false")
    s += "(* compute_minimum_granularity: median table (days), fixed-frequency chain (minutes), Month rule *)\n"
    s += "Definition gen_median_rules : list (option (cop * Z) * (cop * Z) * gran) :=\n  [%s].\n" % ";\n   ".join(
        "(%s, %s, %s)" % (opt(lo, ztest), ztest(hi), gr) for lo, hi, gr in g["median_rules"])
    s += "Definition gen_fixed_rules : list (Z * gran) := [%s].\n" % "; ".join("(%d%%Z, %s)" % (m, gr) for m, gr in g["fixed"])
    s += "Definition gen_fixed_default : gran := %s.\nDefinition gen_month_one : gran := %s.\nDefinition gen_month_many : gran := %s.\n" % (
        g["fixed_default"], g["months"][0], g["months"][1])
    return s


def render_temp(x):
    s = (HEADER % (DAILY + ", " + BILLING)).replace("Model.Resample Model.Cmp", "Model.Resample Model.Cmp Model.TempAgg")
    for key, name in (("temp_daily", "daily"), ("temp_billing", "billing")):
        t = x[key]
        s += "(* %s class, _compute_temperature_features *)\n" % name
        s += "Definition gen_%s_keep : cop * Q := %s.\nDefinition gen_%s_warn : cop * Q := %s.\nDefinition gen_%s_scaled : bool := %s.\n" % (
            name, test(t["keep"]), name, test(t["warn"]), name, "true" if t["scaled"] else "false")
        s += "Definition gen_%s_median : cop * Q := %s.\nDefinition gen_%s_ratio : cop * Q := %s.\n" % (
            name, test(t["median"]), name, test(t["ratio"]))
        s += "Definition gen_%s_median_share : option (cop * Q) := %s.\nDefinition gen_%s_buffer : Z := %d%%Z.\n\n" % (
            name, opt(t["extra"], test), name, t["buffer"])
    return s


def _write(run, rel, text):
    if run is not None:
        run.write_generated(rel, text)
    else:
        p = os.path.join(vlib.COQ, rel)
        os.makedirs(os.path.dirname(p), exist_ok=True)
        old = open(p).read() if os.path.exists(p) else None
        if old != text:
            open(p, "w").write(text)


def generate(run=None, which=("resample", "temp")):
    x = extract()
    if "resample" in which:
        _write(run, "Generated/ResampleGen.v", render_resample(x))
    if "temp" in which:
        _write(run, "Generated/TempAggGen.v", render_temp(x))
    return x


if __name__ == "__main__":
    import json
    print(json.dumps(generate(None), indent=1, default=str))
