"""C04 — the disqualification gate is fail-closed and survives storage.
Model: coq/Model/Gate.v; theorems: coq/Properties/C04.v; tie: correspondence over operation histories."""
import json
import multiprocessing as mp
import os
import random
import time
import warnings

import numpy as np
import pandas as pd

import vlib
from vlib import Run, zlit, coq_list, coq_opt, coq_bool
import fitlib as F

warnings.simplefilter("ignore")
IMPORTS = "From V Require Import Model.Gate Model.GateRun."
FAMS = ["Daily", "Billing", "Hourly"]
# tzC: another zone whose UTC offsets coincide with the baseline's over the whole reporting period;
# tzD: a zone that merely shares the baseline's offset when the reporting period starts (fixed UTC-8)
TZ = {"US/Pacific": 1, "US/Eastern": 2, "America/Vancouver": 3, "Pacific/Pitcairn": 4}
POOR_NAMES = {"eemeter.model_fit_metrics.cvrmse", "eemeter.model_fit_metrics"}
NAME_IDS = {}


def name_id(n):
    if n in POOR_NAMES:
        return -1
    if n not in NAME_IDS:
        NAME_IDS[n] = 100 + len(NAME_IDS)
    return NAME_IDS[n]


# ------------------------------------------------------------------ datasets (built once, before forking)

DATA = {}     # (family, name) -> dict(obj=…, id=…, kind=('Baseline'|'Reporting'|'Raw', fam), tz=…, ghi=bool)


def build_data(seed):
    rng = random.Random(seed)
    k = [0]

    def add(fam, name, obj, kind, tz, ghi=False):
        k[0] += 1
        DATA[(fam, name)] = {"obj": obj, "id": k[0], "kind": kind, "tz": TZ.get(tz, 9), "ghi": ghi, "name": name, "fam": fam}

    # ---- daily
    d = F.daily_frame(rng, tz="US/Pacific")
    add("Daily", "clean", F.daily_baseline(d), ("Baseline", "Daily"), "US/Pacific")
    add("Daily", "short", F.daily_baseline(d.iloc[:200]), ("Baseline", "Daily"), "US/Pacific")
    g = d.copy()
    g.loc[g.index[rng.sample(range(365), 60)], "observed"] = np.nan
    add("Daily", "gaps", F.daily_baseline(g), ("Baseline", "Daily"), "US/Pacific")
    n = d.copy()
    n["observed"] = n["observed"] - n["observed"].mean() * 1.02
    add("Daily", "neggas", F.daily_baseline(n, electric=False), ("Baseline", "Daily"), "US/Pacific")
    # only the missing-month defect (4 April days without temperature: April 86.7% < 90%, the year stays > 90%);
    # its disqualification is created with an EMPTY data dict
    mm = d.copy()
    apr = [i for i, ts in enumerate(mm.index) if ts.month == 4][5:9]
    mm.loc[mm.index[apr], "temperature"] = np.nan
    add("Daily", "missmonth", F.daily_baseline(mm), ("Baseline", "Daily"), "US/Pacific")
    # combinations of defects and the too-long baseline
    sg = d.iloc[:230].copy()
    sg.loc[sg.index[rng.sample(range(230), 40)], "observed"] = np.nan
    add("Daily", "short_gaps", F.daily_baseline(sg), ("Baseline", "Daily"), "US/Pacific")
    ng = n.copy()
    ng.loc[ng.index[rng.sample(range(365), 60)], "temperature"] = np.nan
    add("Daily", "neggas_gaps", F.daily_baseline(ng, electric=False), ("Baseline", "Daily"), "US/Pacific")
    dl = F.daily_frame(rng, tz="US/Pacific", start="2021-06-01", ndays=420)
    add("Daily", "long", F.daily_baseline(dl), ("Baseline", "Daily"), "US/Pacific")
    e = F.daily_frame(rng, tz="US/Eastern")
    add("Daily", "clean_tzB", F.daily_baseline(e), ("Baseline", "Daily"), "US/Eastern")
    r = F.daily_frame(rng, tz="US/Pacific", start="2023-01-01", ndays=120)
    add("Daily", "rep", F.daily_reporting(r), ("Reporting", "Daily"), "US/Pacific")
    add("Daily", "rep_noobs", F.daily_reporting(r[["temperature"]]), ("Reporting", "Daily"), "US/Pacific")
    rb = F.daily_frame(rng, tz="US/Eastern", start="2023-01-01", ndays=120)
    add("Daily", "rep_tzB", F.daily_reporting(rb), ("Reporting", "Daily"), "US/Eastern")
    for zn, nm in (("America/Vancouver", "rep_tzC"), ("Pacific/Pitcairn", "rep_tzD")):
        rz = F.daily_frame(rng, tz=zn, start="2023-01-01", ndays=120)
        add("Daily", nm, F.daily_reporting(rz), ("Reporting", "Daily"), zn)
    add("Daily", "raw", r.copy(), ("Raw", None), "US/Pacific")
    # ---- billing
    m, t = F.billing_series(rng, tz="US/Pacific")
    add("Billing", "clean", F.billing_baseline(m, t), ("Baseline", "Billing"), "US/Pacific")
    add("Billing", "short", F.billing_baseline(m.iloc[:7], t), ("Baseline", "Billing"), "US/Pacific")
    tmm = t.copy()
    aprh = [i for i, ts in enumerate(tmm.index) if ts.month == 4 and 6 <= ts.day <= 9]
    tmm.iloc[aprh] = np.nan
    add("Billing", "missmonth", F.billing_baseline(m, tmm), ("Baseline", "Billing"), "US/Pacific")
    tsg = t.copy()
    tsg.iloc[[i for i, ts in enumerate(tsg.index) if ts.month in (2, 3)]] = np.nan
    add("Billing", "short_tgaps", F.billing_baseline(m.iloc[:9], tsg), ("Baseline", "Billing"), "US/Pacific")
    m2, t2 = F.billing_series(rng, tz="US/Eastern")
    add("Billing", "clean_tzB", F.billing_baseline(m2, t2), ("Baseline", "Billing"), "US/Eastern")
    mn = m - m.mean() * 1.02
    add("Billing", "neggas", F.billing_baseline(mn, t, electric=False), ("Baseline", "Billing"), "US/Pacific")
    mr, tr = F.billing_series(rng, tz="US/Pacific", start="2023-01-10", nperiods=5)
    add("Billing", "rep", F.billing_reporting(mr, tr), ("Reporting", "Billing"), "US/Pacific")
    mrb, trb = F.billing_series(rng, tz="US/Eastern", start="2023-01-10", nperiods=5)
    add("Billing", "rep_tzB", F.billing_reporting(mrb, trb), ("Reporting", "Billing"), "US/Eastern")
    for zn, nm in (("America/Vancouver", "rep_tzC"), ("Pacific/Pitcairn", "rep_tzD")):
        mz, tz_ = F.billing_series(rng, tz=zn, start="2023-01-10", nperiods=5)
        add("Billing", nm, F.billing_reporting(mz, tz_), ("Reporting", "Billing"), zn)
    add("Billing", "raw", r.copy(), ("Raw", None), "US/Pacific")
    # ---- hourly
    h = F.hourly_frame(rng, tz="US/Pacific")
    add("Hourly", "clean", F.hourly_baseline(h), ("Baseline", "Hourly"), "US/Pacific")
    add("Hourly", "short", F.hourly_baseline(h.iloc[: 200 * 24]), ("Baseline", "Hourly"), "US/Pacific")
    hgap = h.copy()
    gap_days = rng.sample(range(365), 60)
    for gd in gap_days:
        hgap.iloc[gd * 24: gd * 24 + 24, hgap.columns.get_loc("observed")] = np.nan
    add("Hourly", "gaps", F.hourly_baseline(hgap), ("Baseline", "Hourly"), "US/Pacific")
    htg = h.iloc[: 250 * 24].copy()
    htg.iloc[40 * 24: 75 * 24, htg.columns.get_loc("temperature")] = np.nan
    add("Hourly", "short_tgaps", F.hourly_baseline(htg), ("Baseline", "Hourly"), "US/Pacific")
    hg = F.hourly_frame(rng, tz="US/Pacific", ghi=True)
    add("Hourly", "clean_ghi", F.hourly_baseline(hg), ("Baseline", "Hourly"), "US/Pacific", ghi=True)
    he = F.hourly_frame(rng, tz="US/Eastern")
    add("Hourly", "clean_tzB", F.hourly_baseline(he), ("Baseline", "Hourly"), "US/Eastern")
    hr = F.hourly_frame(rng, tz="US/Pacific", start="2023-02-01", ndays=21)
    add("Hourly", "rep", F.hourly_reporting(hr), ("Reporting", "Hourly"), "US/Pacific")
    hrg = F.hourly_frame(rng, tz="US/Pacific", start="2023-02-01", ndays=21, ghi=True)
    add("Hourly", "rep_ghi", F.hourly_reporting(hrg), ("Reporting", "Hourly"), "US/Pacific", ghi=True)
    hrb = F.hourly_frame(rng, tz="US/Eastern", start="2023-02-01", ndays=21)
    add("Hourly", "rep_tzB", F.hourly_reporting(hrb), ("Reporting", "Hourly"), "US/Eastern")
    # net-exporting meter (mean usage <= 0: CVRMSE undefined) whose usage is unrelated to the weather
    # (PNRMSE far above its threshold): must end in the poor-fit disqualification under DEFAULT thresholds
    hx = h.copy()
    nrng = np.random.default_rng(rng.randrange(2**32))
    hx["observed"] = nrng.normal(-1, 10, len(hx)) ** 3
    add("Hourly", "exporter_poor", F.hourly_baseline(hx), ("Baseline", "Hourly"), "US/Pacific")
    for zn, nm in (("America/Vancouver", "rep_tzC"), ("Pacific/Pitcairn", "rep_tzD")):
        hz = F.hourly_frame(rng, tz=zn, start="2023-02-01", ndays=21)
        add("Hourly", nm, F.hourly_reporting(hz), ("Reporting", "Hourly"), zn)
    add("Hourly", "raw", hr.copy(), ("Raw", None), "US/Pacific")
    # cross-family objects
    for fam in FAMS:
        for other in FAMS:
            if other != fam:
                src = DATA[(other, "rep")]
                DATA[(fam, "rep_of_" + other)] = dict(src, name="rep_of_" + other)
                srcb = DATA[(other, "clean")]
                DATA[(fam, "base_of_" + other)] = dict(srcb, name="base_of_" + other)


def new_model(fam, profile):
    from opendsm.eemeter import DailyModel, BillingModel, HourlyModel
    if fam == "Daily":
        if profile == "lowthr":
            return DailyModel(settings={"developer_mode": True, "silent_developer_mode": True, "cvrmse_threshold": 0.001})
        return DailyModel()
    if fam == "Billing":
        if profile == "lowthr":
            return BillingModel(settings={"developer_mode": True, "silent_developer_mode": True, "cvrmse_threshold": 0.001})
        return BillingModel()
    if profile == "lowthr":
        return HourlyModel(settings={"cvrmse_threshold": 1e-6, "pnrmse_threshold": 1e-6})
    if profile == "ghi":
        return HourlyModel(settings={"train_features": ["temperature", "ghi"]})
    if profile == "adaptive":    # the other fit path of the hourly model (_adaptive_fit)
        return HourlyModel(settings={"elasticnet": {"adaptive_weights": True, "adaptive_weight_max_iter": 3, "adaptive_weight_tol": 1e-3}})
    return HourlyModel()


def exn_name(e):
    n = type(e).__name__
    if n == "ValueError":
        msg = str(e)
        if "timezone" in msg:
            return "ValueTz"
        if "GHI" in msg or "missing the following features" in msg:
            return "ValueMissingFeature"
        return "ValueError:" + msg[:60]
    return {"TypeError": "TypeErr", "DataSufficiencyError": "DataSufficiency", "RuntimeError": "RuntimeErr",
            "DisqualifiedModelError": "Disqualified", "AttributeError": "AttrErr"}.get(n, n + ":" + str(e)[:60])


def run_history(args):
    """worker: execute one history on the implementation"""
    fam, profile, ops = args
    warnings.simplefilter("ignore")
    obj = new_model(fam, profile)
    trace = []
    for op in ops:
        out = None
        poor = None
        if op[0] == "fit":
            d = DATA[(fam, op[1])]
            dq_before = [w.qualified_name for w in d["obj"].disqualification] if d["kind"][0] != "Raw" else []
            try:
                obj.fit(d["obj"], ignore_disqualification=op[2])
                out = "Fitted"
                # poor-fit oracle, INDEPENDENT of the gate function itself: recomputed from the reported metrics and
                # thresholds (statement C16: disqualified iff both criteria are missed; an undefined ratio is a miss)
                if fam == "Hourly":
                    bm = obj.baseline_metrics
                    cv, pn = bm.cvrmse_adj, bm.pnrmse_adj
                    ok_cv = cv is not None and np.isfinite(cv) and cv < obj.settings.cvrmse_threshold
                    ok_pn = pn is not None and np.isfinite(pn) and pn < obj.settings.pnrmse_threshold
                    poor = not (ok_cv or ok_pn)
                else:
                    poor = bool(obj.error["CVRMSE"] > obj.settings.cvrmse_threshold)
            except Exception as e:  # noqa
                out = exn_name(e)
            dq_after = [w.qualified_name for w in d["obj"].disqualification] if d["kind"][0] != "Raw" else []
            data_changed = dq_before != dq_after
        elif op[0] == "predict":
            d = DATA[(fam, op[1])]
            try:
                res = obj.predict(d["obj"], ignore_disqualification=op[2])
                out = "Frame" if isinstance(res, pd.DataFrame) and "predicted" in res.columns else "Other:" + type(res).__name__
            except Exception as e:  # noqa
                out = exn_name(e)
            data_changed = False
        else:  # reload
            data_changed = False
            if getattr(obj, "is_fitted", False):
                try:
                    if len(op) > 1 and op[1] == "dict":
                        obj = type(obj).from_dict(json.loads(json.dumps(obj.to_dict())))
                    else:
                        obj = type(obj).from_json(obj.to_json())
                except Exception as e:  # noqa
                    out = "ReloadFailed:" + exn_name(e)
        fitted = bool(getattr(obj, "is_fitted", False))
        dq = [w.qualified_name for w in getattr(obj, "disqualification", [])]
        tz = str(getattr(obj, "baseline_timezone", None))
        trace.append({"out": out, "fitted": fitted, "dq": dq, "tz": tz, "poor": poor, "data_changed": data_changed})
    return trace


# ------------------------------------------------------------------ generator of histories

def gen_history(rng, fam, k):
    profile = rng.choice(["default", "default", "lowthr"] + (["ghi"] if fam == "Hourly" else []))
    baselines = [n for (f, n), d in DATA.items() if f == fam and d["kind"][0] == "Baseline" and d["fam"] == fam]
    others = [n for (f, n), d in DATA.items() if f == fam and not (d["kind"][0] == "Baseline" and d["fam"] == fam)]
    preds = [n for (f, n) in DATA if f == fam]
    ops = []
    nfit = 0
    length = rng.randrange(3, 9)
    # systematic prefixes so that every quick run covers the central cells
    if k == 0:
        ops = [("predict", "rep", False), ("fit", "short", False), ("fit", "clean", False), ("predict", "rep", False),
               ("reload",), ("predict", "rep", False), ("predict", "rep_tzB", True), ("predict", "raw", True),
               ("predict", "rep_tzC", True), ("predict", "rep_tzD", False)]
        # the other families' data objects, in the baseline's own timezone, on a qualified fitted model
        for other in FAMS:
            if other != fam:
                ops += [("predict", "rep_of_" + other, False), ("predict", "base_of_" + other, True)]
        ops += [("reload", "dict")] + [("predict", "rep_of_" + other, True) for other in FAMS if other != fam]
        return profile if profile != "ghi" else "default", ops
    if k == 1:
        ops = [("fit", "short", True), ("predict", "rep", False), ("predict", "rep", True), ("reload",),
               ("predict", "rep", False), ("predict", "rep", True), ("fit", "clean", False), ("predict", "rep", False),
               ("predict", "rep_tzD", True), ("predict", "rep_tzC", False)]
        return "default", ops
    if k == 2:
        ops = [("fit", "clean", False), ("predict", "rep", False), ("predict", "rep", True), ("reload",),
               ("predict", "rep", False), ("predict", "clean", True), ("fit", "neggas" if fam != "Hourly" else "short", True),
               ("predict", "rep", False)]
        return "lowthr", ops
    if k == 3 and fam != "Hourly":
        ops = [("fit", "missmonth", False), ("fit", "missmonth", True), ("predict", "rep", False), ("reload",),
               ("predict", "rep", False), ("predict", "rep", True), ("reload", "dict"), ("predict", "rep", False)]
        return "default", ops
    if k == 4 and fam == "Hourly":
        ops = [("fit", "exporter_poor", False), ("predict", "rep", False), ("reload",), ("predict", "rep", False),
               ("fit", "clean", False), ("predict", "rep", False)]
        return "adaptive", ops
    if k == 3 and fam == "Hourly":
        ops = [("fit", "exporter_poor", False), ("predict", "rep", False), ("reload",), ("predict", "rep", False),
               ("predict", "rep", True), ("reload", "dict"), ("predict", "rep", False)]
        return "default", ops
    while len(ops) < length:
        x = rng.random()
        if x < 0.3 and nfit < 2:
            name = rng.choice(baselines + baselines + others[:2])
            ops.append(("fit", name, rng.random() < 0.5))
            nfit += 1
        elif x < 0.85:
            ops.append(("predict", rng.choice(preds + ["rep", "rep"]), rng.random() < 0.4))
        else:
            ops.append(("reload",) if rng.random() < 0.6 else ("reload", "dict"))
    return profile, ops


# ------------------------------------------------------------------ literal oracle of the statement

def oracle(fam, profile, ops, trace):
    """independent bookkeeping of what the statement demands; returns list of (signature, message)"""
    fails = []
    fitted = False
    mdq = []          # names the model must carry
    mtz = None
    reloaded = False
    mghi = profile == "ghi"       # does the model's feature list contain ghi
    ever_fitted = False
    for op, t in zip(ops, trace):
        out = t["out"]
        if t["data_changed"]:
            fails.append(({"call": fam + ".fit", "broken": "data object modified"}, "fit changed the data object's disqualification list"))
        if op[0] == "fit":
            d = DATA[(fam, op[1])]
            well_typed = d["kind"] == ("Baseline", fam) and d["fam"] == fam
            if not well_typed:
                if out == "Fitted":
                    fails.append(({"call": fam + ".fit", "broken": "foreign baseline type accepted"}, "fit accepted " + op[1]))
                    fitted = True
                continue
            ddq = [w.qualified_name for w in d["obj"].disqualification]
            must_raise = bool(ddq) and not op[2]
            cfg_err = fam == "Hourly" and mghi and not d["ghi"]
            if must_raise:
                if out != "DataSufficiency":
                    fails.append(({"call": fam + ".fit", "broken": "disqualified data fitted", "got": out},
                                  "fit on disqualified data without override gave %s" % out))
            elif cfg_err and out == "ValueMissingFeature":
                pass
            elif out != "Fitted":
                fails.append(({"call": fam + ".fit", "broken": "qualified data not fitted", "got": out.split(":")[0],
                               "object": "reloaded from json" if reloaded else "fresh or fitted in place"},
                              "fit on acceptable data gave %s instead of a model (%s object)" % (
                                  out, "reloaded" if reloaded else "ordinary")))
                return fails      # the object's state after a broken fit is undefined for the statement
            if out == "Fitted":
                if fam == "Hourly" and not ever_fitted and d["ghi"]:
                    mghi = True           # default features are chosen from the first baseline's columns
                ever_fitted = True
                reloaded = False
                fitted = True
                mdq = ddq + (["<poor>"] if t["poor"] else [])
                mtz = d["tz"]
                got = [("<poor>" if n in POOR_NAMES else n) for n in t["dq"]]
                if sorted(got) != sorted(mdq):
                    fails.append(({"call": fam + ".fit", "broken": "disqualifications not inherited"},
                                  "model carries %s, expected %s" % (got, mdq)))
        elif op[0] == "predict":
            d = DATA[(fam, op[1])]
            well_typed = d["kind"][0] in ("Baseline", "Reporting") and d["fam"] == fam
            same_tz = mtz == d["tz"]
            feat_ok = not (fam == "Hourly" and fitted and mghi and not d["ghi"])
            if (not fitted) or (not well_typed) or (not same_tz):
                if out == "Frame":
                    why = "unfitted" if not fitted else ("foreign type" if not well_typed else "timezone")
                    fails.append(({"call": fam + ".predict", "broken": "predicted behind a closed gate", "why": why},
                                  "predict returned a frame for %s (%s)" % (op[1], why)))
                continue
            if not feat_ok:
                continue
            must_dq = bool(mdq) and not op[2]
            if must_dq and out != "Disqualified":
                fails.append(({"call": fam + ".predict", "broken": "disqualified model predicted", "got": out.split(":")[0]},
                              "disqualified model, no override: got %s" % out))
            if (not must_dq) and out != "Frame":
                if out == "ValueMissingFeature":
                    continue
                fails.append(({"call": fam + ".predict", "broken": "no prediction", "got": out.split(":")[0]},
                              "qualified call gave %s instead of a frame" % out))
        else:
            if out is not None:
                fails.append(({"call": fam + ".to_json/from_json", "broken": "round trip failed", "got": out.split(":")[1] if ":" in out else out},
                              "store/load failed: %s" % out))
            elif fitted:
                reloaded = True
                got = [("<poor>" if n in POOR_NAMES else n) for n in t["dq"]]
                if sorted(got) != sorted(mdq):
                    fails.append(({"call": fam + ".from_json", "broken": "disqualifications lost in storage"},
                                  "reloaded model carries %s, expected %s" % (got, mdq)))
    return fails


def _features(profile, fitted):
    return ["temperature", "ghi"] if profile == "ghi" else ["temperature"]


# ------------------------------------------------------------------ Coq emission

OUT = {"Frame": "Frame", "Fitted": "Fitted", "TypeErr": "(Err TypeErr)", "DataSufficiency": "(Err DataSufficiency)",
       "RuntimeErr": "(Err RuntimeErr)", "Disqualified": "(Err Disqualified)", "ValueTz": "(Err ValueTz)",
       "ValueMissingFeature": "(Err ValueMissingFeature)", "AttrErr": "(Err AttrErr)"}


def coq_dobj(fam, name):
    d = DATA[(fam, name)]
    kind = "Raw" if d["kind"][0] == "Raw" else "(%s %s)" % (d["kind"][0], d["kind"][1])
    dq = [] if d["kind"][0] == "Raw" else [name_id(w.qualified_name) for w in d["obj"].disqualification]
    return "{| d_id := %s; d_kind := %s; d_dq := %s; d_tz := %s; d_ghi := %s |}" % (
        zlit(d["id"]), kind, coq_list([zlit(x) for x in dq]), zlit(d["tz"]), coq_bool(d["ghi"]))


def coq_case(fam, profile, ops, trace):
    poor_ids = sorted({DATA[(fam, op[1])]["id"] for op, t in zip(ops, trace) if op[0] == "fit" and t["poor"]})
    cops, cobs = [], []
    for op, t in zip(ops, trace):
        if op[0] == "fit":
            cops.append("(OFit %s %s)" % (coq_dobj(fam, op[1]), coq_bool(op[2])))
        elif op[0] == "predict":
            cops.append("(OPredict %s %s)" % (coq_dobj(fam, op[1]), coq_bool(op[2])))
        else:
            cops.append("OReload")
        if t["out"] is None:
            o = "None"
        elif t["out"] in OUT:
            o = "(Some %s)" % OUT[t["out"]]
        else:
            return None
        tz = TZ.get(t["tz"], 0)
        cobs.append("(%s, (%s, %s, %s))" % (o, coq_bool(t["fitted"]), coq_list([zlit(name_id(n)) for n in t["dq"]]), zlit(tz)))
    return "(%s, %s, %s, %s, %s)" % (fam, coq_bool(profile == "ghi"), coq_list([zlit(i) for i in poor_ids]),
                                     coq_list(cops), coq_list(cobs))


# ------------------------------------------------------------------ main

def main():
    run = Run("C04")
    run.cov["rule"] = ("histories of 3-8 operations {fit(data, ignore), predict(data, ignore), to_json/from_json} on one model object per "
                       "family (daily, billing, hourly) and profile (default, developer-mode low threshold -> poor fit, explicit GHI); "
                       "data objects: clean, too short, gaps, negative gas, other time zone, with/without GHI, reporting with/without "
                       "observed, other family's objects, raw DataFrame. distinct = (family, profile, op list); non-trivial = at least "
                       "one successful fit followed by a predict")
    run.assumptions += [
        "the numeric fit is an oracle (poor-fit verdict read from the fitted object); that it never raises on qualified data is sampled",
        "'raises exactly when' for predict is read under an otherwise valid call (fitted, own data type, same time zone); "
        "for invalid calls the statement only demands that some exception is raised",
        "correspondence is sampled: agreement is established on the histories run",
    ]
    run.cov["trusted_base"] += ["harness/c04.py, harness/fitlib.py (histories, adapter, canonicalisation of exception classes)",
                                "Model/Gate.v re-specifies the guard order of fit/predict per family; tied to the source by "
                                "harness/translate_gate.py (ast, fail-closed: guard prefix of fit/predict of the three model classes, "
                                "in source order, with the classes the type guards accept) + theorems C04_predict_is_the_source_guard_sequence "
                                "/ C04_fit_is_the_source_guard_sequence, and validated by the correspondence"]
    # step 0: translator (guard prefixes of fit / predict, regenerated from /repo's source on every run)
    import translate_gate
    gen_ok = True
    try:
        ex = translate_gate.extract()
        run.write_generated(translate_gate.OUT, translate_gate.render(ex))
        run.cov["source_guard_sequences"] = ex
    except translate_gate.TranslatorError as e:
        gen_ok = False
        run.proof_ok = False
        run.proof_log += "translator failed (fail-closed): %s" % e
        run.log("TRANSLATOR FAILED: %s" % e)
    if gen_ok:
        run.check_proofs("Properties/C04.v", ["Proofs/GateProofs.v", "Proofs/GateGenProofs.v"], generated=["Generated/GateGen.v"])
    run.ensure_models(["Model/GateRun.v", "Model/CasesLib.v"])
    t0 = time.time()
    build_data(run.seed)
    run.log("data objects built in %.1fs" % (time.time() - t0))
    jobs = []
    if run.replay:
        rep = json.load(open(run.replay))
        c = rep["case"]
        jobs.append((c["family"], c["profile"], [tuple(o) for o in c["ops"]]))
    else:
        nh = run.n(40, 400)
        for fam in FAMS:
            for k in range(nh):
                profile, ops = gen_history(run.rng, fam, k)
                jobs.append((fam, profile, ops))
    ctx = mp.get_context("fork")
    with ctx.Pool(min(16, len(jobs))) as pool:
        traces = pool.map(run_history, jobs, chunksize=1)
    run.log("histories executed")
    terms, kept = [], []
    for (fam, profile, ops), trace in zip(jobs, traces):
        for j, (op, t) in enumerate(zip(ops, trace)):
            if op[0] == "fit" and t["out"] == "AttrErr":
                ops, trace = ops[: j + 1], trace[: j + 1]
                break
        fitted_then_pred = any(t["out"] == "Fitted" for t in trace) and any(o[0] == "predict" for o in ops)
        run.count((fam, profile, tuple(ops)), fitted_then_pred)
        for op, t in zip(ops, trace):
            run.dist("outcome", (op[0], (t["out"] or "ok").split(":")[0]))
        run.dist("family/profile", (fam, profile))
        case = {"family": fam, "profile": profile, "ops": ops}
        for sig, msg in oracle(fam, profile, ops, trace):
            run.violation(sig, "C04 %s: %s" % (fam, msg), case=case, observation=trace, generator="c04.gen_history")
        term = coq_case(fam, profile, ops, trace)
        if term is None:
            run.corr_failures.append({"stream": "gate", "case": case, "impl": trace,
                                      "model": "an outcome outside the model's alphabet"})
            continue
        terms.append(term)
        kept.append((case, trace))
        run.sample({"family": fam, "profile": profile, "ops": ops, "outcomes": [t["out"] for t in trace]})
    bad = run.coq_cases("gate", IMPORTS, "", terms, "check_gate", shard=100,
                        case_type="(family * bool * list Z * list op * list obs)%type")
    if bad is None:
        run.proof_ok = False
    else:
        for i in bad:
            case, trace = kept[i]
            run.corr_failures.append({"stream": "gate", "case": case, "impl": trace})
    run.finish()


if __name__ == "__main__":
    vlib.run_main(main, "C04")
