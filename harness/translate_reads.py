"""Translator for C05: writes coq/Generated/ObservedReadsGen.v from the source in vlib.repo_root().

For every model family whose counterfactual must not depend on usage, the functions reachable from the public predict
entry points (and from the data class in front of them) are collected with `ast` — `self.method(...)` calls, calls of
module-level functions and nested `def`s, transitively — and two tables are extracted from their bodies:

  observed_reads   every occurrence of the column name "observed" as a string literal, by innermost enclosing function and
                   syntactic role:  store   the literal is the key of an assignment / deletion target  (df["observed"] = ...)
                                    test    membership test                                             ("observed" in df.columns)
                                    load    anything else (df["observed"], df[["observed", ...]], groupby(...)["observed"], a
                                            list of column names, a keyword argument, ...)
  frame_ops        calls of NaN-sensitive whole-frame methods on a receiver that is not a single named column
                   (dropna, mask, where, isnull / isna / notna / notnull, count, fillna, ffill, bfill, interpolate): such a
                   call reads every column of the frame, `observed` included

Fail-closed (TranslateError -> the check reports a broken tie): an entry point that does not exist, a `self.x(...)` call
whose target is in none of the family's classes, a source file that does not parse, getattr/eval/exec on a path function.
The tables are compared in Coq with the read sites the models account for (Model/ReadSites.v, theorems
C05_observed_reads_accounted / C05_frame_ops_accounted of Properties/C05.v)."""
import ast
import os

import vlib

OUT = "Generated/ObservedReadsGen.v"
PKG = "opendsm/eemeter/models"

# family -> (files with the classes / functions of the path, entry points "Class.method" or "function")
FAMILIES = {
    "hourly": (["%s/hourly/model.py" % PKG, "%s/hourly/data.py" % PKG, "opendsm/common/hourly_interpolation.py"],
               ["HourlyModel.predict", "HourlyReportingData.__init__", "_HourlyData.__init__"]),
    "caltrack": (["%s/hourly_caltrack/wrapper.py" % PKG, "%s/hourly_caltrack/data.py" % PKG],
                 ["HourlyModel.predict", "HourlyReportingData.__init__", "HourlyReportingData.from_series"]),
    "daily": (["%s/daily/model.py" % PKG], ["DailyModel.predict"]),
    "billing": (["%s/billing/model.py" % PKG, "%s/daily/model.py" % PKG], ["BillingModel.predict"]),
}
FRAME_OPS = {"dropna", "mask", "where", "isnull", "isna", "notna", "notnull", "count", "fillna", "ffill", "bfill", "interpolate"}
FORBIDDEN_CALLS = {"getattr", "eval", "exec", "__import__"}
# getattr(reporting_data, self._data_df_name) in DailyModel.predict / BillingModel.predict: the one known dynamic access
ALLOWED_GETATTR = {("DailyModel.predict", "_data_df_name"), ("BillingModel.predict", "_data_df_name")}


class TranslateError(Exception):
    pass


def _need(cond, msg):
    if not cond:
        raise TranslateError(msg)


def _parse(rel):
    p = os.path.join(vlib.repo_root(), rel)
    _need(os.path.exists(p), "source file missing: " + rel)
    try:
        return ast.parse(open(p).read(), filename=p)
    except SyntaxError as e:
        raise TranslateError("cannot parse %s: %s" % (rel, e))


def _defs(tree):
    """qualname -> FunctionDef for module-level functions and class methods (nested defs stay inside their parent)"""
    out, classes = {}, {}
    for node in tree.body:
        if isinstance(node, (ast.FunctionDef, ast.AsyncFunctionDef)):
            out[node.name] = node
        elif isinstance(node, ast.ClassDef):
            classes[node.name] = [b.id for b in node.bases if isinstance(b, ast.Name)]
            for sub in node.body:
                if isinstance(sub, (ast.FunctionDef, ast.AsyncFunctionDef)):
                    out["%s.%s" % (node.name, sub.name)] = sub
    return out, classes


def _resolve_method(cls, name, defs, classes):
    """Class.method looked up through the bases that are defined in the family's files"""
    seen = set()
    todo = [cls]
    while todo:
        c = todo.pop(0)
        if c in seen:
            continue
        seen.add(c)
        if "%s.%s" % (c, name) in defs:
            return "%s.%s" % (c, name)
        todo += classes.get(c, [])
    return None


def _calls(fn):
    """(kind, name) of the calls in fn, nested defs included: ('self', m) for self.m(...), ('super', m), ('name', f)"""
    out = []
    for node in ast.walk(fn):
        if not isinstance(node, ast.Call):
            continue
        f = node.func
        if isinstance(f, ast.Attribute) and isinstance(f.value, ast.Name) and f.value.id in ("self", "cls"):
            out.append(("self", f.attr))
        elif isinstance(f, ast.Attribute) and isinstance(f.value, ast.Call) and isinstance(f.value.func, ast.Name) \
                and f.value.func.id == "super":
            out.append(("super", f.attr))
        elif isinstance(f, ast.Name):
            out.append(("name", f.id))
    return out


def path_functions(family):
    files, entries = FAMILIES[family]
    defs, classes = {}, {}
    for rel in files:
        d, c = _defs(_parse(rel))
        for k, v in d.items():
            defs.setdefault(k, v)       # first file wins (BillingModel.predict before DailyModel.predict)
        classes.update(c)
    related = set()
    for e in entries:
        if "." in e:
            stack = [e.split(".")[0]]
            while stack:
                c = stack.pop()
                if c not in related:
                    related.add(c)
                    stack += classes.get(c, [])
    related = sorted(related)
    todo, seen = [], []
    for e in entries:
        if "." in e:
            cls, m = e.split(".")
            q = _resolve_method(cls, m, defs, classes)
            if q is None and m == "__init__":
                continue                 # a class without its own constructor: the base class entry is listed as well
            _need(q is not None, "%s: entry point %s not found" % (family, e))
        else:
            q = e if e in defs else None
            _need(q is not None, "%s: entry point %s not found" % (family, e))
        todo.append(q)
    while todo:
        q = todo.pop(0)
        if q in seen:
            continue
        seen.append(q)
        fn = defs[q]
        cls = q.split(".")[0] if "." in q else None
        nested = {n.name for n in ast.walk(fn) if isinstance(n, (ast.FunctionDef, ast.AsyncFunctionDef)) and n is not fn}
        for kind, name in _calls(fn):
            if kind in ("self", "super"):
                _need(cls is not None, "%s: self.%s() outside a class in %s" % (family, name, q))
                if kind == "super":
                    tgts = []
                    for c in classes.get(cls, []):
                        t = _resolve_method(c, name, defs, classes)
                        if t:
                            tgts.append(t)
                            break
                else:
                    # dynamic dispatch: the definition seen from this class AND every override in the classes of the entry
                    # points (and their ancestors) — e.g. _HourlyData.__init__ calls self._check_data_sufficiency()
                    tgts = [t for t in [_resolve_method(cls, name, defs, classes)] if t]
                    tgts += ["%s.%s" % (c, name) for c in related if "%s.%s" % (c, name) in defs]
                    if not tgts:
                        cands = [k for k in defs if k.endswith("." + name)]
                        _need(len(cands) >= 1, "%s: %s calls self.%s(), which is in none of the family's files" % (family, q, name))
                        tgts = cands[:1]
                todo += tgts
            else:
                if name in FORBIDDEN_CALLS:
                    ok = False
                    if name == "getattr":
                        for node in ast.walk(fn):
                            if isinstance(node, ast.Call) and isinstance(node.func, ast.Name) and node.func.id == "getattr":
                                a = node.args[1] if len(node.args) > 1 else None
                                ok = isinstance(a, ast.Attribute) and (q, a.attr) in ALLOWED_GETATTR
                    _need(ok, "%s: dynamic access %s() in %s" % (family, name, q))
                elif name in defs and name not in nested:
                    todo.append(name)
    return [(q, defs[q]) for q in seen]


def _sites(qual, fn):
    """-> ({(function, role): n}, {(function, method): n}) with the innermost enclosing def as function"""
    reads, ops = {}, {}

    def visit(node, where, parents):
        if isinstance(node, (ast.FunctionDef, ast.AsyncFunctionDef)) and node is not fn:
            where = "%s.%s" % (where, node.name)
        if isinstance(node, ast.Constant) and node.value == "observed":
            role = "load"
            # direct key of a subscript that is an assignment / deletion target, or part of its index tuple
            chain = parents[::-1]
            for i, p in enumerate(chain):
                if isinstance(p, ast.Subscript):
                    if isinstance(p.ctx, (ast.Store, ast.Del)):
                        role = "store"
                    break
                if not isinstance(p, (ast.Tuple, ast.Index if hasattr(ast, "Index") else ast.Tuple)):
                    break
            if parents and isinstance(parents[-1], ast.Compare) and any(isinstance(o, (ast.In, ast.NotIn)) for o in parents[-1].ops) \
                    and parents[-1].left is node:
                role = "test"
            reads[(where, role)] = reads.get((where, role), 0) + 1
        if isinstance(node, ast.Call) and isinstance(node.func, ast.Attribute) and node.func.attr in FRAME_OPS:
            recv = node.func.value
            named_column = isinstance(recv, ast.Subscript) and isinstance(recv.slice, ast.Constant) and isinstance(recv.slice.value, str)
            if not named_column:
                ops[(where, node.func.attr)] = ops.get((where, node.func.attr), 0) + 1
        for child in ast.iter_child_nodes(node):
            visit(child, where, parents + [node])

    visit(fn, qual, [])
    return reads, ops


def extract():
    reads, ops, funcs = [], [], {}
    for fam in sorted(FAMILIES):
        pf = path_functions(fam)
        funcs[fam] = [q for q, _ in pf]
        r_all, o_all = {}, {}
        for q, fn in pf:
            r, o = _sites(q, fn)
            for k, v in r.items():
                r_all[k] = r_all.get(k, 0) + v
            for k, v in o.items():
                o_all[k] = o_all.get(k, 0) + v
        reads += [(fam, f, role, n) for (f, role), n in sorted(r_all.items())]
        ops += [(fam, f, m, n) for (f, m), n in sorted(o_all.items())]
    _need(any(f == "hourly" for f, *_ in reads), "no read site found for the hourly family: the extraction is broken")
    return {"functions": funcs, "observed_reads": reads, "frame_ops": ops}


def render(ex):
    L = ["(* GENERATED by harness/translate_reads.py from the source tree on every run - do not edit.",
         "   Where the predict paths (and the data classes in front of them) mention the column `observed`, and which",
         "   NaN-sensitive whole-frame operations they perform.  (family, innermost function, role / method, occurrences) *)",
         "From Coq Require Import String List.", "Import ListNotations.", "Open Scope string_scope.", ""]

    def row(t):
        return '("%s", "%s", "%s", %d)' % t
    L.append("Definition observed_reads : list (string * string * string * nat) :=\n  [" +
             ";\n   ".join(row(t) for t in ex["observed_reads"]) + "].")
    L.append("")
    L.append("Definition frame_ops : list (string * string * string * nat) :=\n  [" +
             ";\n   ".join(row(t) for t in ex["frame_ops"]) + "].")
    L.append("")
    L.append("Definition path_functions : list (string * list string) :=\n  [" +
             ";\n   ".join('("%s", [%s])' % (f, "; ".join('"%s"' % q for q in qs)) for f, qs in sorted(ex["functions"].items())) + "].")
    L.append("")
    return "\n".join(L)


def generate(run=None):
    ex = extract()
    text = render(ex)
    if run is not None:
        run.write_generated(OUT, text)
    else:
        p = os.path.join(vlib.COQ, OUT)
        os.makedirs(os.path.dirname(p), exist_ok=True)
        with vlib.Lock(True):
            old = open(p).read() if os.path.exists(p) else None
            if old != text:
                tmp = p + ".tmp%d" % os.getpid()
                open(tmp, "w").write(text)
                os.replace(tmp, p)
    return ex


if __name__ == "__main__":
    ex = generate(None)
    for k in ("observed_reads", "frame_ops"):
        print(k)
        for t in ex[k]:
            print("  ", t)
    for f, qs in ex["functions"].items():
        print(f, len(qs), qs)
